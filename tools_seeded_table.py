#!/usr/bin/env python3
"""Regenerate seeded/RESULTS.md from seeded/*/meta.json + detection.json (written by tools_seeded.sh)."""
import glob, json, os

rows = []
for d in sorted(glob.glob("seeded/C??_m?")):
    name = os.path.basename(d)
    meta = json.load(open(os.path.join(d, "meta.json")))
    det = json.load(open(os.path.join(d, "detection.json"))) if os.path.exists(os.path.join(d, "detection.json")) else {}
    cells = []
    for chk, r in sorted(det.items()):
        ded = "; ".join(x.split("::", 1)[1][:70] for x in r.get("failed_obligations", [])[:2])
        rt = "; ".join(x[:70] for x in r.get("failed_bounded_checks", [])[:2])
        verdict = {0: "MISSED (exit 0)", 1: "VIOLATION", 2: "undecided (exit 2)", 3: "checker error (exit 3)"}.get(r["exit"], str(r["exit"]))
        how = []
        if ded:
            how.append("obligation: " + ded)
        if rt:
            how.append("bounded: " + rt)
        cells.append("`./check %s`: **%s**%s" % (chk, verdict, (" -- " + " / ".join(how)) if how else ""))
    rows.append("| %s | %s | %s |" % (name, meta.get("title", "").replace("|", "/")[:150], "<br>".join(cells) or "not run"))
out = ["# Seeded changes and what catches them", "",
       "Each directory holds patch.diff (never committed to /repo), demo.py (passes on the clean tree, fails with the patch), meta.json",
       "(the author's description + my confirmation) and detection.json (written by tools_seeded.sh: the patch applied to /repo, the check run, /repo reverted).", "",
       "| change | what it does | result of the checks |", "|---|---|---|"] + rows
open("seeded/RESULTS.md", "w").write("\n".join(out) + "\n")
print("\n".join(out[-len(rows):])[:3000])
