#!/bin/bash
# usage: tools_mut.sh <relpath under conductor/> <python-regex-old> <new> <cli pattern>   (scratch copy of the FIXED tree)
set -e
BASE=${MUT_BASE:-/repo/src/conductor}
D=$(mktemp -d /tmp/mut.XXXX)
cp -r $BASE $D/conductor
python3 - "$D/conductor/$1" "$2" "$3" <<'PY'
import sys,re
p,old,new=sys.argv[1:4]
s=open(p).read()
assert old in s, "pattern not found"
s=s.replace(old,new,1)
open(p,'w').write(s)
PY
PYVC_REPO_SRC=$D/conductor python3-vt -m pyvc.cli "$4" 2>&1 | cut -c1-200 | grep -E "FAIL|UNDEC|bad =|VACU" | head -8
rm -rf $D
