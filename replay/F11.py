"""F11 (C09): lost wake-up in SigchldHelper.wait().  The self-pipe is written by the Python-level SIGCHLD handler; when
the signal is delivered after the interpreter's last check for pending signals and before wait() blocks, a blocking read
is never interrupted, the handler never runs, and `cond run` hangs with the finished task left as a zombie.

The race window is made deterministic exactly as in runtime/rt_wakeup.py (SIGCHLD held back with the signal mask while
one child exits; it is unblocked in the same C-level call that enters wait()'s first blocking primitive)."""
import os
import sys

sys.dont_write_bytecode = True
HERE = os.path.dirname(os.path.abspath(__file__))
sys.path.insert(0, HERE)
sys.path.insert(0, os.path.dirname(HERE))
from _common import emit, run_replay, require  # noqa: E402


def main():
    from runtime import rt_wakeup
    case, lines, hung, status, hang = rt_wakeup._job({"n": 1, "codes": [0]})
    info = {}
    for ln in lines:
        if isinstance(ln, dict):
            info.update(ln)
    require("harness_error" not in info, "fixture: " + str(info.get("harness_error"))[-300:])
    require(info.get("all_zombies", False), "fixture: the child did not exit")
    emit("F11", ["C09"], bool(hung),
         "one task process has exited (zombie), its SIGCHLD is delivered in the same C-level call in which SigchldHelper.wait() enters its first blocking primitive",
         "wait() returns (pid, 0)",
         ("wait() still blocked after %.0f s; below it: %r" % (rt_wakeup.CASE_TIMEOUT, hang.get("descendants"))) if hung else "wait() returned %r" % (info.get("got"),))


if __name__ == "__main__":
    run_replay(main)
