"""K4 (C16): an abort (SIGINT) arriving while an included .cond file executes
is reported as a task parse error instead of as an abort."""
import os
import sys

sys.dont_write_bytecode = True
sys.path.insert(0, os.path.dirname(os.path.abspath(__file__)))
from _common import scratch_project, require, emit, run_replay, tail  # noqa: E402

# The interrupt arrives while this code runs (the process signals itself, the
# handler installed by the CLI runs at the next bytecode boundary).
INTERRUPTED = """
import os, signal
os.kill(os.getpid(), signal.SIGINT)
for _ in range(100000):
    pass
VALUE = 1
"""

COND_INCLUDE = """
include("inc.cond")
run_command(name="t", run="echo ran > ran.txt")
"""

COND_TOP = INTERRUPTED + """
run_command(name="t", run="echo ran > ran.txt")
"""


def main():
    from conductor.errors import ConductorAbort
    abort_msg = ConductorAbort().printable_message()

    # control: the same interrupt while the COND file itself executes
    with scratch_project({"COND": COND_TOP}) as p:
        r = p.cond("run", "//:t")
        require(r.returncode != 0 and abort_msg in r.stderr and not (p.root / "ran.txt").exists(),
                "fixture: interrupt during the COND file is not reported as abort: rc={} {}".format(
                    r.returncode, tail(r.stderr)))
    with scratch_project({"COND": COND_INCLUDE, "inc.cond": INTERRUPTED}) as p:
        r = p.cond("run", "//:t")
        ran = (p.root / "ran.txt").exists()
    require(not ran, "fixture: the task ran although the interrupt arrived during parsing")
    require(r.returncode != 0, "fixture: cond exited 0 after an interrupt: " + tail(r.stdout))
    reported_abort = abort_msg in r.stderr
    emit(
        "K4", ["C16"], not reported_abort,
        "`cond run //:t` where the COND file include()s inc.cond and SIGINT arrives while inc.cond "
        "executes (control: SIGINT while the COND file itself executes is reported as abort)",
        "Conductor exits non-zero reporting that it was aborted ({!r})".format(abort_msg),
        "exit status {}; stderr: {!r}".format(r.returncode, tail(r.stderr, 4, 300)),
    )


run_replay(main)
