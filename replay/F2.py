"""F2 (C11): TaskType.traverse visits a task reached by two paths twice, so
`cond archive //:a2` tries to copy the same index rows twice."""
import os
import sys
import tarfile

sys.dont_write_bytecode = True
sys.path.insert(0, os.path.dirname(os.path.abspath(__file__)))
from _common import scratch_project, require, emit, run_replay, tail  # noqa: E402

COND = """
run_experiment(name="d", run="echo d > $COND_OUT/data")
run_experiment(name="b", run="echo b > $COND_OUT/data", deps=[":d"])
run_experiment(name="a2", run="echo a2 > $COND_OUT/data", deps=[":d", ":b"])
"""


def main():
    with scratch_project({"COND": COND}) as p:
        r = p.cond("run", "//:a2")
        require(r.returncode == 0, "cond run //:a2 failed: " + tail(r.stderr))
        versions = p.versions()
        require(sorted(t for t, _ in versions) == ["//:a2", "//:b", "//:d"],
                "fixture: expected exactly one version of each of a2, b, d: {}".format(versions))
        archive = p.root / "out.tar.gz"
        r = p.cond("archive", "//:a2", "-o", str(archive))
        members = []
        if archive.is_file():
            with tarfile.open(archive) as tf:
                members = tf.getnames()
        want = ["{}.task.{}".format(t[3:], ts) for t, ts in versions]
        have_all = all(any(m.split("/")[0] == w for m in members) for w in want)
        clean_error = r.returncode != 0 and "Traceback" not in r.stderr and "ERROR:" in r.stderr
        versions_after = p.versions()
    ok = r.returncode == 0 and have_all
    emit(
        "F2", ["C11"], not ok,
        "ran a2 deps [:d, :b], b deps [:d] (all run_experiment), then `cond archive //:a2 -o out.tar.gz`",
        "the archive command exits 0 and the archive holds the one version of each of a2, b and d; "
        "the source project's index is unchanged",
        "exit status {}; archive exists: {}; all three version dirs in archive: {}; clean ERROR "
        "diagnostic: {}; index unchanged: {}; stderr tail: {}".format(
            r.returncode, bool(members), have_all, clean_error, versions_after == versions,
            tail(r.stderr, 1, 200)),
    )


run_replay(main)
