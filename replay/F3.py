"""F3 (C07): conductor.lib.get_deps_paths() for a task without dependencies."""
import json
import os
import sys

sys.dont_write_bytecode = True
sys.path.insert(0, os.path.dirname(os.path.abspath(__file__)))
from _common import scratch_project, require, emit, run_replay, tail, PY  # noqa: E402

SHOW = """
import json, os
import conductor.lib as cl
res = {"COND_DEPS": os.environ.get("COND_DEPS"),
       "deps": [str(p) for p in cl.get_deps_paths()],
       "out_ok": str(cl.get_output_path()) == os.environ["COND_OUT"]}
with open("result.json", "w") as f:
    json.dump(res, f)
"""

COND = """
run_command(name="nodeps", run="{py} show.py")
run_command(name="dep", run="true")
run_command(name="withdep", run="{py} show.py", deps=[":dep"])
""".format(py=PY)


def main():
    with scratch_project({"COND": COND, "show.py": SHOW}) as p:
        # control: a task with one dependency gets exactly that directory
        r = p.cond("run", "//:withdep")
        require(r.returncode == 0, "cond run //:withdep failed: " + tail(r.stderr))
        ctl = json.loads((p.root / "result.json").read_text())
        require(ctl["deps"] == [str(p.out / "dep.task")] and ctl["out_ok"],
                "fixture: control task did not see its dependency: {}".format(ctl))
        (p.root / "result.json").unlink()
        r = p.cond("run", "//:nodeps")
        require(r.returncode == 0, "cond run //:nodeps failed: " + tail(r.stderr))
        res = json.loads((p.root / "result.json").read_text())
    require(res["COND_DEPS"] is not None, "fixture: COND_DEPS not set at all")
    emit(
        "F3", ["C07"], res["deps"] != [],
        "cond run of a run_command task without deps whose command calls "
        "conductor.lib.get_deps_paths() (control: a task with one dep sees exactly that dir)",
        "COND_DEPS is the empty string and get_deps_paths() returns the empty list",
        "COND_DEPS={!r}; get_deps_paths() returned {!r}".format(res["COND_DEPS"], res["deps"]),
    )


run_replay(main)
