"""F7 (C09): the Popen object is dropped at the end of start_execution. If
SIGCHLD delivery is delayed (a legal schedule) until the child has exited and
the Popen object has been finalised, Popen.__del__ reaps the child, the SIGCHLD
handler finds nothing, and run_plan blocks forever with no children.

The scenario runs in a CHILD process (`F7.py --child <root>`) supervised from
outside with a timeout (a watchdog thread would receive SIGCHLD itself)."""
import gc
import json
import os
import signal
import subprocess
import sys
import time

sys.dont_write_bytecode = True
sys.path.insert(0, os.path.dirname(os.path.abspath(__file__)))
from _common import (scratch_project, require, emit, run_replay, load_plan, PY,  # noqa: E402
                     clean_env, children_of, pid_state, wait_until, HarnessError)

COND = """
run_command(name="t", run="exit 0")
"""
TIMEOUT = 8.0


def say(**kw):
    sys.__stdout__.write(json.dumps(kw) + "\n")
    sys.__stdout__.flush()


def child(root, delayed):
    """delayed=True: the F7 schedule. delayed=False: control (SIGCHLD delivered
    normally), must terminate on any tree."""
    from conductor.execution.executor import Executor
    from conductor.execution.ops.run_task_executable import RunTaskExecutable
    import conductor.execution.ops.run_task_executable as rte

    ctx, plan = load_plan(root, "//:t")
    real_popen = subprocess.Popen
    seen = {}

    class SlowPopen(real_popen):
        # The child exits before the parent gets to run again: a legal schedule.
        def __init__(self, *a, **kw):
            super().__init__(*a, **kw)
            ok = wait_until(lambda: pid_state(self.pid) in ("Z", None), 5.0, 0.002)
            seen["pid"] = self.pid
            seen["exited_before_popen_returned"] = ok

    orig_start = RunTaskExecutable.start_execution

    def start_execution(self, c, slot):
        if delayed:
            signal.pthread_sigmask(signal.SIG_BLOCK, {signal.SIGCHLD})
        try:
            handle = orig_start(self, c, slot)
            gc.collect()
            return handle
        finally:
            if delayed:
                say(event="schedule-applied", pid=seen.get("pid"),
                    exited_before_popen_returned=seen.get("exited_before_popen_returned"),
                    state_after_start_execution=pid_state(seen.get("pid", 0)))
                # SIGCHLD (if still pending) is delivered here.
                signal.pthread_sigmask(signal.SIG_UNBLOCK, {signal.SIGCHLD})

    RunTaskExecutable.start_execution = start_execution
    if delayed:
        rte.subprocess.Popen = SlowPopen
    try:
        real_stdout = sys.stdout
        sys.stdout = open(os.devnull, "w")
        try:
            Executor(execution_slots=1).run_plan(plan, ctx)
        finally:
            sys.stdout = real_stdout
    finally:
        rte.subprocess.Popen = real_popen
        RunTaskExecutable.start_execution = orig_start
    say(event="run-plan-returned")


def supervise(root, mode):
    proc = subprocess.Popen([PY, os.path.abspath(__file__), "--child", str(root), mode],
                            stdout=subprocess.PIPE, stderr=subprocess.PIPE, text=True,
                            env=clean_env(), cwd=str(root))
    hung = False
    live = []
    try:
        try:
            out, err = proc.communicate(timeout=TIMEOUT)
        except subprocess.TimeoutExpired:
            hung = True
            live = [c for c in children_of(proc.pid) if pid_state(c) not in (None,)]
            proc.kill()
            out, err = proc.communicate()
    finally:
        if proc.poll() is None:
            proc.kill()
            proc.wait()
    events = []
    for line in out.splitlines():
        try:
            events.append(json.loads(line))
        except ValueError:
            pass
    return {"hung": hung, "live_children_at_timeout": live, "rc": proc.returncode,
            "events": events, "stderr": err[-400:]}


def main():
    with scratch_project({"COND": COND}) as p:
        ctl = supervise(p.root, "control")
        require(not ctl["hung"] and ctl["rc"] == 0
                and any(e.get("event") == "run-plan-returned" for e in ctl["events"]),
                "fixture: the control run (SIGCHLD not delayed) did not terminate: {}".format(ctl))
        res = supervise(p.root, "delayed")
    applied = [e for e in res["events"] if e.get("event") == "schedule-applied"]
    require(len(applied) == 1 and applied[0]["exited_before_popen_returned"],
            "fixture: the delayed schedule was not applied: {}".format(res))
    returned = any(e.get("event") == "run-plan-returned" for e in res["events"])
    if res["hung"]:
        require(not res["live_children_at_timeout"],
                "time-out but the supervised process still had children {}: not the F7 hang".format(
                    res["live_children_at_timeout"]))
    else:
        require(res["rc"] == 0 and returned,
                "fixture: supervised process died: rc={} {}".format(res["rc"], res["stderr"]))
    emit(
        "F7", ["C09"], res["hung"],
        "real planner + Executor.run_plan for a task `exit 0` in a supervised child process, SIGCHLD "
        "blocked (pthread_sigmask) from before start_execution until it has returned and gc.collect() "
        "ran; the task process had exited before Popen() returned",
        "run_plan returns once the only task has exited (control run without the delay returns)",
        ("run_plan still blocked after {} s with no live children (task pid state after "
         "start_execution: {!r} = already reaped by someone other than the SIGCHLD handler)".format(
             TIMEOUT, applied[0]["state_after_start_execution"]))
        if res["hung"] else
        "run_plan returned (task pid state after start_execution: {!r})".format(
            applied[0]["state_after_start_execution"]),
    )


if __name__ == "__main__":
    if len(sys.argv) >= 4 and sys.argv[1] == "--child":
        child(sys.argv[2], sys.argv[3] == "delayed")
        sys.exit(0)
    run_replay(main)
