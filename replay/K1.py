"""K1 (C01): a dependency reached only through a cached intermediate runs
concurrently with its (transitive) dependent."""
import os
import sys

sys.dont_write_bytecode = True
sys.path.insert(0, os.path.dirname(os.path.abspath(__file__)))
from _common import scratch_project, require, emit, run_replay, tail  # noqa: E402

STAMP = 'date +%s.%N > ts/{n}.start; {body}; date +%s.%N > ts/{n}.end'

COND = """
run_command(name="x", parallelizable=True, run="{x}")
run_experiment(name="b", parallelizable=True, deps=[":x"], run="{b}")
run_command(name="a", parallelizable=True, deps=[":b"], run="{a}")
run_command(name="y", parallelizable=True, deps=[":x"], run="{y}")
run_command(name="r", parallelizable=True, deps=[":a", ":y"], run="{r}")
""".format(
    x=STAMP.format(n="x", body="sleep 1.2"),
    b=STAMP.format(n="b", body="true"),
    a=STAMP.format(n="a", body="sleep 0.3"),
    y=STAMP.format(n="y", body="true"),
    r=STAMP.format(n="r", body="true"),
)


def stamps(p):
    res = {}
    for f in (p.root / "ts").iterdir():
        res[f.name] = float(f.read_text().strip())
    return res


def main():
    with scratch_project({"COND": COND, "ts/.keep": ""}) as p:
        r = p.cond("run", "//:b", "-j", "2")
        require(r.returncode == 0, "cond run //:b failed: " + tail(r.stderr))
        require(len(p.versions()) == 1, "fixture: b has no recorded version")
        for f in (p.root / "ts").iterdir():
            f.unlink()
        r = p.cond("run", "//:r", "-j", "2")
        require(r.returncode == 0, "cond run //:r failed: " + tail(r.stderr))
        require("Using cached results for //:b" in r.stdout, "fixture: b was not cached in the second run")
        t = stamps(p)
        require(all(k in t for k in ("x.start", "x.end", "a.start", "a.end", "y.start", "r.start")),
                "fixture: missing time stamps {}".format(sorted(t)))
        require("b.start" not in t, "fixture: b was executed again")
        # control inside the same run: the direct dependency y -> x is respected
        require(t["y.start"] >= t["x.end"], "fixture: even the direct dependency y->x is violated")
    overlap = t["a.start"] < t["x.end"]
    emit(
        "K1", ["C01"], overlap,
        "r deps [:a, :y]; a deps [:b]; b (run_experiment, cached by an earlier `cond run //:b`) deps [:x]; "
        "y deps [:x]; all parallelizable; `cond run //:r -j 2`; tasks write start/end time stamps",
        "a (which transitively depends on x through b) does not start before x, which is executed in this "
        "invocation, has exited",
        "x ran [{:.3f}, {:.3f}], a started at {:.3f} ({:+.3f} s relative to the end of x), y started {:+.3f} s "
        "after the end of x".format(t["x.start"] - t["x.start"], t["x.end"] - t["x.start"],
                                    t["a.start"] - t["x.start"], t["a.start"] - t["x.end"],
                                    t["y.start"] - t["x.end"]),
    )


run_replay(main)
