"""F6 (C16): ConductorAbort raised before `process` (start_execution) or
`start` (run_plan) is bound leaves run_plan as UnboundLocalError."""
import os
import sys

sys.dont_write_bytecode = True
sys.path.insert(0, os.path.dirname(os.path.abspath(__file__)))
from _common import (scratch_project, require, emit, run_replay, load_plan,  # noqa: E402
                     quiet_stdout, children_of, kill_group_and_reap)

COND = """
run_command(name="t", run="exit 0")
"""


def inject(root, code_of, k):
    """Runs the real planner + Executor.run_plan for //:t with a trace hook that
    raises ConductorAbort at the k-th 'line' event executed in the frame of
    function `code_of` (a function object). Returns (reached, exception)."""
    from conductor.errors import ConductorAbort
    from conductor.execution.executor import Executor

    ctx, plan = load_plan(root, "//:t")
    target = code_of.__code__
    state = {"n": 0, "fired": False}

    def local(frame, event, arg):
        if event == "line" and not state["fired"]:
            state["n"] += 1
            if state["n"] == k:
                state["fired"] = True
                raise ConductorAbort()
        return local

    def tracer(frame, event, arg):
        if event == "call" and frame.f_code is target and not state["fired"]:
            return local
        return None

    exc = None
    with quiet_stdout():
        sys.settrace(tracer)
        try:
            Executor(execution_slots=1).run_plan(plan, ctx)
        except BaseException as ex:  # pylint: disable=broad-except
            exc = ex
        finally:
            sys.settrace(None)
    return state["fired"], exc


def main():
    from conductor.errors import ConductorAbort
    from conductor.execution.executor import Executor
    from conductor.execution.ops.run_task_executable import RunTaskExecutable

    observed = {}
    bad = False
    with scratch_project({"COND": COND}) as p:
        try:
            # control: without injection the plan runs to completion
            fired, exc = inject(p.root, Executor.run_plan, 10 ** 9)
            require(not fired and exc is None, "fixture: clean run failed: {!r}".format(exc))
            for label, fn in (("start_execution", RunTaskExecutable.start_execution),
                              ("run_plan", Executor.run_plan)):
                # the first statements of the function: nothing has been spawned yet
                for k in (1, 2):
                    fired, exc = inject(p.root, fn, k)
                    require(fired, "fixture: {} line event {} never reached".format(label, k))
                    name = type(exc).__name__ + (": " + str(exc) if not isinstance(exc, ConductorAbort) else "")
                    observed["{}@line-event-{}".format(label, k)] = name
                    if not isinstance(exc, ConductorAbort):
                        bad = True
        finally:
            for c in children_of(os.getpid()):
                kill_group_and_reap(c)
    emit(
        "F6", ["C16"], bad,
        "raised ConductorAbort from a sys.settrace line hook at the 1st and 2nd statement executed in "
        "RunTaskExecutable.start_execution and in Executor.run_plan (real planner, real executor, task `exit 0`)",
        "the exception leaving Executor.run_plan is ConductorAbort",
        "exception leaving run_plan per injection point: {}".format(observed),
    )


run_replay(main)
