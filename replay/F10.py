"""F10 (C11): stale content of cond-out/archive-tmp ends up in a restored version."""
import filecmp
import os
import sys

sys.dont_write_bytecode = True
sys.path.insert(0, os.path.dirname(os.path.abspath(__file__)))
from _common import scratch_project, require, emit, run_replay, tail  # noqa: E402

COND = """
run_experiment(name="e", run="echo payload > $COND_OUT/data.txt")
"""


def main():
    with scratch_project({"COND": COND}) as src, scratch_project({"COND": COND}) as dst:
        r = src.cond("run", "//:e")
        require(r.returncode == 0, "cond run //:e failed: " + tail(r.stderr))
        versions = src.versions()
        require(len(versions) == 1, "fixture: expected one version: {}".format(versions))
        exp_dir = "e.task.{}".format(versions[0][1])
        archive = src.root / "a.tar.gz"
        r = src.cond("archive", "-o", str(archive))
        require(r.returncode == 0 and archive.is_file(), "cond archive failed: " + tail(r.stderr))

        # what a restore killed after extraction leaves behind
        stale = dst.out / "archive-tmp" / exp_dir
        stale.mkdir(parents=True)
        (stale / "STALE").write_text("from an earlier, killed restore\n")
        r = dst.cond("restore", str(archive))
        restored = dst.out / exp_dir
        recorded = dst.versions()
        if r.returncode == 0:
            require(recorded == versions and (restored / "data.txt").is_file(),
                    "fixture: restore reported success without restoring: {}".format(recorded))
        stale_in_version = (restored / "STALE").exists()
        names_src = sorted(x.name for x in (src.out / exp_dir).iterdir())
        names_dst = sorted(x.name for x in restored.iterdir()) if restored.is_dir() else None
        identical = (names_src == names_dst and
                     all(filecmp.cmp(src.out / exp_dir / n, restored / n, shallow=False)
                         for n in names_src)) if names_dst is not None else None
    # violation: a version is recorded in the destination whose tree differs from the source's
    emit(
        "F10", ["C11"], bool(recorded) and (stale_in_version or identical is False),
        "archived one version of e, then `cond restore` into a fresh project whose "
        "cond-out/archive-tmp/{}/STALE was left by an earlier killed restore".format("e.task.<ts>"),
        "the restored version's directory tree is byte-identical to the archived one",
        "restore exit {}; recorded in destination: {}; source tree {}; restored tree {}; STALE inside the "
        "restored version: {}".format(r.returncode, recorded, names_src, names_dst, stale_in_version),
    )


run_replay(main)
