"""F4 (C20, C15, C13): `$` in the identifier patterns accepts a trailing
newline; `cond gc` deletes a directory whose name ends in a newline."""
import os
import pathlib
import sys

sys.dont_write_bytecode = True
sys.path.insert(0, os.path.dirname(os.path.abspath(__file__)))
from _common import scratch_project, require, emit, run_replay, tail  # noqa: E402

COND = """
run_experiment(name="x", run="echo x > $COND_OUT/data")
"""


def accepts(fn, *args):
    from conductor.errors import InvalidTaskIdentifier
    try:
        res = fn(*args)
    except InvalidTaskIdentifier:
        return False
    return res is not False


def main():
    from conductor.task_identifier import TaskIdentifier as T

    # controls: the same strings without the newline are accepted, junk is rejected
    require(T.is_name_valid("abc") and accepts(T.from_str, "//a:b")
            and accepts(T.from_relative_str, ":x", pathlib.Path("a")),
            "fixture: well-formed identifiers rejected")
    require(not T.is_name_valid("ab c") and not accepts(T.from_str, "//a:b c"),
            "fixture: malformed identifiers accepted")
    acc = {
        'is_name_valid("abc\\n")': bool(T.is_name_valid("abc\n")),
        'from_str("//a:b\\n")': accepts(T.from_str, "//a:b\n"),
        'from_relative_str(":x\\n")': accepts(T.from_relative_str, ":x\n", pathlib.Path("a")),
    }

    with scratch_project({"COND": COND}) as p:
        r = p.cond("run", "//:x")
        require(r.returncode == 0, "cond run //:x failed: " + tail(r.stderr))
        recorded = [x for x in p.out.iterdir() if x.name.startswith("x.task.")]
        require(len(recorded) == 1, "fixture: expected one recorded version dir")
        odd = p.out / "x.task.5\n"
        odd.mkdir()
        (odd / "keep").write_text("user data\n")
        plain = p.out / "x.task.5"      # control: a genuine unrecorded experiment dir
        plain.mkdir()
        r = p.cond("gc")
        require(r.returncode == 0, "cond gc failed: " + tail(r.stderr))
        require(not plain.exists(), "fixture: gc did not delete the unrecorded dir x.task.5")
        require(recorded[0].is_dir(), "fixture: gc deleted a recorded version")
        odd_deleted = not odd.exists()

    emit(
        "F4", ["C20", "C15", "C13"], any(acc.values()) or odd_deleted,
        "called is_name_valid / from_str / from_relative_str with a trailing newline; ran `cond gc` "
        "with a directory named 'x.task.5\\n' (not an experiment output name) next to an unrecorded x.task.5",
        "names / identifiers with a trailing newline are rejected; gc deletes x.task.5 and leaves "
        "'x.task.5\\n' alone",
        "accepted: {}; gc deleted 'x.task.5\\n': {}".format(acc, odd_deleted),
    )


run_replay(main)
