"""Shared helpers for the replay scripts /verif/replay/{F1..F10,K1..K4}.py.

Every replay
  * builds a scratch project under tempfile.mkdtemp(prefix="verif-") (never
    under /repo or /verif) and removes it in `finally`,
  * drives the REAL code: the `cond` CLI where possible, the real classes from
    the script where a schedule / clock / signal has to be controlled,
  * verifies its fixture (a task meant to fail really failed, ...) and raises
    HarnessError otherwise (exit status 2: the harness is broken, this is not
    a verdict),
  * prints exactly one JSON object on the last stdout line and exits 0.

`reproduced: true` means: the violation of the property WAS observed on the
tree as it is now.  Violations are detected by their observable effect only.
"""
import sys
sys.dont_write_bytecode = True      # nothing may be written under /verif
import contextlib
import json
import os
import pathlib
import shutil
import signal
import sqlite3
import subprocess
import tempfile
import time
import traceback

PY = "/venv/bin/python"
COND = "/venv/bin/cond"

# `disable_git = true`: the scratch projects live under /tmp, no repository.
DEFAULT_CONFIG = "disable_git = true\n"


class HarnessError(Exception):
    """The fixture did not behave as intended; nothing can be concluded."""


def require(condition, message):
    if not condition:
        raise HarnessError(message)


def clean_env(extra=None):
    """os.environ without any COND_* variable (so that nothing leaks from the
    invoking shell), plus `extra`."""
    env = {k: v for k, v in os.environ.items() if not k.startswith("COND_")}
    env["PYTHONDONTWRITEBYTECODE"] = "1"
    if extra:
        env.update(extra)
    return env


class Project:
    def __init__(self, files, config=DEFAULT_CONFIG):
        self.root = pathlib.Path(tempfile.mkdtemp(prefix="verif-")).resolve()
        assert not str(self.root).startswith(("/repo", "/verif"))
        (self.root / "cond_config.toml").write_text(config, encoding="utf-8")
        self.write(files)

    def write(self, files):
        for rel, text in files.items():
            p = self.root / rel
            p.parent.mkdir(parents=True, exist_ok=True)
            p.write_text(text, encoding="utf-8")

    @property
    def out(self):
        return self.root / "cond-out"

    def cond(self, *args, cwd=None, env=None, timeout=120):
        """Runs the real CLI. Returns CompletedProcess (text mode)."""
        return subprocess.run(
            [COND, *args],
            cwd=str(cwd if cwd is not None else self.root),
            env=clean_env(env),
            stdout=subprocess.PIPE,
            stderr=subprocess.PIPE,
            text=True,
            timeout=timeout,
        )

    def python(self, code, *argv, cwd=None, env=None, timeout=120):
        """Runs `code` under /venv/bin/python with cwd inside the project."""
        return subprocess.run(
            [PY, "-c", code, *argv],
            cwd=str(cwd if cwd is not None else self.root),
            env=clean_env(env),
            stdout=subprocess.PIPE,
            stderr=subprocess.PIPE,
            text=True,
            timeout=timeout,
        )

    def versions(self):
        """Rows of the project's version index, read with a fresh connection:
        list of (task_identifier_str, timestamp)."""
        return read_index(self.out / "version_index.sqlite")

    def cleanup(self):
        shutil.rmtree(self.root, ignore_errors=True)


def read_index(path):
    path = pathlib.Path(path)
    if not path.exists():
        return []
    conn = sqlite3.connect(str(path))
    try:
        cur = conn.execute("SELECT * FROM version_index")
        cols = [c[0] for c in cur.description]
        rows = cur.fetchall()
    finally:
        conn.close()
    ti = cols.index("task_identifier")
    ts = cols.index("timestamp")
    return sorted((r[ti], r[ts]) for r in rows)


@contextlib.contextmanager
def scratch_project(files, config=DEFAULT_CONFIG):
    proj = Project(files, config)
    try:
        yield proj
    finally:
        proj.cleanup()


@contextlib.contextmanager
def chdir(path):
    old = os.getcwd()
    os.chdir(str(path))
    try:
        yield
    finally:
        os.chdir(old)


@contextlib.contextmanager
def quiet_stdout():
    """Discards what the conductor code prints through sys.stdout / sys.stderr while
    it is driven in-process (the last stdout line must be the JSON verdict)."""
    old_out, old_err = sys.stdout, sys.stderr
    with open(os.devnull, "w", encoding="utf-8") as devnull:
        sys.stdout = devnull
        sys.stderr = devnull
        try:
            yield
        finally:
            sys.stdout, sys.stderr = old_out, old_err


def tail(text, n=3, width=400):
    lines = [l for l in (text or "").strip().splitlines() if l.strip()]
    return " | ".join(lines[-n:])[-width:]


def pid_state(pid):
    """'R','S','Z',... from /proc/<pid>/stat, or None if the pid is gone."""
    try:
        with open("/proc/{}/stat".format(pid), "rb") as f:
            data = f.read().decode("ascii", "replace")
    except OSError:
        return None
    # pid (comm) state ...   -- comm may contain spaces / parentheses
    return data[data.rfind(")") + 2 :].split()[0]


def pid_alive(pid):
    st = pid_state(pid)
    return st is not None and st not in ("Z", "X")


def children_of(pid):
    """All pids listed in /proc/<pid>/task/*/children."""
    res = []
    try:
        for t in os.listdir("/proc/{}/task".format(pid)):
            try:
                with open("/proc/{}/task/{}/children".format(pid, t)) as f:
                    res.extend(int(x) for x in f.read().split())
            except OSError:
                pass
    except OSError:
        pass
    return res


def kill_group_and_reap(pid):
    """Best-effort cleanup of a process (group) we spawned through conductor."""
    for target in (pid,):
        try:
            os.killpg(target, signal.SIGKILL)
        except OSError:
            try:
                os.kill(target, signal.SIGKILL)
            except OSError:
                pass
    try:
        os.waitpid(pid, 0)
    except OSError:
        pass


def emit(fid, prop, reproduced, what, expected, observed):
    doc = {
        "id": fid,
        "property": list(prop),
        "reproduced": bool(reproduced),
        "what": what,
        "expected": expected,
        "observed": observed,
    }
    sys.stdout.flush()
    sys.stdout.write(json.dumps(doc) + "\n")
    sys.stdout.flush()


def run_replay(fn):
    """fn() does the replay and calls emit() exactly once as its last act."""
    try:
        fn()
    except HarnessError as ex:
        sys.stderr.write("HARNESS ERROR: {}\n".format(ex))
        sys.exit(2)
    except Exception:  # pylint: disable=broad-except
        traceback.print_exc()
        sys.exit(2)
    sys.exit(0)


def load_plan(root, task_str, again=False):
    """Real Context + real TaskIndex + real planner for `task_str` in `root`.
    Must be called with cwd irrelevant; returns (ctx, plan)."""
    from conductor.context import Context
    from conductor.task_identifier import TaskIdentifier
    from conductor.execution.planning.planner import ExecutionPlanner

    ctx = Context(pathlib.Path(root))
    tid = TaskIdentifier.from_str(task_str, require_prefix=False)
    ctx.task_index.load_transitive_closure(tid)
    plan = ExecutionPlanner(ctx).create_plan_for(tid, run_again=again)
    return ctx, plan


def wait_until(pred, timeout, step=0.01):
    end = time.time() + timeout
    while time.time() < end:
        if pred():
            return True
        time.sleep(step)
    return pred()
