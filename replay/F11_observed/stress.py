import os, sys, shutil, subprocess, tempfile, time, pathlib, signal, json
FIX = "/repo/tests/fixture-projects/partial-success"
def one(i, rounds, outdir, timeout=90):
    hangs = 0
    for r in range(rounds):
        d = tempfile.mkdtemp(prefix="hang%d_" % i, dir="/tmp/hang")
        proj = os.path.join(d, "p")
        shutil.copytree(FIX, proj)
        env = dict(os.environ); env["PYTHONFAULTHANDLER"] = "1"
        log = open(os.path.join(d, "out.txt"), "wb")
        p = subprocess.Popen(["/venv/bin/python", "-m", "conductor", "run", "//multiple:root"], cwd=proj, env=env, stdout=log, stderr=subprocess.STDOUT, stdin=subprocess.DEVNULL, start_new_session=True)
        try:
            p.wait(timeout=timeout)
            shutil.rmtree(d, ignore_errors=True)
        except subprocess.TimeoutExpired:
            hangs += 1
            info = {"pid": p.pid, "round": r, "tasks": {}}
            for t in os.listdir("/proc/%d/task" % p.pid):
                try:
                    st = open("/proc/%d/task/%s/status" % (p.pid, t)).read()
                    keep = [l for l in st.splitlines() if l.split(":")[0] in ("Name", "State", "SigPnd", "ShdPnd", "SigBlk", "SigCgt")]
                    wchan = open("/proc/%d/task/%s/wchan" % (p.pid, t)).read()
                    sysc = open("/proc/%d/task/%s/syscall" % (p.pid, t)).read()
                    info["tasks"][t] = {"status": keep, "wchan": wchan, "syscall": sysc.strip()}
                except Exception as ex:
                    info["tasks"][t] = {"err": str(ex)}
            try:
                info["children"] = subprocess.run(["ps", "--ppid", str(p.pid), "-o", "pid,stat,cmd"], capture_output=True, text=True).stdout
            except Exception:
                pass
            json.dump(info, open(os.path.join(outdir, "hang_%d_%d.json" % (i, r)), "w"), indent=1)
            os.kill(p.pid, signal.SIGABRT)     # faulthandler dumps all thread stacks into out.txt
            time.sleep(2)
            shutil.copy(os.path.join(d, "out.txt"), os.path.join(outdir, "hang_%d_%d.out.txt" % (i, r)))
            try: os.killpg(p.pid, signal.SIGKILL)
            except Exception: pass
            shutil.rmtree(d, ignore_errors=True)
    return hangs
if __name__ == "__main__":
    i = int(sys.argv[1]); rounds = int(sys.argv[2]); outdir = sys.argv[3]
    h = one(i, rounds, outdir)
    print("worker", i, "rounds", rounds, "hangs", h)
