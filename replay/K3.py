"""K3 (C16): abort at the very end of subprocess.Popen.__init__ (the child
exists, the Popen object has not been stored anywhere yet)."""
import os
import signal
import subprocess
import sys

sys.dont_write_bytecode = True
sys.path.insert(0, os.path.dirname(os.path.abspath(__file__)))
from _common import (scratch_project, require, emit, run_replay, load_plan,  # noqa: E402
                     quiet_stdout, pid_alive, kill_group_and_reap, children_of)

COND = """
run_command(name="t", run="sleep 30")
"""


def main():
    from conductor.errors import ConductorAbort
    from conductor.execution.executor import Executor
    import conductor.execution.ops.run_task_executable as rte

    spawned = []
    killed = []
    real_killpg = os.killpg
    real_popen = subprocess.Popen
    armed = {"on": True}

    def rec_killpg(pgid, sig):
        killed.append((pgid, int(sig)))
        return real_killpg(pgid, sig)

    class AbortingPopen(real_popen):
        def __init__(self, *a, **kw):
            super().__init__(*a, **kw)
            if armed["on"]:
                armed["on"] = False
                spawned.append(self.pid)
                # keep the pid out of Popen.__del__'s reach: we inspect it below
                self.returncode = -1
                raise ConductorAbort()

    with scratch_project({"COND": COND}) as p:
        ctx, plan = load_plan(p.root, "//:t")
        exc = None
        os.killpg = rec_killpg
        rte.subprocess.Popen = AbortingPopen
        try:
            with quiet_stdout():
                try:
                    Executor(execution_slots=1).run_plan(plan, ctx)
                except BaseException as ex:  # pylint: disable=broad-except
                    exc = ex
            require(len(spawned) == 1, "fixture: Popen was not reached")
            pid = spawned[0]
            alive = pid_alive(pid)
            pgid = os.getpgid(pid) if alive else pid
            got_sigterm = any(g == pgid and s == signal.SIGTERM for g, s in killed)
        finally:
            rte.subprocess.Popen = real_popen
            os.killpg = real_killpg
            for c in set(spawned) | set(children_of(os.getpid())):
                kill_group_and_reap(c)
    emit(
        "K3", ["C16"], (alive and not got_sigterm) or not isinstance(exc, ConductorAbort),
        "patched subprocess.Popen (as seen by run_task_executable) with a subclass that raises ConductorAbort "
        "after super().__init__() spawned `sleep 30`; ran the real planner + Executor.run_plan; recorded os.killpg",
        "run_plan raises ConductorAbort and the spawned, unreaped process group has been sent SIGTERM",
        "run_plan raised {}; os.killpg calls: {}; spawned pid alive after run_plan: {}; its group got "
        "SIGTERM: {}".format(type(exc).__name__, killed, alive, got_sigterm),
    )


run_replay(main)
