"""K5 (C16): the task exits (and is reaped by Conductor's SIGCHLD handler) while start_execution is still
running; an abort arriving then makes the abort handler call os.getpgid() on a pid that no longer exists:
ProcessLookupError replaces the ConductorAbort."""
import os
import sys
import time

sys.dont_write_bytecode = True
sys.path.insert(0, os.path.dirname(os.path.abspath(__file__)))
from _common import (scratch_project, require, emit, run_replay, load_plan,  # noqa: E402
                     quiet_stdout, kill_group_and_reap, children_of)

COND = """
run_command(name="t", run="true")
"""


def main():
    from conductor.errors import ConductorAbort
    from conductor.execution.executor import Executor
    from conductor.execution.ops.run_task_executable import RunTaskExecutable

    with scratch_project({"COND": COND}) as p:
        ctx, plan = load_plan(p.root, "//:t")
        start_code = RunTaskExecutable.start_execution.__code__
        state = {"fired": False, "stmt": None}
        import linecache

        def in_start(frame, event, arg):
            if event == "line" and not state["fired"]:
                text = linecache.getline(frame.f_code.co_filename, frame.f_lineno).strip()
                # first statement after the Popen call returned and was stored
                if text.startswith("stdout_output.maybe_tee("):
                    state["fired"] = True
                    state["stmt"] = text
                    time.sleep(0.5)      # the child `true` exits; the SIGCHLD handler reaps it meanwhile
                    raise ConductorAbort()
            return in_start

        def tracer(frame, event, arg):
            if event == "call" and frame.f_code is start_code:
                return in_start
            return None

        exc = None
        try:
            with quiet_stdout():
                sys.settrace(tracer)
                try:
                    Executor(execution_slots=1).run_plan(plan, ctx)
                except BaseException as ex:  # pylint: disable=broad-except
                    exc = ex
                finally:
                    sys.settrace(None)
            require(state["fired"], "fixture: the abort point was not reached")
        finally:
            for c in set(children_of(os.getpid())):
                kill_group_and_reap(c)
    emit(
        "K5", ["C16"], not isinstance(exc, ConductorAbort),
        "abort injected in RunTaskExecutable.start_execution right after Popen returned, 0.5 s after a task `true` was spawned (it has exited and been reaped by the SIGCHLD handler)",
        "the exception leaving run_plan is ConductorAbort",
        "exception leaving run_plan: {}: {}".format(type(exc).__name__, exc),
    )


if __name__ == "__main__":
    run_replay(main)
