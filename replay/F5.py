"""F5 (C17, C13): `cond gc -n` from a sub-directory of the project."""
import os
import sys

sys.dont_write_bytecode = True
sys.path.insert(0, os.path.dirname(os.path.abspath(__file__)))
from _common import scratch_project, require, emit, run_replay, tail  # noqa: E402

COND = """
run_experiment(name="e", run="echo e > $COND_OUT/data")
"""


def main():
    with scratch_project({"COND": COND, "sub/COND": ""}) as p:
        r = p.cond("run", "//:e")
        require(r.returncode == 0, "cond run //:e failed: " + tail(r.stderr))
        stale = p.out / "e.task.5"
        stale.mkdir()
        r_root = p.cond("gc", "-n")
        require(r_root.returncode == 0 and "e.task.5" in r_root.stdout,
                "fixture: gc -n from the root did not list e.task.5: {} {}".format(
                    r_root.stdout, tail(r_root.stderr)))
        r_sub = p.cond("gc", "-n", cwd=p.root / "sub")
        require(stale.is_dir(), "fixture: dry run deleted the directory")
        # and the verbose real gc from the sub-directory
        r_sub_v = p.cond("gc", "-v", cwd=p.root / "sub")
        deleted = not stale.exists()
    listed_sub = [l for l in r_sub.stdout.splitlines() if "e.task.5" in l]
    bad_dry = r_sub.returncode != 0 or len(listed_sub) != 1 or "Traceback" in r_sub.stderr
    bad_verbose = r_sub_v.returncode != 0 or not deleted or "Traceback" in r_sub_v.stderr
    emit(
        "F5", ["C17", "C13"], bad_dry or bad_verbose,
        "`cond gc -n` from the project root and from root/sub with one unrecorded e.task.5; then "
        "`cond gc -v` from root/sub",
        "same exit status (0) and the same directory listed from both places; gc -v from sub deletes it",
        "from root: exit {} listing {!r}; from sub: -n exit {} listing {!r} stderr tail {!r}; "
        "-v exit {} deleted {} stderr tail {!r}".format(
            r_root.returncode, r_root.stdout.strip(), r_sub.returncode, r_sub.stdout.strip(),
            tail(r_sub.stderr, 1, 160), r_sub_v.returncode, deleted, tail(r_sub_v.stderr, 1, 160)),
    )


run_replay(main)
