"""F8 (C04): an inherited COND_SLOT reaches a non-parallelizable task."""
import os
import sys

sys.dont_write_bytecode = True
sys.path.insert(0, os.path.dirname(os.path.abspath(__file__)))
from _common import scratch_project, require, emit, run_replay, tail  # noqa: E402

COND = """
run_command(name="seq", run="echo SLOT=[${COND_SLOT-unset}] > slot-seq.txt")
run_command(name="par", parallelizable=True, run="echo SLOT=[${COND_SLOT-unset}] > slot-par.txt")
"""


def main():
    with scratch_project({"COND": COND}) as p:
        # controls: without the inherited variable the task sees it unset; a
        # parallelizable task under -j2 gets a slot in [0, 2)
        r = p.cond("run", "//:seq")
        require(r.returncode == 0, "cond run //:seq failed: " + tail(r.stderr))
        require((p.root / "slot-seq.txt").read_text().strip() == "SLOT=[unset]",
                "fixture: COND_SLOT set without being inherited")
        r = p.cond("run", "//:par", "-j", "2", env={"COND_SLOT": "7"})
        require(r.returncode == 0, "cond run //:par failed: " + tail(r.stderr))
        require((p.root / "slot-par.txt").read_text().strip() in ("SLOT=[0]", "SLOT=[1]"),
                "fixture: parallel task did not get a slot")
        res = {}
        for label, extra in (("jobs=1", []), ("jobs=2", ["-j", "2"])):
            (p.root / "slot-seq.txt").unlink()
            r = p.cond("run", "//:seq", *extra, env={"COND_SLOT": "7"})
            require(r.returncode == 0, "COND_SLOT=7 cond run //:seq failed: " + tail(r.stderr))
            res[label] = (p.root / "slot-seq.txt").read_text().strip()
    emit(
        "F8", ["C04"], any(v != "SLOT=[unset]" for v in res.values()),
        "`COND_SLOT=7 cond run //:seq` (and with -j 2) where seq is a non-parallelizable task echoing "
        "${COND_SLOT-unset}",
        "COND_SLOT is unset for a task that is not parallelizable",
        "the task printed {}".format(res),
    )


run_replay(main)
