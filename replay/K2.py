"""K2 (C16): ConductorAbort right after start_execution returned, before the
handle is registered with add_op: the spawned process group is never SIGTERMed."""
import os
import signal
import sys

sys.dont_write_bytecode = True
sys.path.insert(0, os.path.dirname(os.path.abspath(__file__)))
from _common import (scratch_project, require, emit, run_replay, load_plan,  # noqa: E402
                     quiet_stdout, pid_alive, kill_group_and_reap, children_of)

COND = """
run_command(name="t", run="sleep 30")
"""


def main():
    from conductor.errors import ConductorAbort
    from conductor.execution.executor import Executor
    from conductor.execution.ops.run_task_executable import RunTaskExecutable

    spawned = []
    killed = []
    real_killpg = os.killpg

    def rec_killpg(pgid, sig):
        killed.append((pgid, int(sig)))
        return real_killpg(pgid, sig)

    with scratch_project({"COND": COND}) as p:
        ctx, plan = load_plan(p.root, "//:t")
        start_code = RunTaskExecutable.start_execution.__code__
        launch_code = Executor._launch_ops_if_able.__code__  # pylint: disable=protected-access
        state = {"returned": False, "fired": False, "where": None}

        def in_start(frame, event, arg):
            if event == "return" and arg is not None:
                state["returned"] = True
                spawned.append(arg.pid)
            return in_start

        def in_launch(frame, event, arg):
            # the first statement executed in _launch_ops_if_able after start_execution returned
            if event == "line" and state["returned"] and not state["fired"]:
                state["fired"] = True
                state["where"] = frame.f_lineno
                raise ConductorAbort()
            return in_launch

        def tracer(frame, event, arg):
            if event == "call":
                if frame.f_code is start_code:
                    return in_start
                if frame.f_code is launch_code:
                    return in_launch
            return None

        exc = None
        os.killpg = rec_killpg
        try:
            with quiet_stdout():
                sys.settrace(tracer)
                try:
                    Executor(execution_slots=1).run_plan(plan, ctx)
                except BaseException as ex:  # pylint: disable=broad-except
                    exc = ex
                finally:
                    sys.settrace(None)
            require(state["fired"] and len(spawned) == 1,
                    "fixture: the abort point was not reached: {} {}".format(state, spawned))
            pid = spawned[0]
            alive = pid_alive(pid)
            pgid = os.getpgid(pid) if alive else pid
            got_sigterm = any(g == pgid and s == signal.SIGTERM for g, s in killed)
        finally:
            os.killpg = real_killpg
            for c in set(spawned) | set(children_of(os.getpid())):
                kill_group_and_reap(c)
    emit(
        "K2", ["C16"], alive and not got_sigterm,
        "raised ConductorAbort (settrace) at the first statement executed in _launch_ops_if_able after "
        "RunTaskExecutable.start_execution returned the handle of a spawned `sleep 30`; recorded os.killpg",
        "run_plan raises ConductorAbort and the spawned, unreaped process group has been sent SIGTERM",
        "run_plan raised {}; os.killpg calls: {}; spawned pid alive after run_plan: {}; its group got "
        "SIGTERM: {}".format(type(exc).__name__, killed, alive, got_sigterm),
    )


run_replay(main)
