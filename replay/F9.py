"""F9 (C08): a second invocation in the same clock second after a failed one
reuses the failed execution's version directory."""
import os
import sys

sys.dont_write_bytecode = True
sys.path.insert(0, os.path.dirname(os.path.abspath(__file__)))
from _common import scratch_project, require, emit, run_replay, tail  # noqa: E402

PINNED = 1790000000

COND = """
run_experiment(name="e", run="bash e.sh")
"""

E_SH = """
if [ -f "$PWD/FAIL" ]; then
  echo leftover-of-failed-run > "$COND_OUT/leftover.txt"
  exit 1
fi
ls -A "$COND_OUT" > "$PWD/seen-at-start.txt"
echo ok > "$COND_OUT/result.txt"
"""

# The real CLI entry point with time.time pinned (what /venv/bin/cond does, plus the clock).
WRAPPER = """
import sys, time
time.time = lambda: {}.0
sys.argv = ["cond"] + sys.argv[1:]
from conductor.__main__ import main
sys.exit(main())
""".format(PINNED)


def main():
    with scratch_project({"COND": COND, "e.sh": E_SH, "FAIL": ""}) as p:
        r1 = p.python(WRAPPER, "run", "//:e")
        require(r1.returncode != 0 and "failed" in r1.stdout, "fixture: the first run did not fail: "
                + tail(r1.stdout) + tail(r1.stderr))
        dirs1 = sorted(x.name for x in p.out.iterdir() if x.name.startswith("e.task."))
        require(len(dirs1) == 1, "fixture: first run left {} dirs".format(dirs1))
        failed_dir = p.out / dirs1[0]
        require((failed_dir / "leftover.txt").is_file(), "fixture: no leftover in the failed run's dir")
        require(p.versions() == [], "fixture: the failed run was recorded")
        require(dirs1[0].endswith(str(PINNED)), "fixture: clock not pinned: {}".format(dirs1))

        (p.root / "FAIL").unlink()
        r2 = p.python(WRAPPER, "run", "//:e")
        require(r2.returncode == 0, "fixture: the second run did not succeed: " + tail(r2.stderr))
        versions = p.versions()
        require(len(versions) == 1, "fixture: expected one recorded version: {}".format(versions))
        rec_dir = p.out / "e.task.{}".format(versions[0][1])
        require((rec_dir / "result.txt").is_file(), "fixture: recorded dir lacks the result")
        seen_at_start = (p.root / "seen-at-start.txt").read_text().split()
        has_leftover = (rec_dir / "leftover.txt").exists()
        same_dir = rec_dir == failed_dir
    emit(
        # judged by the effect (a leak), not by the directory's name
        "F9", ["C08"], has_leftover or "leftover.txt" in seen_at_start,
        "two `cond run //:e` invocations through the real CLI entry point with time.time pinned to "
        "{}: the first fails after writing leftover.txt into its COND_OUT, the second succeeds".format(PINNED),
        "the second execution gets a directory that did not exist before and is empty (apart from "
        "Conductor's own logs) when the command starts",
        "failed run's dir {}; recorded version dir {} (same directory: {}); files present when the second "
        "command started: {}; recorded version contains leftover.txt: {}".format(
            failed_dir.name, rec_dir.name, same_dir, seen_at_start, has_leftover),
    )


run_replay(main)
