"""F1 (C02, C07, C08): a task reached by two paths is lowered / run twice when
the shared dependency is listed AFTER the sibling that also needs it."""
import os
import sys

sys.dont_write_bytecode = True
sys.path.insert(0, os.path.dirname(os.path.abspath(__file__)))
from _common import scratch_project, require, emit, run_replay, tail  # noqa: E402

COND_CMD = """
run_command(name="d", run="echo d >> log.txt")
run_command(name="b", run="echo b >> log.txt", deps=[":d"])
run_command(name="a", run="echo a >> log.txt", deps=[":b", ":d"])
"""

COND_EXP = """
run_experiment(name="d", run="echo \\"d|$COND_OUT|$COND_DEPS\\" >> log.txt; echo x > $COND_OUT/data")
run_experiment(name="b", run="echo \\"b|$COND_OUT|$COND_DEPS\\" >> log.txt", deps=[":d"])
run_experiment(name="a", run="echo \\"a|$COND_OUT|$COND_DEPS\\" >> log.txt", deps=[":b", ":d"])
"""


def main():
    # Variant 1: run_command tasks writing a marker line.
    with scratch_project({"COND": COND_CMD}) as p:
        r = p.cond("run", "//:a")
        require(r.returncode == 0, "cond run //:a failed: " + tail(r.stderr))
        lines = (p.root / "log.txt").read_text().split()
        require("a" in lines and "b" in lines and "d" in lines,
                "fixture: not every task ran: {}".format(lines))
        running = [l for l in r.stdout.splitlines() if "Running //:" in l]
    counts = {t: lines.count(t) for t in ("a", "b", "d")}
    v1 = any(c != 1 for c in counts.values())

    # Variant 2: experiments, plain run (d is reported cached AND executed) and
    # --again (two versions of d; b and a see different ones).
    exp = {}
    for mode, extra in (("plain", []), ("again", ["--again"])):
        with scratch_project({"COND": COND_EXP}) as p:
            r = p.cond("run", "//:a", *extra)
            require(r.returncode == 0,
                    "cond run //:a {} (experiments) failed: {}".format(extra, tail(r.stderr)))
            rec = [l.split("|") for l in (p.root / "log.txt").read_text().splitlines() if l]
            require(all(len(x) == 3 for x in rec), "fixture: malformed log {}".format(rec))
            d_runs = [x for x in rec if x[0] == "d"]
            b_runs = [x for x in rec if x[0] == "b"]
            a_runs = [x for x in rec if x[0] == "a"]
            require(d_runs and b_runs and a_runs, "fixture: not every experiment ran")
            d_dirs = sorted(x.name for x in p.out.iterdir() if x.name.startswith("d.task."))
            d_versions = [ts for (tid, ts) in p.versions() if tid == "//:d"]
            # the directory of d that b / a were handed in COND_DEPS
            d_seen_by_b = [os.path.basename(q) for q in b_runs[0][2].split(":") if "/d.task." in q]
            d_seen_by_a = [os.path.basename(q) for q in a_runs[0][2].split(":") if "/d.task." in q]
            require(len(d_seen_by_b) == 1 and len(d_seen_by_a) == 1,
                    "fixture: COND_DEPS of a/b does not list d exactly once: {} {}".format(
                        b_runs[0][2], a_runs[0][2]))
            cached_and_run = "Using cached results for //:d" in r.stdout
        exp[mode] = {
            "d_executions": len(d_runs), "b_executions": len(b_runs),
            "a_executions": len(a_runs), "d_versions_recorded": d_versions,
            "d_dirs": d_dirs, "d_seen_by_b": d_seen_by_b, "d_seen_by_a": d_seen_by_a,
            "d_reported_cached_and_executed": cached_and_run,
        }
    v2 = any(
        e["d_executions"] != 1 or e["b_executions"] != 1 or e["a_executions"] != 1
        or len(e["d_versions_recorded"]) != 1 or len(e["d_dirs"]) != 1
        or e["d_seen_by_b"] != e["d_seen_by_a"] or e["d_reported_cached_and_executed"]
        for e in exp.values())

    emit(
        "F1", ["C02", "C07", "C08"], v1 or v2,
        "cond run //:a on d; b deps [:d]; a deps [:b, :d] -- once with run_command tasks "
        "appending a marker line, then with run_experiment tasks logging COND_OUT/COND_DEPS "
        "(fresh project, plain and with --again)",
        "each of a, b, d executes exactly once; exactly one new version/directory of d; b and a "
        "receive the same directory of d in COND_DEPS; d is not reported cached when executed",
        "run_command variant: executions per task {} ({} 'Running' lines); experiment variants: "
        "{}".format(counts, len(running), exp),
    )


run_replay(main)
