#!/usr/bin/env python3
"""Refresh seeded/RESULTS.md and the table of DESIGN.md section 11.9 from seeded/*/detection.json."""
import glob, json, os, subprocess
subprocess.run(["python3", "tools_seeded_table.py"], stdout=subprocess.DEVNULL, check=True)
rows = ["| change | property | what it does | obligation (deductive) | bounded check (real failing input) |", "|---|---|---|---|---|"]
for d in sorted(glob.glob("seeded/C??_m?")):
    name = os.path.basename(d)
    meta = json.load(open(os.path.join(d, "meta.json")))
    det = json.load(open(os.path.join(d, "detection.json")))
    pid = name.split("_")[0]
    r = det.get(pid, {})
    ded = "; ".join(sorted({x.split("::", 1)[1].split(" #")[0][:80] for x in r.get("failed_obligations", [])})[:2]) or ("-- (%s)" % {0: "held", 1: "no obligation failed", 2: "undecided", 3: "checker error"}.get(r.get("exit"), "?"))
    rt = "; ".join(sorted({x[:80] for x in r.get("failed_bounded_checks", [])})[:2]) or "--"
    extra = ""
    for other, r2 in det.items():
        if other != pid and r2.get("failed_obligations"):
            extra = " (also `./check %s`: %s)" % (other, r2["failed_obligations"][0].split("::", 1)[1][:60])
    verdict = "VIOLATION" if r.get("exit") == 1 else "exit %s" % r.get("exit")
    rows.append("| %s | %s: %s | %s | %s%s | %s |" % (name, pid, verdict, meta.get("title", "").replace("|", "/")[:110], ded, extra, rt))
s = open("DESIGN.md").read()
a = s.index("<!-- SEEDED-TABLE-BEGIN -->") + len("<!-- SEEDED-TABLE-BEGIN -->")
b = s.index("<!-- SEEDED-TABLE-END -->")
open("DESIGN.md", "w").write(s[:a] + "\n" + "\n".join(rows) + "\n" + s[b:])
print(len(rows) - 2, "rows")
