"""Per-property configuration of the driver: which concrete back-end modules serve the property, the level
claimed, and the assumptions listed in the evidence (DESIGN.md section 3)."""

A_PY = "A-PY: pyvc's encoding of the supported Python subset is faithful (ints are mathematical, as in Python)"
A_LIB = "A-LIB: models of re / pathlib / str / dict order / json / shutil in /verif/contracts (ext:: contracts)"
A_OS = "A-OS: waitpid reports each exit once; SIGCHLD delivered after an exit; pipes deliver written bytes in order; a pid is not reused before it is reaped"
A_SQL = "A-SQL: sqlite executes the SQL text of version_index_queries.py as written; commit is atomic"
A_GIT = "A-GIT: git merge-base --is-ancestor / rev-list --count / rev-parse mean what their documentation says"
A_SIG = "A-SIG: one abort signal per invocation, delivered at a statement boundary or right after a call returns"
A_PLAN = "A-PLAN: the executor contracts require a well-formed plan (symmetric duplicate-free edges, initial_ops = ops without dependencies): proved as postconditions of create_plan_for (contracts/planner.py); the hand-over in cli/run.py::main is a call-site view"

PROPS = {
    "C01": {"rt": ["rt_planner", "rt_executor", "rt_sigchld"], "level": "proof", "assumes": [A_PY, A_OS, A_PLAN]},
    "C02": {"rt": ["rt_planner", "rt_executor", "rt_deps", "rt_identifiers", "rt_versions"], "level": "proof", "assumes": [A_PY, A_PLAN]},
    "C03": {"rt": ["rt_executor", "rt_sigchld", "rt_env"], "level": "proof", "assumes": [A_PY, A_OS, A_PLAN]},
    "C04": {"rt": ["rt_executor", "rt_env", "rt_parsing"], "level": "proof", "assumes": [A_PY, A_OS, A_PLAN]},
    "C05": {"rt": ["rt_versions", "rt_sqlmodel"], "level": "proof", "assumes": [A_PY, A_GIT, A_SQL]},
    "C06": {"rt": ["rt_tee", "rt_crash", "rt_archive", "rt_sigchld", "rt_sqlmodel", "rt_fs", "rt_versions"], "level": "proof", "assumes": [A_PY, A_SQL, A_LIB]},
    "C07": {"rt": ["rt_env", "rt_planner", "rt_versions", "rt_parsing", "rt_deps"], "level": "proof", "assumes": [A_PY, A_LIB]},
    "C08": {"rt": ["rt_versions", "rt_sqlmodel", "rt_env", "rt_planner", "rt_fs"], "level": "proof", "assumes": [A_PY, A_SQL, A_LIB]},
    "C09": {"rt": ["rt_executor", "rt_sigchld", "rt_wakeup", "rt_planner", "rt_deps"], "level": "proof", "assumes": [A_PY, A_OS, A_SIG, A_PLAN]},
    "C10": {"rt": ["rt_tee", "rt_parsing", "rt_env"], "level": "proof", "assumes": [A_PY, A_OS, A_LIB]},
    "C11": {"rt": ["rt_traverse", "rt_archive", "rt_sqlmodel", "rt_identifiers"], "level": "proof", "assumes": [A_PY, A_SQL, A_LIB]},
    "C12": {"rt": ["rt_archive", "rt_sqlmodel"], "level": "proof", "assumes": [A_PY, A_SQL, A_LIB]},
    "C13": {"rt": ["rt_fs", "rt_identifiers", "rt_sqlmodel"], "level": "proof", "assumes": [A_PY, A_LIB]},
    "C14": {"rt": ["rt_taskindex", "rt_deps", "rt_identifiers"], "level": "proof", "assumes": [A_PY]},
    "C15": {"rt": ["rt_parsing", "rt_identifiers"], "level": "proof", "assumes": [A_PY, A_LIB]},
    "C16": {"rt": ["rt_abort", "rt_abort_cli", "rt_env"], "level": "proof", "assumes": [A_PY, A_OS, A_SIG]},
    "C17": {"rt": ["rt_fs", "rt_versions"], "level": "proof", "assumes": [A_PY, A_LIB]},
    "C18": {"rt": ["rt_fs", "rt_planner", "rt_parsing", "rt_deps"], "level": "proof", "assumes": [A_PY, A_LIB]},
    "C19": {"rt": ["rt_parsing"], "level": "proof", "assumes": [A_PY]},
    "C20": {"rt": ["rt_identifiers", "rt_deps", "rt_parsing", "rt_versions", "rt_sqlmodel"], "level": "proof", "assumes": [A_PY, A_LIB]},
}
