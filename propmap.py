"""Per-property configuration of the driver: which concrete back-end modules serve the property, the level
claimed, and the assumptions listed in the evidence (DESIGN.md section 3)."""

A_PY = "A-PY: pyvc's encoding of the supported Python subset is faithful (ints are mathematical, as in Python)"
A_LIB = "A-LIB: models of re / pathlib / str / dict order / json / shutil in /verif/contracts (ext:: contracts)"
A_OS = "A-OS: waitpid reports each exit once; SIGCHLD delivered after an exit; pipes deliver written bytes in order"
A_SQL = "A-SQL: sqlite executes the SQL text of version_index_queries.py as written; commit is atomic"
A_GIT = "A-GIT: git merge-base --is-ancestor / rev-list --count / rev-parse mean what their documentation says"
A_SIG = "A-SIG: one abort signal per invocation, delivered at a statement boundary or right after a call returns"

PROPS = {
    "C08": {"rt": ["rt_versions"], "level": "proof", "assumes": [A_PY, A_SQL, A_LIB],
            "ext_used": ["time.time"],
            "explanation": "generate_new_output_version proved strictly increasing for an arbitrary clock; seeding and freshness of the directory by contract + bounded runs"},
}
