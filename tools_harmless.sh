#!/bin/bash
# usage: tools_harmless.sh <name> <checks...>
#   /verif/harmless/<name>/{patch.diff,meta.json}: a BEHAVIOUR-PRESERVING change written by an independent agent.
#   Applies the patch to a scratch worktree (the checks are pointed at it through PYVC_REPO_SRC / PYTHONPATH; /repo is
#   not touched), runs the repository's tests and the given checks there, removes the worktree, writes
#   harmless/<name>/result.json.  Expected: no VIOLATION line; exit 0 (2 = a proof no longer goes through: undecided,
#   3 = the contract no longer matches the code shape -- both are recorded, neither is an alarm).
NAME=$1; shift
CHECKS="$@"
D=/verif/harmless/$NAME
[ -f $D/patch.diff ] || { echo "no $D/patch.diff"; exit 2; }
WT=/tmp/harmless_wt_$NAME
git -C /repo worktree add -q --detach $WT HEAD || exit 2
git -C $WT apply $D/patch.diff || { echo "patch does not apply"; git -C /repo worktree remove --force $WT; exit 2; }
export PYVC_REPO_SRC=$WT/src/conductor PYTHONPATH=$WT/src PATH=/venv/bin:$PATH VERIF_SCRATCH_OUT=/tmp/harmless_scratch_$NAME
mkdir -p $VERIF_SCRATCH_OUT
( cd $WT && /venv/bin/python -m pytest -q -p no:cacheprovider --timeout=900 tests > /tmp/harmless_tests_$NAME.log 2>&1 ); TRC=$?
RES=""
for C in $CHECKS; do
  L=/tmp/harmless_${NAME}_$C.log
  ( cd /verif && timeout 1800 ./check $C > $L 2>&1 ); RC=$?
  echo "$NAME check $C exit=$RC : $(grep -c '^VIOLATION' $L) violation line(s); $(grep -E 'failed:|undecided:|error' $L | head -3 | cut -c1-200 | tr '\n' '|')"
  RES="$RES $C:$RC:$L"
done
git -C /repo worktree remove --force $WT
rm -rf /tmp/harmless_scratch_$NAME
python3 - $D $TRC $RES <<'PY'
import json,sys,os
d=sys.argv[1]; trc=int(sys.argv[2]); out={}
p=os.path.join(d,'result.json')
if os.path.exists(p): out=json.load(open(p))
out['baseline_tests_exit']=trc
out.setdefault('checks',{})
for item in sys.argv[3:]:
    c,rc,log=item.split(':',2)
    txt=open(log).read()
    out['checks'][c]={'exit':int(rc),'violation_lines':[l for l in txt.splitlines() if l.startswith('VIOLATION')],
                      'failed':[l.strip() for l in txt.splitlines() if l.strip().startswith('failed:')][:6],
                      'undecided':[l.strip() for l in txt.splitlines() if l.strip().startswith('undecided')][:6],
                      'last_line':txt.strip().splitlines()[-1] if txt.strip() else ''}
json.dump(out,open(p,'w'),indent=1)
PY
