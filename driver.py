#!/usr/bin/env python3
"""./check <property id> [--tier quick|thorough]  --  decide one property of /verif/properties.jsonl.

 1. deductive part: every contract clause tagged with the property is checked against the REAL function
    bodies under /repo/src (re-read now) by pyvc; every obligation goes to z3 / cvc5.
 2. concrete part (/verif/runtime, real code under /venv/bin/python): bounded stand-ins, non-vacuity
    witnesses, and the source of failing real inputs for failed obligations (replay).
 3. known findings (/verif/known_findings.txt, never written here) are replayed and printed.

exit 0 held / 1 VIOLATION (line printed) / 2 undecided / 3 checker error.
"""
import argparse
import concurrent.futures as cf
import hashlib
import json
import os
import re
import subprocess
import sys
import time
import traceback

HERE = os.path.dirname(os.path.abspath(__file__))
sys.path.insert(0, HERE)

from pyvc.source import Repo, SourceError          # noqa: E402
from pyvc.contract import Registry                # noqa: E402
from pyvc.stmts import Exec                        # noqa: E402
from pyvc.engine import Unsupported                # noqa: E402
from pyvc import solve                             # noqa: E402
import propmap                                     # noqa: E402

VENV_PY = "/venv/bin/python"
# experiments on scratch copies of the repository (tools_harmless.sh) write their evidence / replay files elsewhere
OUT = os.environ.get("VERIF_SCRATCH_OUT", HERE)


def slug(s):
    return re.sub(r"[^A-Za-z0-9_.-]+", "_", s)[:90] + "_" + hashlib.sha1(s.encode()).hexdigest()[:6]


def load_known():
    out = []
    p = os.path.join(HERE, "known_findings.txt")
    if os.path.exists(p):
        for line in open(p, encoding="utf-8"):
            line = line.strip()
            if line and line.startswith("{"):   # "fixed: ..." text records and comments are for readers
                out.append(json.loads(line))
    return out


def run_rt(module, tier, seed, timeout):
    out = os.path.join(HERE, ".scratch", "rt_%s_%d.json" % (module, os.getpid()))
    os.makedirs(os.path.dirname(out), exist_ok=True)
    cmd = [VENV_PY, "-m", "runtime." + module, "--tier", tier, "--seed", str(seed), "--out", out]
    t0 = time.time()
    try:
        p = subprocess.run(cmd, cwd=HERE, capture_output=True, text=True, timeout=timeout)
    except subprocess.TimeoutExpired:
        return {"module": module, "error": "timeout after %ds" % timeout, "checks": [], "wall_s": time.time() - t0}
    if p.returncode != 0 or not os.path.exists(out):
        return {"module": module, "error": "exit %s: %s" % (p.returncode, (p.stderr or p.stdout)[-1500:]), "checks": [], "wall_s": time.time() - t0}
    try:
        doc = json.load(open(out, encoding="utf-8"))
    finally:
        try:
            os.remove(out)
        except OSError:
            pass
    doc["module"] = module
    return doc


def run_replay(script, timeout=180):
    cmd = [VENV_PY, os.path.join(HERE, script)]
    try:
        p = subprocess.run(cmd, cwd=HERE, capture_output=True, text=True, timeout=timeout)
    except subprocess.TimeoutExpired:
        return {"error": "timeout"}
    lines = [l for l in p.stdout.strip().splitlines() if l.strip().startswith("{")]
    if p.returncode != 0 or not lines:
        return {"error": "exit %s: %s" % (p.returncode, (p.stderr or p.stdout)[-800:])}
    try:
        return json.loads(lines[-1])
    except ValueError as ex:
        return {"error": "bad json: %s" % ex}


def props_of(x):
    p = x.get("property")
    return p if isinstance(p, list) else [p]


DESTRUCTIVE = {"rmtree", "unlink", "remove", "rename", "replace", "move", "copytree", "copy2", "copyfile", "copy", "rmdir", "removedirs", "truncate"}
# call sites that the properties allow as they are (not experiment outputs / explicitly excepted by the property text)
SCAN_ALLOW = {
    "cli/clean.py": "`cond clean` is the one command the property lets delete recorded versions",
    "execution/ops/transfer_repo.py": "remote-execution bundle file outside cond-out task outputs (feature not covered by the properties)",
    "execution/version_index.py::VersionIndex._run_v1_to_v2_migration": "copies the index file to a backup before the v1->v2 migration (never an output directory)",
    "explorer/": "the explorer only serves files",
}


SPAWNING = {"Popen", "fork", "forkpty", "spawnv", "spawnl", "posix_spawn", "system", "popen", "create_subprocess_exec", "create_subprocess_shell"}
SPAWN_ALLOW = {
    "cli/archive.py::create_archive": "tar, started and waited for synchronously by `cond archive` (no task processes exist in that command)",
    "explorer/": "the explorer runs no tasks",
    "envs/": "remote environments (feature not covered by the properties)",
}


def spawn_call_sites(reg):
    return destructive_call_sites(reg, names=SPAWNING, allow=SPAWN_ALLOW, props={"C04", "C09", "C16", "C12", "C07"}, any_base=True)


def destructive_call_sites(reg, names=None, allow=None, props=None, any_base=False):
    import ast as _ast
    names = names or DESTRUCTIVE
    allow = allow if allow is not None else SCAN_ALLOW
    src_root = os.environ.get("PYVC_REPO_SRC", "/repo/src/conductor")
    under, outside, allowed = [], [], []
    # under contract FOR a file-system safety property (the call-site preconditions of rmtree / copytree / move / unlink
    # are obligations of these properties only)
    FS_PROPS = props or {"C08", "C11", "C12", "C13", "C18"}
    contracted = {c.target for c in reg.contracts.values() if not c.extern and not c.target.startswith("ext::") and (FS_PROPS & set(c.all_props()))}
    for dirpath, _dirs, files in os.walk(src_root):
        for fn in files:
            if not fn.endswith(".py"):
                continue
            path = os.path.join(dirpath, fn)
            rel = os.path.relpath(path, src_root)
            try:
                tree = _ast.parse(open(path, encoding="utf-8").read())
            except SyntaxError:
                continue

            def walk(node, qual):
                for ch in _ast.iter_child_nodes(node):
                    q = qual
                    if isinstance(ch, (_ast.FunctionDef, _ast.AsyncFunctionDef, _ast.ClassDef)):
                        q = (qual + "." if qual else "") + ch.name
                    if isinstance(ch, _ast.Call) and isinstance(ch.func, _ast.Attribute) and ch.func.attr in names:
                        base = _ast.unparse(ch.func.value)
                        if any_base and ch.func.attr in ("system", "popen", "fork", "forkpty", "spawnv", "spawnl", "posix_spawn") and base != "os":
                            pass        # platform.system() ...
                        elif not any_base and ch.func.attr in ("replace", "copy", "remove", "move") and base not in ("shutil", "os"):
                            pass        # str.replace / dict.copy / list.remove ...
                        else:
                            site = {"function": "%s::%s" % (rel, qual or "<module>"), "call": "%s.%s" % (base, ch.func.attr), "line": ch.lineno}
                            why = next((w for k, w in allow.items() if site["function"].startswith(k) or rel.startswith(k)), None)
                            if site["function"] in contracted or any(site["function"].startswith(t + ".") for t in contracted):
                                under.append(site)
                            elif why:
                                allowed.append(dict(site, allowed_because=why))
                            else:
                                outside.append(site)
                    walk(ch, q)
            walk(tree, "")
    return {"under_contract": under, "allowed": allowed, "outside_contract": outside}


def main():
    ap = argparse.ArgumentParser()
    ap.add_argument("prop")
    ap.add_argument("--tier", default=os.environ.get("VERIF_TIER", "quick"))
    ap.add_argument("--no-rt", action="store_true", help="deductive part only (debugging)")
    ap.add_argument("--no-proof", action="store_true", help="concrete part only (debugging)")
    ap.add_argument("-v", action="store_true")
    args = ap.parse_args()
    prop = args.prop
    tier = args.tier if args.tier in ("quick", "thorough") else "quick"
    seed = int(os.environ.get("VERIF_SEED", "0") or 0)
    t_start = time.time()
    timeout_s = 10 if tier == "quick" else 40
    pm = propmap.PROPS.get(prop)
    if pm is None:
        print("unknown / unclaimed property", prop)
        return 3
    evidence_path = os.path.join(OUT, "evidence", "%s.json" % prop)
    try:
        os.remove(evidence_path)
    except OSError:
        pass

    known = [k for k in load_known() if prop in props_of(k)]
    known_open = [k for k in known if k.get("status") == "known"]
    violations, undecided, errors, known_lines = [], [], [], []
    stale_notes = []
    ob_records, functions, assumed_contracts, ghost_assumes = [], [], set(), []
    used_verified = set()
    solver_time = 0.0

    # ------------------------------------------------------------------ 1. deductive part
    n_obl = n_dis = 0
    if not args.no_proof:
        import multiprocessing as mp
        from pyvc import worker
        try:
            reg = worker.registry()
        except Exception:  # noqa
            traceback.print_exc()
            return 3
        targets = sorted(c.target for c in reg.contracts.values() if not c.extern and prop in c.all_props())
        # A-PLAN link: the well-formedness preconditions of Executor.run_plan must be, clause for clause, postconditions of
        # ExecutionPlanner.create_plan_for (same text with `plan` for `result`), so that the executor proofs rest on a theorem
        plan_link = None
        rp = next((c for c in reg.contracts.values() if c.target.endswith("::Executor.run_plan") and not c.extern), None)
        cp = next((c for c in reg.contracts.values() if c.target.endswith("::ExecutionPlanner.create_plan_for") and not c.extern), None)
        if rp is not None and cp is not None and prop in ("C01", "C02", "C03", "C04", "C09"):
            post = {cl.label: " ".join(cl.expr.replace("result.", "plan.").split()) for cl in cp.ensures}
            plan_link = {}
            for cl in rp.requires:
                if cl.label in ("plan_ops_marked", "plan_well_formed", "initial_ops_are_the_ops_without_dependencies"):
                    plan_link[cl.label] = post.get(cl.label) == " ".join(cl.expr.split())
            gi = next((cl for cl in rp.requires if cl.label == "ghost_initial"), None)
            if gi is not None and "ghost_initial" in post:
                plan_link["ghost_initial"] = post["ghost_initial"] in " ".join(gi.expr.split())
        if not targets:
            errors.append("no function under contract is tagged with %s (zero obligations)" % prop)
        by_name = {l.name: l for l in reg.logic.lemmas}
        jobs = [("function", t, prop) for t in targets]
        lemma_todo = [l.name for l in reg.logic.lemmas if prop in l.props]
        done_lemmas = set()
        packed, probes = [], []
        ctx = mp.get_context("fork")
        with ctx.Pool(processes=min(12, max(1, len(jobs) + 4))) as pool:
            pending = [pool.apply_async(worker.verify_target, (j,)) for j in jobs]
            while pending or lemma_todo:
                for nme in lemma_todo:
                    if nme not in done_lemmas and nme in by_name:
                        done_lemmas.add(nme)
                        pending.append(pool.apply_async(worker.verify_target, (("lemma", nme, None),)))
                lemma_todo = []
                if not pending:
                    break
                r = pending.pop(0).get()
                if r["status"] == "undecided":
                    undecided.append({"function": r["target"], "reason": r["reason"]})
                    continue
                if r["status"] == "error":
                    errors.append("pyvc crashed on %s: %s" % (r["target"], r["reason"]))
                    continue
                functions.append({"function": r["target"], "paths": r["paths"], "obligations": len(r["obligations"]),
                                  "obligations_all_properties": r["n_all"], "trivially_true": r["trivial"]})
                ghost_assumes += r["ghost_assumes"]
                stale_notes += [(r["target"], n) for n in r.get("stale_notes", [])]
                lemma_todo += [l for l in r["lemmas_used"] if l not in done_lemmas]
                for o in r["obligations"]:
                    o["function"] = r["target"]
                    packed.append(o)
                probes += r["probes"]
                for tname in r.get("applied_contracts", []):
                    c = reg.contracts.get(tname)
                    if c is None:
                        continue
                    if c.extern or tname.startswith("ext::"):
                        # assumed: a model of a library / OS call, or a call-site view of a repository function
                        assumed_contracts.add("%s%s" % (c.target, (" -- " + c.trusted_reason) if c.trusted_reason else ""))
                    else:
                        used_verified.add(c.target)
        t_sym = time.time() - t_start
        texts = [o["smt2"] for o in packed]
        results = solve.discharge_texts(texts, timeout_s=timeout_s, cores=[o.get("core") for o in packed])
        for o, r, txt in zip(packed, results, texts):
            n_obl += 1
            solver_time += r["time"]
            rec = {"name": o["name"], "kind": o["kind"], "function": o["function"], "at": o["at"], "clause": o["clause"],
                   "status": r["status"], "solver": r["solver"], "time_s": r["time"]}
            if r["status"] == "unsat":
                n_dis += 1
            elif r["status"] == "sat":
                rec["model"] = r["detail"]
                rec["smt2"] = txt
            else:
                rec["detail"] = r["detail"]
            ob_records.append(rec)
        # thorough: a second, independent solver on the discharged VCs (the same text that was proved: the core VC when
        # the proof came from the core), 10 s each, within a wall-clock budget; the evidence says how many were
        # cross-checked and with what outcome. Only a `sat` answer of the second solver is a disagreement.
        second = {"cross_checked": 0, "confirmed_unsat": 0, "second_solver_unknown": 0, "not_reached_within_budget": 0}
        if tier == "thorough":
            idx = [i for i, r in enumerate(results) if r["status"] == "unsat"]
            budget_end = time.time() + 600
            cores_ = [o.get("core") for o in packed]

            def cross(i):
                if time.time() > budget_end:
                    return i, None, None
                was_core = results[i]["solver"].endswith("/core") and cores_[i]
                other = ["cvc5"] if not results[i]["solver"].startswith("cvc5") else ["z3new"]
                return i, other[0], solve.solve_text(cores_[i] if was_core else texts[i], 10, None, other)
            with cf.ThreadPoolExecutor(max_workers=12) as ex:
                for i, oth, r2 in ex.map(cross, idx):
                    if r2 is None:
                        second["not_reached_within_budget"] += 1
                        continue
                    second["cross_checked"] += 1
                    ob_records[i]["second_solver"] = "%s:%s" % (oth, r2["status"])
                    if r2["status"] == "unsat":
                        second["confirmed_unsat"] += 1
                    elif r2["status"] == "sat":
                        errors.append("solver disagreement on %s" % ob_records[i]["name"])
                    else:
                        second["second_solver_unknown"] += 1
        # vacuity probes (only meaningful when nothing failed)
        if all(r["status"] == "unsat" for r in results) and not undecided:
            for nme in solve.probe_texts(probes):
                errors.append("vacuity: %s" % nme)

    # ------------------------------------------------------------------ 1b. frame scan (C08 / C12 / C13)
    # "Conductor never writes into, replaces or deletes ..." is proved per function (call-site preconditions of rmtree /
    # copytree / move / unlink).  That argument covers the whole program only if every call site of a destructive
    # file-system operation lies in a function under contract: scan the real source for call sites elsewhere.
    scan = None
    if prop in ("C08", "C12", "C13") and not args.no_proof:
        scan = destructive_call_sites(reg)
        for site in scan["outside_contract"]:
            undecided.append({"function": site["function"], "reason": "destructive file-system call `%s` (line %d) in a function that is not under contract for a file-system safety property" % (site["call"], site["line"])})
    spawn_scan = None
    if prop in ("C04", "C09", "C16") and not args.no_proof:
        # every task process is started by RunTaskExecutable.start_execution (under contract): any other asynchronous spawn site
        # would be outside the slot / SIGCHLD / abort arguments
        spawn_scan = spawn_call_sites(reg)
        for site in spawn_scan["outside_contract"]:
            undecided.append({"function": site["function"], "reason": "process spawn `%s` (line %d) in a function that is not under contract for a process property" % (site["call"], site["line"])})
    t_ded = time.time() - t_start
    # ------------------------------------------------------------------ 2. concrete part
    rt_docs = []
    if not args.no_rt:
        mods = pm.get("rt", [])
        rt_timeout = 240 if tier == "quick" else 1500
        with cf.ThreadPoolExecutor(max_workers=max(1, len(mods))) as ex:
            rt_docs = list(ex.map(lambda m: run_rt(m, tier, seed, rt_timeout), mods))
    rt_checks = []
    for d in rt_docs:
        if d.get("error"):
            errors.append("runtime module %s: %s" % (d["module"], d["error"]))
        for c in d.get("checks", []):
            if prop in props_of(c):
                c["module"] = d["module"]
                rt_checks.append(c)

    def known_match(kind, name, cls=None):
        for k in known_open:
            m = k.get("match", {})
            if kind == "obligation" and m.get("obligation") and m["obligation"] in name:
                return k
            mc = m.get("class")
            if isinstance(mc, str):
                mc = [mc]
            if kind == "rt" and m.get("rt_check") == name and (mc is None or cls in mc):
                return k
        return None

    os.makedirs(os.path.join(OUT, "replays", prop), exist_ok=True)
    matched_known = {}

    # failing real inputs per function (for replay of failed obligations)
    def rt_failures_for(function):
        """Real failing inputs found by the bounded checks that exercise `function` ('file.py::Cls.method'): a bounded
        check names the functions it drives in free text, so match on the file and on the method name as a word."""
        file_, _, qual = (function or "").partition("::")
        meth = qual.split(".")[-1]
        out = []
        for c in rt_checks:
            spec = c.get("function") or ""
            if file_ and file_ in spec and re.search(r"(?<![A-Za-z0-9_])%s(?![A-Za-z0-9_])" % re.escape(meth), spec):
                out += [(c["name"], f) for f in c.get("failures", [])]
        return out

    # A sidecar contract that no longer attaches to the code (function renamed / removed, ghost anchor or loop header
    # gone: SourceError) leaves the ghost state it maintained un-maintained.  A counter-model for another function of
    # the same file may then be an artefact of the out-of-date sidecar (e.g. a helper inlined by hand: its ghost
    # update is no longer executed), not of the code: without a failing real input it is reported as undecided.
    stale = {}
    for u in undecided:
        if u.get("function") and str(u.get("reason", "")).startswith("SourceError"):
            stale.setdefault(u["function"].split("::")[0], []).append("%s: %s" % (u["function"], u["reason"]))
    for tgt, note in stale_notes:
        stale.setdefault(tgt.split("::")[0], []).append(note)

    n_known_obl = 0
    for rec in ob_records:
        if rec["status"] == "sat":
            k = known_match("obligation", rec["name"])
            if k is not None:
                matched_known.setdefault(k["id"], []).append(rec["name"])
                rec["known_finding"] = k["id"]
                n_known_obl += 1
                continue
            fails = [(n, f) for n, f in rt_failures_for(rec["function"])
                     if known_match("rt", n, f.get("class")) is None]
            file_ = (rec["function"] or "").split("::")[0]
            if not fails and file_ in stale:
                rec["status"] = "undecided-stale-sidecar"
                undecided.append({"obligation": rec["name"],
                                  "reason": "counter-model not reported as a violation: the sidecar contract of another function of %s no longer attaches to the code (%s); no failing real input found" % (file_, "; ".join(stale[file_])[:300])})
                continue
            path = os.path.join(OUT, "replays", prop, slug(rec["name"]) + ".json")
            doc = {"property": prop, "failed_obligation": rec["name"], "kind": rec["kind"], "function": rec["function"],
                   "at_statement": rec["at"], "clause": rec["clause"], "solver": rec["solver"],
                   "verifier_counter_model": rec.get("model", "")[:6000],
                   "replayed_on_real_code": bool(fails),
                   "failing_real_inputs": [{"bounded_check": n, **f} for n, f in fails[:3]],
                   "how_to_replay": "cd /verif && ./check %s   (re-generates this obligation from /repo's current source)" % prop}
            if not fails:
                doc["note"] = "no-failing-input-found: the concrete back end found no real input in its bounded scopes; the obligation above passed on the unchanged tree and fails now"
            json.dump(doc, open(path, "w", encoding="utf-8"), indent=1)
            violations.append((path, bool(fails), rec["name"]))
        elif rec["status"] != "unsat":
            k = known_match("obligation", rec["name"])
            if k is not None:
                # an obligation that a listed known finding says cannot hold: `unknown` instead of `sat` changes nothing
                matched_known.setdefault(k["id"], []).append(rec["name"])
                rec["known_finding"] = k["id"]
                n_known_obl += 1
                continue
            undecided.append({"obligation": rec["name"], "reason": rec.get("detail", "")[:300]})

    for c in rt_checks:
        if c.get("n_failures", 0) > 0:
            by_class = {}
            for f in c.get("failures", []):
                by_class.setdefault(f.get("class"), []).append(f)
            for cls, fs in by_class.items():
                k = known_match("rt", c["name"], cls)
                if k is not None:
                    matched_known.setdefault(k["id"], []).append("%s[%s]" % (c["name"], cls))
                    continue
                # already reported through a failed obligation of the same function?
                path = os.path.join(OUT, "replays", prop, slug("%s.%s" % (c["name"], cls)) + ".json")
                doc = {"property": prop, "failed_bounded_check": c["name"], "function": c.get("function"),
                       "scope": c.get("scope"), "class": cls, "failing_real_inputs": fs[:3],
                       "replayed_on_real_code": True,
                       "how_to_replay": "cd /verif && %s -m runtime.%s --tier %s --only %s" % (VENV_PY, c["module"], tier, c["name"])}
                json.dump(doc, open(path, "w", encoding="utf-8"), indent=1, default=str)
                violations.append((path, True, "%s [%s]" % (c["name"], cls)))

    # ------------------------------------------------------------------ 3. known findings
    for k in known_open:
        rp = k.get("replay")
        still = None
        if rp:
            r = run_replay(rp)
            if "error" in r:
                errors.append("replay %s: %s" % (rp, r["error"]))
            else:
                still = bool(r.get("reproduced"))
        if still or (still is None and k["id"] in matched_known):
            known_lines.append("KNOWN-FINDING: property=%s %s %s" % (prop, k["id"], k.get("what", "")))
        elif still is False and k["id"] in matched_known:
            # replay is gone but a check still sees the class: keep reporting it as the known finding
            known_lines.append("KNOWN-FINDING: property=%s %s %s" % (prop, k["id"], k.get("what", "")))

    # ------------------------------------------------------------------ 4. verdict + evidence
    wall = time.time() - t_start
    level = pm.get("level", "proof")
    bounded = [{k_: c.get(k_) for k_ in ("name", "function", "scope", "exhaustive", "evaluations", "distinct_nontrivial", "rule", "n_failures", "wall_s", "module")} for c in rt_checks]
    samples = [{"obligation": r["name"], "kind": r["kind"], "clause": r["clause"], "at": r["at"], "status": r["status"], "solver": r["solver"]} for r in ob_records[:6]]
    for c in rt_checks[:3]:
        for s_ in c.get("samples", [])[:1]:
            samples.append({"bounded_check": c["name"], "input": s_})
    evals = sum(int(c.get("evaluations") or 0) for c in rt_checks)
    dn = sum(int(c.get("distinct_nontrivial") or 0) for c in rt_checks)
    coverage = {
        "obligations": n_obl - n_known_obl, "discharged": n_dis,
        "obligations_failing_as_listed_known_findings": n_known_obl,
        "checker_cmd": "cd /verif && ./check %s --tier %s" % (prop, tier),
        "trusted_base": sorted(pm.get("assumes", [])) + sorted("assumed contract (applied by this run): " + a for a in assumed_contracts),
        "callee_contracts_relied_on_and_verified_elsewhere": sorted(used_verified),
        "functions_under_contract": functions,
        "back_ends": sorted(set(r["solver"] for r in ob_records)),
        "solver_time_s": round(solver_time, 2),
        "obligation_kinds": {k_: sum(1 for r in ob_records if r["kind"] == k_) for k_ in sorted(set(r["kind"] for r in ob_records))},
        "undecided": undecided, "checker_errors": errors,
        "bounded_checks": bounded, "evaluations": evals, "distinct_nontrivial": dn,
        "rule": "bounded stand-ins of /verif/runtime: exhaustive small scopes on the real code (never counted as proved); see bounded_checks[].rule",
        "samples": samples or [{"note": "no obligations"}],
        "explanation": pm.get("explanation", ""),
        "known_findings_printed": known_lines,
        "ghost_assumes_in_sidecar": sorted(set(ghost_assumes)),
        "second_solver": locals().get("second", {}),
        "destructive_call_site_scan": scan,
        "process_spawn_site_scan": spawn_scan,
        "a_plan_link_planner_post_equals_executor_pre": locals().get("plan_link"),
        "extraction_drops": "docstrings, comments, type annotations (used only to choose sorts), print_* cosmetics; `assert` statements become obligations",
    }
    ev = {"property_id": prop, "tier": tier, "seed": seed, "level": level, "coverage": coverage,
          "assumptions": sorted(pm.get("assumes", [])), "wall_s": round(wall, 2), "violations": len(violations)}
    os.makedirs(os.path.dirname(evidence_path), exist_ok=True)
    json.dump(ev, open(evidence_path, "w", encoding="utf-8"), indent=1, default=str)

    for l in known_lines:
        print(l)
    print("%s tier=%s: %d/%d obligations discharged over %d functions; %d bounded checks (%d real executions); %d undecided; %.1fs"
          % (prop, tier, n_dis, n_obl, len(functions), len(rt_checks), evals, len(undecided), wall))
    if args.v:
        print("   timing: symbolic execution %.1fs, deductive total %.1fs, whole check %.1fs" % (locals().get("t_sym", 0.0), t_ded, wall))
        for r in ob_records:
            if r["status"] != "unsat":
                print("   %s %s [%s] at `%s`" % (r["status"].upper(), r["name"], r["solver"], r["at"]))
    if violations:
        for path, replayed, what in violations:
            print("VIOLATION property=%s replay=%s%s" % (prop, path, "" if replayed else " no-failing-input-found"))
            print("   failed: %s" % what)
        return 1
    if errors:
        for e in errors:
            print("CHECKER-ERROR:", e)
        return 3
    if undecided:
        for u in undecided[:10]:
            print("UNDECIDED:", json.dumps(u)[:400])
        return 2
    return 0


if __name__ == "__main__":
    sys.exit(main())
