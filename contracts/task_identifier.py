"""task_identifier.py, filename.py -- C20 (one grammar, canonical form, distinct output locations); feeds C15, C13.

The oracle is the documented grammar written independently as SMT regular expressions
(pyvc/regex.py::grammar): name = [A-Za-z0-9_-]+ ; identifier = ("//")? (name "/")* (name)? ":" name ;
relative = ":" name.  The real patterns are read from the real module text on every run and translated
with Python's own regex parser; `$` keeps its Python meaning (end, or before a final newline).
"""
from pyvc.contract import ClassDecl, Contract, Logic, Lemma, C, Loop, Ghost

F = "task_identifier.py"

CLASSES = [
    ClassDecl("TaskIdentifier", file=F, value_sort="TId", fields={"_path": "Val[Path]", "_name": "str"}),
    ClassDecl("ReMatch"),
    ClassDecl("InvalidTaskIdentifier", exception=True, bases=["ConductorError"]),
]

LOGIC = Logic(
    funcs={
        "Path_parts": (["Val[Path]"], "Seq[str]"),
        "Path_str": (["Val[Path]"], "str"),
        "Path_empty": ([], "Val[Path]"),
        "Path_join": (["Val[Path]", "str"], "Val[Path]"),        # p / "segment"
        "Path_joinp": (["Val[Path]", "Val[Path]"], "Val[Path]"),  # p / q
        "Path_with_name": (["Val[Path]", "str"], "Val[Path]"),
        "Path_parent": (["Val[Path]"], "Val[Path]"),
        "Path_name": (["Val[Path]"], "str"),
    },
    axioms=[
        # A-LIB (assumed, str() of a positive int has no sign and no leading zero):
        C("str_of_positive_int_is_posint", "forall(t, 'int', implies(t > 0, in_re(int_str(t), 'posint')))", "C20", "C13"),
    ],
    lemmas=[
        # Two different (name, version) pairs never give the same directory name; with the path prefix this is
        # "two different identifiers or versions never map to the same output directory".
        Lemma("output_dir_injective_versioned",
              vars={"n1": "str", "n2": "str", "d1": "str", "d2": "str"},
              requires=["in_re(n1, 'name')", "in_re(n2, 'name')", "in_re(d1, 'posint')", "in_re(d2, 'posint')",
                        "n1 + '.task.' + d1 == n2 + '.task.' + d2"],
              ensures=[C("same_name", "n1 == n2"), C("same_version_digits", "d1 == d2")], props=["C20"]),
        Lemma("version_rendering_injective", vars={"t1": "int", "t2": "int"},
              requires=["t1 > 0", "t2 > 0", "int_str(t1) == int_str(t2)"],
              ensures=[C("same_version", "t1 == t2")], props=["C20"]),
        Lemma("output_dir_injective_unversioned",
              vars={"n1": "str", "n2": "str"},
              requires=["in_re(n1, 'name')", "in_re(n2, 'name')", "n1 + '.task' == n2 + '.task'"],
              ensures=[C("same_name", "n1 == n2")], props=["C20"]),
        Lemma("versioned_and_unversioned_dirs_differ",
              vars={"n1": "str", "n2": "str", "d2": "str"},
              requires=["in_re(n1, 'name')", "in_re(n2, 'name')", "in_re(d2, 'posint')"],
              ensures=[C("differ", "n1 + '.task' != n2 + '.task.' + d2")], props=["C20"]),
        # the gc patterns are exactly the inverse image of task_output_dir
        Lemma("experiment_dir_name_shape",
              vars={"n": "str", "d": "str"}, requires=["in_re(n, 'name')", "in_re(d, 'posint')"],
              ensures=[C("in_exp_grammar", "in_re(n + '.task.' + d, 'exp_dir')"),
                       C("not_regular", "not in_re(n + '.task.' + d, 'reg_dir')")], props=["C20", "C13"]),
    ],
)

CONTRACTS = [
    Contract("ext::pathlib.Path", returns="Val[Path]", varargs=True,
             trusted_reason="pathlib.Path(*segments) is an opaque value here; the decomposition into segments is covered by the bounded round-trip check"),
    Contract("ext::Path.__truediv__", params={"other": "str"}, returns="Val[Path]", ensures=["result == Path_join(self, other)"],
             trusted_reason="pathlib: p / 'seg' as an uninterpreted constructor"),
    Contract("ext::Path.__truediv___Path", params={"other": "Val[Path]"}, returns="Val[Path]", ensures=["result == Path_joinp(self, other)"],
             trusted_reason="pathlib: p / q as an uninterpreted constructor"),
    Contract("ext::Path.with_name", params={"name": "str"}, returns="Val[Path]", ensures=["result == Path_with_name(self, name)"],
             trusted_reason="pathlib: with_name as an uninterpreted constructor"),
    Contract("ext::str.split", params={"sep": "str"}, returns="Seq[str]",
             trusted_reason="str.split result is opaque at this level"),

    Contract(F + "::TaskIdentifier.is_name_valid", params={"candidate": "str"}, returns="bool", props=["C20", "C15"],
             ensures=[C("iff_name_grammar", "result == in_re(candidate, 'name')", "C20", "C15")]),

    Contract(F + "::TaskIdentifier.from_str", params={"candidate": "str", "require_prefix": "bool"},
             returns="TaskIdentifier", props=["C20"],
             ensures=[C("accepted_only_if_in_grammar", "in_re(candidate, 'ident')"),
                      C("prefix_required", "implies(require_prefix, candidate.startswith('//'))"),
                      C("name_is_suffix_after_colon", "candidate.endswith(':' + result._name)"),
                      C("name_in_grammar", "in_re(result._name, 'name')")],
             raises={"InvalidTaskIdentifier": [
                 C("rejected_only_if_outside_grammar",
                   "not in_re(candidate, 'ident') or (require_prefix and not candidate.startswith('//'))")]}),

    Contract(F + "::TaskIdentifier.from_relative_str", params={"candidate": "str", "rel_cond_file_dir": "Val[Path]"},
             returns="TaskIdentifier", props=["C20"],
             ensures=[C("accepted_only_if_in_grammar", "in_re(candidate, 'rel')"),
                      C("resolves_against_listing_directory", "result._path == rel_cond_file_dir"),
                      C("name_is_rest", "candidate == ':' + result._name")],
             raises={"InvalidTaskIdentifier": [C("rejected_only_if_outside_grammar", "not in_re(candidate, 'rel')")]}),

    Contract(F + "::TaskIdentifier.is_relative_candidate", params={"candidate": "str"}, returns="bool", props=["C20"],
             ensures=[C("is_prefix_test", "result == candidate.startswith(':')"),
                      C("every_relative_identifier_is_a_candidate", "implies(in_re(candidate, 'rel'), result)"),
                      C("no_absolute_identifier_is_a_candidate", "implies(in_re(candidate, 'ident_prefixed'), not result)")]),

    Contract(F + "::TaskIdentifier.__repr__", returns="str", props=["C20"],
             ensures=[C("canonical_form", "result == '//' + join('/', Path_parts(self._path)) + ':' + self._name")]),

    Contract(F + "::TaskIdentifier.__eq__", params={"other": "TaskIdentifier"}, returns="bool", props=["C20", "C14", "C02"],
             ensures=[C("structural_equality", "result == (self._path == other._path and self._name == other._name)"),
                      C("same_as_value_identity", "result == (self == other)")]),
    Contract(F + "::TaskIdentifier.__hash__", returns="int", props=["C20", "C14", "C02"],
             ensures=[C("hash_of_canonical_form", "result == hash('//' + join('/', Path_parts(self._path)) + ':' + self._name)")]),

    Contract(F + "::TaskIdentifier.path_to_cond_file", params={"project_root": "Opt[Val[Path]]"}, returns="Val[Path]", extern=True,
             ensures=["implies(project_root is not None, IsUnder(result, some(project_root)))"],
             trusted_reason="pathlib.Path(project_root, self._path, 'COND'): a path below the project root"),

    Contract("filename.py::task_output_dir", params={"task_identifier": "TaskIdentifier", "version": "Opt[Version]"},
             returns="str", props=["C20", "C08", "C13"],
             ensures=[C("unversioned", "implies(version is None, result == task_identifier._name + '.task')", "C20"),
                      C("versioned", "implies(version is not None, result == task_identifier._name + '.task.' + int_str(version._timestamp))", "C20", "C08", "C13")]),
]
