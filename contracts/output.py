"""utils/tee.py, utils/output_handler.py -- C10 (recorded output is exactly what the command wrote).

Byte strings are an uninterpreted monoid (Bytes, bcat, bempty, blen): no value reasoning is needed, so "any
byte values, any length" costs nothing.  Ghost state of a pipe: `pipe.g_rest` = bytes still to be delivered.
Model of read1(n) (A-OS): returns a non-empty prefix of the remainder of length <= n, or b"" iff the remainder
is empty (EOF after all writers closed).
"""
from pyvc.contract import ClassDecl, Contract, Logic, Lemma, C, Loop, Ghost

F = "utils/tee.py"
OH = "utils/output_handler.py"

CLASSES = [
    ClassDecl("PipeReader", ghost={"g_rest": "bytes"}),
    ClassDecl("TextStream", fields={"buffer": "BinStream"}, ghost={"g_flushed_upto": "bytes"}),
    ClassDecl("BinStream", ghost={"g_written": "bytes"}),
    ClassDecl("TeeProcessor", file=F, fields={"_has_shutdown": "bool"}),
    ClassDecl("RecordType", file=OH),
    ClassDecl("Future", ghost={"g_pipe": "PipeReader", "g_stream": "TextStream", "g_path": "Val[Path]", "g_joined": "bool"}),
    ClassDecl("OutputHandler", file=OH,
              fields={"_output_path": "Val[Path]", "_type": "Enum[RecordType]", "_file": "Opt[File]", "_tee_future": "Opt[Future]"}),
]

LOGIC = Logic(
    funcs={"bcat": (["bytes", "bytes"], "bytes"), "bempty": ([], "bytes"), "blen": (["bytes"], "int"),
           "FileContent": (["Val[Path]"], "bytes")},
    axioms=[
        C("bytes_monoid", "forall(a, 'bytes', bcat(a, bempty()) == a and bcat(bempty(), a) == a) and "
                          "forall(a, 'bytes', forall(b, 'bytes', forall(c, 'bytes', bcat(bcat(a, b), c) == bcat(a, bcat(b, c)))))"),
        C("bytes_length", "blen(bempty()) == 0 and forall(a, 'bytes', blen(a) >= 0 and ((blen(a) == 0) == (a == bempty())))"),
    ],
    globals={"g_tee_file": "File", "ext_subprocess_PIPE": "File"},
)

CONTRACTS = [
    Contract("ext::PipeReader.read1", params={"n": "int"}, returns="bytes", modifies=["PipeReader.g_rest@self"],
             ensures=["old(self.g_rest) == bcat(result, self.g_rest)", "blen(result) <= n",
                      "(blen(result) == 0) == (old(self.g_rest) == bempty())"],
             trusted_reason="A-OS: read1 returns a non-empty prefix (<= n bytes) of what remains, b'' exactly at EOF"),
    Contract("ext::File.write", params={"data": "bytes"}, modifies=["File.g_content@self"],
             requires=["not self.g_closed"], ensures=["self.g_content == bcat(old(self.g_content), data)"],
             trusted_reason="A-LIB: BufferedWriter.write on a blocking file writes all of data"),
    Contract("ext::BinStream.write", params={"data": "bytes"}, modifies=["BinStream.g_written@self"],
             ensures=["self.g_written == bcat(old(self.g_written), data)"], trusted_reason="A-LIB: stream.buffer.write"),
    Contract("ext::TextStream.flush", modifies=["TextStream.g_flushed_upto@self"],
             ensures=["self.g_flushed_upto == self.buffer.g_written"], trusted_reason="A-LIB: flush pushes everything written so far"),

    Contract(F + "::TeeProcessor._tee_pipe_run", params={"pipe": "PipeReader", "stream": "TextStream", "file_name": "Val[Path]"},
             props=["C10"],
             locals={"file": "File"},
             modifies=["PipeReader.g_rest@pipe", "File.g_content", "File.g_closed", "BinStream.g_written@stream.buffer",
                       "TextStream.g_flushed_upto@stream", "g_tee_file", "$alloc"],
             ensures=[
                 C("pipe_drained", "pipe.g_rest == bempty()"),
                 C("log_file_has_exactly_the_bytes", "g_tee_file.g_path == file_name and g_tee_file.g_mode == 'wb' and g_tee_file.g_closed and"
                                                     " g_tee_file.g_content == old(pipe.g_rest)"),
                 C("forwarded_exactly_the_bytes", "stream.buffer.g_written == bcat(old(stream.buffer.g_written), old(pipe.g_rest))"),
                 C("flushed_at_the_end", "stream.g_flushed_upto == stream.buffer.g_written"),
             ],
             raises={"OSError+": []},
             uses=["bytes_monoid", "bytes_length"],
             loops={0: Loop(header="while True:",
                            modifies=["PipeReader.g_rest@pipe", "File.g_content@file", "BinStream.g_written@stream.buffer", "TextStream.g_flushed_upto@stream"],
                            invariant=[
                                C("consumed_plus_remaining", "bcat(file.g_content, pipe.g_rest) == old(pipe.g_rest)"),
                                C("forwarded_equals_logged", "stream.buffer.g_written == bcat(old(stream.buffer.g_written), file.g_content)"),
                                C("file_open", "not file.g_closed and file.g_path == file_name and file.g_mode == 'wb' and g_tee_file == file"),
                            ])},
             ghost=[Ghost("g_tee_file = file", before="while True:")]),

    # ------------------------------------------------------------------ OutputHandler
    Contract("context.py::Context.tee_processor", returns="TeeProcessor", extern=True, trusted_reason="lazily created singleton TeeProcessor of the context"),
    Contract(F + "::TeeProcessor.tee_pipe", params={"pipe": "PipeReader", "stream": "TextStream", "file_name": "Val[Path]"}, returns="Future",
             extern=True, fresh_result=True,
             ensures=["result.g_pipe == pipe and result.g_stream == stream and result.g_path == file_name and not result.g_joined"],
             trusted_reason="ThreadPoolExecutor.submit(self._tee_pipe_run, pipe, stream, file_name): the returned future runs exactly that call"),
    Contract("ext::Future.result", modifies=["Future.g_joined@self"], ensures=["self.g_joined"], raises={"Exception+": []},
             trusted_reason="Future.result() blocks until the worker finished (its effects are then complete) and re-raises its exception"),
    Contract("ext::File.close", modifies=["File.g_closed@self"], ensures=["self.g_closed"], trusted_reason="file.close()"),

    Contract(OH + "::OutputHandler.popen_arg", returns="Opt[File]", props=["C10"],
             modifies=["OutputHandler._file@self", "$alloc"],
             ensures=[C("not_recorded_inherits", "implies(self._type == RecordType.NotRecorded, result is None)"),
                      C("teed_uses_a_pipe", "implies(self._type == RecordType.Teed, result is not None and some(result) == ext_subprocess_PIPE)"),
                      C("only_logged_hands_the_log_file_itself",
                        "implies(self._type == RecordType.OnlyLogged, result is not None and self._file == result and some(result) != ext_subprocess_PIPE"
                        " and some(result).g_path == self._output_path and some(result).g_mode == 'wb' and not some(result).g_closed)"),
                      C("same_file_on_repeated_calls", "implies(self._type == RecordType.OnlyLogged and old(self._file) is not None, self._file == old(self._file))")],
             requires=[C("open_file_is_the_log_file", "implies(self._file is not None, some(self._file) != ext_subprocess_PIPE and some(self._file).g_path == self._output_path"
                                                      " and some(self._file).g_mode == 'wb' and not some(self._file).g_closed)")],
             raises={"OSError+": []}),

    Contract(OH + "::OutputHandler.maybe_tee", params={"pipe": "Opt[PipeReader]", "stream": "TextStream", "ctx": "Context"}, props=["C10"],
             requires=[C("pipe_present_when_teed", "implies(self._type == RecordType.Teed, pipe is not None)")],
             modifies=["OutputHandler._tee_future@self", "$alloc"],
             ensures=[C("tee_exactly_that_pipe_to_that_file",
                        "implies(self._type == RecordType.Teed, self._tee_future is not None and some(self._tee_future).g_pipe == some(pipe)"
                        " and some(self._tee_future).g_stream == stream and some(self._tee_future).g_path == self._output_path)"),
                      C("otherwise_nothing", "implies(self._type != RecordType.Teed, self._tee_future == old(self._tee_future))")]),

    Contract(OH + "::OutputHandler.finish", props=["C10", "C06"],
             modifies=["OutputHandler._tee_future@self", "OutputHandler._file@self", "Future.g_joined", "File.g_closed"],
             ensures=[C("tee_joined", "implies(self._type == RecordType.Teed and old(self._tee_future) is not None, old(some(self._tee_future)).g_joined and self._tee_future is None)"),
                      C("log_file_closed", "implies(self._type == RecordType.OnlyLogged and old(self._file) is not None, old(some(self._file)).g_closed and self._file is None)"),
                      C("otherwise_untouched", "implies(not (self._type == RecordType.Teed and old(self._tee_future) is not None), self._tee_future == old(self._tee_future)) and"
                                               " implies(not (self._type == RecordType.OnlyLogged and old(self._file) is not None), self._file == old(self._file))")],
             raises={"Exception+": []}),
]
