"""execution/planning/planner.py -- C02 (each needed task is lowered exactly once; cached and executed are disjoint;
nothing that is needed is missing), C01 (the operation of every executed dependency is an execution dependency of
its dependent), C18 (a combine operation is given the output directory of every dependency that has one).

Ghost phase of a LoweringTask (g_ph): 0 NEW (pushed, not yet the canonical entry of its identifier),
1 OPEN (canonical, second visit pending, on the stack), 2 DONE (lowered to exactly one operation), 3 PRUNED (cached).
Ghost fields of an Operation created here: g_tid (the task it was lowered from), g_idx (its index in all_ops).
Rk is an arbitrary rank of the (acyclic) closure: Rk(dep) < Rk(task) -- what load_transitive_closure (C14) establishes.

Key invariant K: for every OPEN entry at stack position p and each of its dependencies d, either d is finished
(DONE / PRUNED) or some entry above p carries d.  With the entry on top (second visit) all its dependencies are
finished, so their operations exist and are final when the edges are hooked, and every `visited[...]` lookup succeeds.
"""
from pyvc.contract import ClassDecl, Contract, Logic, Lemma, C, Loop, Ghost

F = "execution/planning/planner.py"

CLASSES = [
    ClassDecl("LoweringState", file="execution/planning/lowering.py"),
    ClassDecl("LoweringTask", file="execution/planning/lowering.py",
              fields={"task": "TaskType", "state": "Enum[LoweringState]", "deps": "List[LoweringTask]#ltdeps", "output_ops": "List[Operation]#ltops"},
              ghost={"g_ph": "int", "g_mine": "bool"}),
    ClassDecl("Group", file="task_types/group.py"),
    ClassDecl("NoOp", file="execution/ops/noop.py"),
    ClassDecl("NotImplementedError", exception=True, bases=["Exception"]),
]

LOGIC = Logic(
    funcs={"TaskOf": (["TaskIdentifier"], "TaskType"), "ShouldRun": (["TaskIdentifier"], "bool"), "Rk": (["TaskIdentifier"], "int"),
           "OutPath": (["TaskIdentifier"], "Opt[Val[Path]]")},
    globals={"g_sr_called": "Set[TaskIdentifier]#srcalled", "g_dop_pos": "Arr[int,int]", "g_dop_src": "Arr[int,int]"},
    macros={
        "lid(l)": "l.task._identifier",
        "finished(t)": "(t in visited) and visited[t].g_ph >= 2",
        "opof(t)": "select(visited[t].output_ops, 0)",
        # the canonical entries
        "vis_inv()":
            "forall(t, 'TaskIdentifier', implies(t in visited, visited[t].g_mine and visited[t].task == TaskOf(t) and Reach(t)"
            " and 1 <= visited[t].g_ph and visited[t].g_ph <= 3"
            " and implies(visited[t].g_ph == 1, visited[t].state == LoweringState.SECOND_VISIT and seq_len(visited[t].output_ops) == 0)"
            " and implies(visited[t].g_ph == 3, seq_len(visited[t].output_ops) == 0 and not run_again and not ShouldRun(t))"
            " and implies(visited[t].g_ph != 3, run_again or ShouldRun(t))"
            " and implies(visited[t].g_ph == 2, seq_len(visited[t].output_ops) == 1 and allocated(opof(t)) and opof(t).g_inplan and opof(t).g_tid == t"
            "             and 0 <= opof(t).g_idx and opof(t).g_idx < seq_len(all_ops) and select(all_ops, opof(t).g_idx) == opof(t))))",
        "ops_inv2()":
            "forall(i, 'int', implies(0 <= i and i < seq_len(all_ops), allocated(select(all_ops, i)) and select(all_ops, i).g_inplan and select(all_ops, i).g_idx == i"
            " and (select(all_ops, i).g_tid in visited) and visited[select(all_ops, i).g_tid].g_ph == 2 and opof(select(all_ops, i).g_tid) == select(all_ops, i)"
            " and allocated(select(all_ops, i)._exe_deps)))",
        "edges_inv()":
            "forall(t, 'TaskIdentifier', implies((t in visited) and visited[t].g_ph == 2, forall(j, 'int', implies(0 <= j and j < seq_len(Deps(t)),"
            " finished(select(Deps(t), j)) and implies(visited[select(Deps(t), j)].g_ph == 2, opof(select(Deps(t), j)) in opof(t)._exe_deps)))))",
        "lt_ok(e)":
            "e.g_mine and e.task == TaskOf(lid(e)) and Reach(lid(e)) and (e.g_ph == 0 or e.g_ph == 1)"
            " and implies(e.g_ph == 0, e.state == LoweringState.FIRST_VISIT and seq_len(e.deps) == 0 and seq_len(e.output_ops) == 0"
            "             and not ((lid(e) in visited) and visited[lid(e)] == e))"
            " and implies(e.g_ph == 1, e.state == LoweringState.SECOND_VISIT and (lid(e) in visited) and visited[lid(e)] == e and deps_match(e))",
        "stack_inv_upto(n)": "forall(p, 'int', implies(0 <= p and p < n, lt_ok(select(stack, p))))",
        "stack_inv()": "stack_inv_upto(seq_len(stack))",
        "stack_distinct()": "forall(p, 'int', forall(q, 'int', implies(0 <= p and p < q and q < seq_len(stack), select(stack, p) != select(stack, q))))",
        "deps_match(e)":
            "seq_len(e.deps) == seq_len(Deps(lid(e))) and forall(k, 'int', implies(0 <= k and k < seq_len(e.deps),"
            " select(e.deps, k).g_mine and lid(select(e.deps, k)) == select(Deps(lid(e)), seq_len(e.deps) - 1 - k)))",
        "rank_inv_upto(n)":
            "forall(p, 'int', forall(q, 'int', implies(0 <= p and p < q and q < n and select(stack, p).g_ph == 1,"
            " Rk(lid(select(stack, q))) < Rk(lid(select(stack, p))))))",
        "rank_inv()": "rank_inv_upto(seq_len(stack))",
        "k_inv_upto(n)":
            "forall(p, 'int', implies(0 <= p and p < n and select(stack, p).g_ph == 1,"
            " forall(j, 'int', implies(0 <= j and j < seq_len(Deps(lid(select(stack, p)))),"
            "   finished(select(Deps(lid(select(stack, p))), j)) or"
            "   exists(q, 'int', p < q and q < seq_len(stack) and lid(select(stack, q)) == select(Deps(lid(select(stack, p))), j))))))",
        "k_inv()": "k_inv_upto(seq_len(stack))",
        "open_only_on_stack()":
            "forall(t, 'TaskIdentifier', implies((t in visited) and visited[t].g_ph == 1, exists(p, 'int', 0 <= p and p < seq_len(stack) and select(stack, p) == visited[t])))",
        "lists_owned()":
            "forall(a, 'LoweringTask', forall(b, 'LoweringTask', implies(a != b and a.g_mine and b.g_mine, a.deps != b.deps and a.output_ops != b.output_ops)))"
            " and forall(a, 'LoweringTask', implies(a.g_mine, allocated(a) and allocated(a.deps) and allocated(a.output_ops)))",
        # ---- well-formedness of the plan as the executor needs it (A-PLAN discharged here)
        "edges_wf_pending(f, x)":
            "forall(i, 'int', implies(0 <= i and i < seq_len(f._deps_of),"
            "   (select(f._deps_of, i).g_inplan or select(f._deps_of, i) == x) and 0 <= select(f.g_back, i) and select(f.g_back, i) < seq_len(select(f._deps_of, i)._exe_deps)"
            "   and select(select(f._deps_of, i)._exe_deps, select(f.g_back, i)) == f))"
            " and forall(i, 'int', forall(k, 'int', implies(0 <= i and i < k and k < seq_len(f._deps_of),"
            "   select(f._deps_of, i) != select(f._deps_of, k))))"
            " and forall(j, 'int', implies(0 <= j and j < seq_len(f._exe_deps), select(f._exe_deps, j).g_inplan))",
        "hook_c1(x)":
            "forall(i, 'int', implies(0 <= i and i < seq_len(all_ops), forall(q, 'int', implies(0 <= q and q < seq_len(select(all_ops, i)._deps_of),"
            "   (select(select(all_ops, i)._deps_of, q).g_inplan or select(select(all_ops, i)._deps_of, q) == x)"
            "   and 0 <= select(select(all_ops, i).g_back, q) and select(select(all_ops, i).g_back, q) < seq_len(select(select(all_ops, i)._deps_of, q)._exe_deps)"
            "   and select(select(select(all_ops, i)._deps_of, q)._exe_deps, select(select(all_ops, i).g_back, q)) == select(all_ops, i)))))",
        "hook_c2()":
            "forall(i, 'int', implies(0 <= i and i < seq_len(all_ops), forall(q, 'int', forall(r, 'int', implies(0 <= q and q < r and r < seq_len(select(all_ops, i)._deps_of),"
            "   select(select(all_ops, i)._deps_of, q) != select(select(all_ops, i)._deps_of, r))))))",
        "hook_c3()":
            "forall(i, 'int', implies(0 <= i and i < seq_len(all_ops), forall(j, 'int', implies(0 <= j and j < seq_len(select(all_ops, i)._exe_deps),"
            "   select(select(all_ops, i)._exe_deps, j).g_inplan))))",
        "hook_fields()": "forall(i, 'int', implies(0 <= i and i < seq_len(all_ops), op_fields_ok(select(all_ops, i))))",
        "hook_last(x, bound)":
            "forall(i, 'int', implies(0 <= i and i < seq_len(all_ops),"
            " implies(select(all_ops, i).g_last == x, 0 <= select(all_ops, i).g_dpos and select(all_ops, i).g_dpos < seq_len(Deps(lid(lt)))"
            "   and seq_len(Deps(lid(lt))) - 1 - select(all_ops, i).g_dpos < bound and select(all_ops, i).g_tid == select(Deps(lid(lt)), select(all_ops, i).g_dpos))"
            " and implies(select(all_ops, i).g_last != x, forall(q, 'int', implies(0 <= q and q < seq_len(select(all_ops, i)._deps_of), select(select(all_ops, i)._deps_of, q) != x)))"
            " and (select(all_ops, i).g_last is None or some(select(all_ops, i).g_last).g_inplan or some(select(all_ops, i).g_last) == x)))",
        "op_fields_ok(o)":
            "o._state == OperationState.QUEUED and not o.g_started and o.main_task is not None and o.g_phase == 0"
            " and o.g_marks == const_arr('Arr[int,bool]', False) and allocated(o._deps_of) and allocated(o._exe_deps)",
        "plan_wf()":
            "forall(i, 'int', implies(0 <= i and i < seq_len(all_ops), edges_wf(select(all_ops, i)) and op_fields_ok(select(all_ops, i))"
            " and (select(all_ops, i).g_last is None or some(select(all_ops, i).g_last).g_inplan)))",
        "plan_lists_owned()":
            "forall(i, 'int', forall(k, 'int', implies(0 <= i and i < k and k < seq_len(all_ops),"
            " select(all_ops, i)._exe_deps != select(all_ops, k)._exe_deps and select(all_ops, i)._deps_of != select(all_ops, k)._deps_of)))",
        "inplan_listed()":
            "forall(o, 'Operation', implies(o.g_inplan, 0 <= o.g_idx and o.g_idx < seq_len(all_ops) and select(all_ops, o.g_idx) == o))",
        "init_wf()":
            "forall(q, 'int', implies(0 <= q and q < seq_len(initial_operations), select(initial_operations, q).g_inplan and seq_len(select(initial_operations, q)._exe_deps) == 0"
            " and select(initial_operations, q).g_iidx == q))"
            " and forall(i, 'int', implies(0 <= i and i < seq_len(all_ops) and seq_len(select(all_ops, i)._exe_deps) == 0,"
            " 0 <= select(all_ops, i).g_iidx and select(all_ops, i).g_iidx < seq_len(initial_operations) and select(initial_operations, select(all_ops, i).g_iidx) == select(all_ops, i)))",
        "cached_inv()":
            "forall(i, 'int', implies(0 <= i and i < seq_len(cached_tasks), (select(cached_tasks, i)._identifier in visited) and not run_again"
            " and not ShouldRun(select(cached_tasks, i)._identifier)"
            " and visited[select(cached_tasks, i)._identifier].g_ph == 3 and TaskOf(select(cached_tasks, i)._identifier) == select(cached_tasks, i)))",
    },
)

OPCTOR_ENS = ["result._state == initial_state", "seq_len(result._exe_deps) == 0 and seq_len(result._deps_of) == 0",
              "fresh(result._exe_deps) and fresh(result._deps_of) and allocated(result._exe_deps) and allocated(result._deps_of) and result._exe_deps != result._deps_of",
              "result.main_task is not None and some(result.main_task) == task", "result._stored_error is None", "not result.g_inplan"]
# (the ghost fields g_started / g_phase / g_marks / g_last of a new operation are pristine by the precondition `ghost_state_pristine`:
#  real code never assigns ghost fields, and the quantifier there ranges over all references, allocated or not)

LOOP0_MOD = ["list@stack", "dict@visited", "list@all_ops", "list@initial_operations", "list@cached_tasks", "$alloc",
             "LoweringTask.state", "LoweringTask.g_ph", "LoweringTask.g_mine", "new:LoweringTask.task", "new:LoweringTask.deps", "new:LoweringTask.output_ops",
             "new@ltdeps", "new@ltops", "region:ltdeps", "region:ltops", "region:edeps", "region:depsof", "new@edeps", "new@depsof",
             "new:Operation._exe_deps", "new:Operation._deps_of", "new:Operation._state", "new:Operation._stored_error", "new:Operation._waiting_on",
             "Operation.g_inplan", "Operation.g_idx", "Operation.g_tid", "Operation.g_back", "Operation.g_iidx", "Operation.g_last", "Operation.g_dpos",
             "g_sr_called", "RunExperiment._did_retrieve_version", "RunExperiment._most_relevant_version", "VersionIndex._last_timestamp",
             "new@cdops"]

CONTRACTS = [
    # ------------------------------------------------------------------ planner's view of its callees
    Contract("ext::TaskIndex.get_task(planner)", params={"identifier": "TaskIdentifier"}, returns="TaskType",
             requires=[C("only_tasks_of_the_loaded_closure", "Reach(identifier)", "C02")],
             ensures=["result == TaskOf(identifier)"],
             trusted_reason="TaskIndex.get_task returns THE loaded task object of the identifier (C14: the closure is loaded)"),
    Contract("ext::TaskType.should_run(planner)", params={"ctx": "Context", "at_least_commit": "Opt[str]"}, returns="bool",
             requires=[C("cache_decision_taken_once_per_task", "not (self._identifier in g_sr_called)", "C02")],
             modifies=["g_sr_called", "RunExperiment._did_retrieve_version", "RunExperiment._most_relevant_version"],
             ensures=["result == ShouldRun(self._identifier)", "forall(t, 'TaskIdentifier', (t in g_sr_called) == (old(t in g_sr_called) or t == self._identifier))"],
             raises={"RuntimeError": []},
             trusted_reason="dynamic dispatch of TaskType.should_run (RunExperiment: contracts/run_types.py, others: constant True): one decision per task and invocation"),
    Contract("ext::RunExperiment.create_new_version(planner)", params={"ctx": "Context"}, returns="Version", raises={"RuntimeError": []},
             modifies=["RunExperiment._did_retrieve_version", "RunExperiment._most_relevant_version", "VersionIndex._last_timestamp"],
             trusted_reason="verified in contracts/run_types.py"),
    Contract("ext::TaskType.get_output_path(planner)", params={"ctx": "Context"}, returns="Opt[Val[Path]]", raises={"RuntimeError": []},
             modifies=["RunExperiment._did_retrieve_version", "RunExperiment._most_relevant_version"],
             ensures=["result == OutPath(self._identifier)",
                      "implies(instance(self, RunExperiment) or instance(self, RunCommand) or instance(self, Combine), result is not None)"],
             trusted_reason="dynamic dispatch of get_output_path: only Group has no output directory (verified per class in contracts/run_types.py); within one planning pass the answer for "
                            "a task is stable (memoised selected version): bounded check C07.planner.deps_snapshot"),
    Contract("ext::TaskType.get_working_path(planner)", params={"ctx": "Context"}, returns="Val[Path]", trusted_reason="verified below: project_root / identifier.path"),
    Contract("ext::pathlib.Path(Path,Path)", params={"a": "Val[Path]", "b": "Val[Path]"}, returns="Val[Path]", ensures=["result == Path_joinp(a, b)"], trusted_reason="pathlib.Path(a, b)"),
    Contract("task_types/base.py::TaskType.get_working_path", params={"ctx": "Context"}, returns="Val[Path]", props=["C07", "C17"],
             ensures=[C("the_directory_of_the_cond_file_below_the_project_root", "result == Path_joinp(ctx._project_root, self._identifier._path)", "C07", "C17")]),
    Contract("ext::TaskType.get_deps_output_paths(planner)", params={"ctx": "Context"}, returns="Seq[Val[Path]]",
             modifies=["RunExperiment._did_retrieve_version", "RunExperiment._most_relevant_version"], raises={"RuntimeError": []},
             trusted_reason="output directories of the direct dependencies (snapshot consistency: bounded check C07.planner.deps_snapshot)"),
    Contract("ext::RunTaskExecutable", returns="RunTaskExecutable", fresh_result=True,
             params={"initial_state": "Enum[OperationState]", "identifier": "TaskIdentifier", "task": "TaskType", "run": "str", "args": "RunArguments",
                     "options": "RunOptions", "working_path": "Val[Path]", "output_path": "Val[Path]", "deps_output_paths": "Seq[Val[Path]]",
                     "record_output": "bool", "version_to_record": "Opt[Version]", "serialize_args_options": "bool", "parallelizable": "bool"},
             ensures=OPCTOR_ENS + ["result.parallelizable == parallelizable", "result._identifier == identifier"],
             trusted_reason="RunTaskExecutable.__init__: Operation.__init__ (state, fresh empty edge lists) + field assignments; main_task/parallelizable getters return them"),
    Contract("ext::CombineOutputs", returns="CombineOutputs", fresh_result=True,
             params={"initial_state": "Enum[OperationState]", "task": "TaskType", "identifier": "TaskIdentifier", "output_path": "Val[Path]",
                     "deps_output_paths": "List[Tuple[TaskIdentifier,Val[Path]]]#cdops"},
             ensures=OPCTOR_ENS + ["not result.parallelizable", "seq_len(result._deps_output_paths) == seq_len(deps_output_paths)",
                                   "forall(q, 'int', implies(0 <= q and q < seq_len(deps_output_paths), select(result._deps_output_paths, q) == select(deps_output_paths, q)))"],
             trusted_reason="CombineOutputs.__init__ stores the pairs it is given"),
    Contract("ext::NoOp", returns="NoOp", fresh_result=True,
             params={"initial_state": "Enum[OperationState]", "identifier": "TaskIdentifier", "task": "TaskType"},
             ensures=OPCTOR_ENS + ["not result.parallelizable"], trusted_reason="NoOp.__init__"),

    # ------------------------------------------------------------------ task_types/base.py: what COND_DEPS is built from (C07)
    Contract("task_types/base.py::TaskType.get_deps_output_paths", params={"ctx": "Context"}, returns="List[Val[Path]]#dop", props=["C07"], fresh_result=True,
             prefer_ext={"TaskIndex.get_task": "TaskIndex.get_task(planner)", "TaskType.get_output_path": "TaskType.get_output_path(planner)",
                         "RunExperiment.get_output_path": "TaskType.get_output_path(planner)"},
             locals={"deps_output_paths": "List[Val[Path]]#dop"},
             requires=[C("dependencies_are_loaded", "self._deps == Deps(self._identifier) and forall(j, 'int', implies(0 <= j and j < seq_len(self._deps),"
                                                    " Reach(select(self._deps, j)) and TaskOf(select(self._deps, j))._identifier == select(self._deps, j)))")],
             modifies=["$alloc", "RunExperiment._did_retrieve_version", "RunExperiment._most_relevant_version", "g_dop_pos", "g_dop_src"],
             ensures=[C("every_dependency_that_has_an_output_directory_is_listed",
                        "forall(m, 'int', implies(0 <= m and m < seq_len(self._deps) and OutPath(select(self._deps, m)) is not None,"
                        " 0 <= select(g_dop_pos, m) and select(g_dop_pos, m) < seq_len(result) and select(result, select(g_dop_pos, m)) == some(OutPath(select(self._deps, m)))))", "C07"),
                      C("nothing_else_is_listed_and_the_declared_order_is_kept",
                        "forall(q, 'int', implies(0 <= q and q < seq_len(result), 0 <= select(g_dop_src, q) and select(g_dop_src, q) < seq_len(self._deps)"
                        " and OutPath(select(self._deps, select(g_dop_src, q))) is not None and select(result, q) == some(OutPath(select(self._deps, select(g_dop_src, q))))))"
                        " and forall(q, 'int', forall(r, 'int', implies(0 <= q and q < r and r < seq_len(result), select(g_dop_src, q) < select(g_dop_src, r))))", "C07")],
             raises={"RuntimeError": []},
             loops={0: Loop(header="for dep_identifier in self.deps:", index="c",
                            modifies=["list@deps_output_paths", "RunExperiment._did_retrieve_version", "RunExperiment._most_relevant_version", "g_dop_pos", "g_dop_src"],
                            invariant=[
                                C("listed_so_far", "forall(m, 'int', implies(0 <= m and m < c and OutPath(select(self._deps, m)) is not None,"
                                                   " 0 <= select(g_dop_pos, m) and select(g_dop_pos, m) < seq_len(deps_output_paths) and select(deps_output_paths, select(g_dop_pos, m)) == some(OutPath(select(self._deps, m)))))"),
                                C("only_dependencies_in_order", "forall(q, 'int', implies(0 <= q and q < seq_len(deps_output_paths), 0 <= select(g_dop_src, q) and select(g_dop_src, q) < c"
                                                                " and OutPath(select(self._deps, select(g_dop_src, q))) is not None and select(deps_output_paths, q) == some(OutPath(select(self._deps, select(g_dop_src, q))))))"
                                                                " and forall(q, 'int', forall(r, 'int', implies(0 <= q and q < r and r < seq_len(deps_output_paths), select(g_dop_src, q) < select(g_dop_src, r))))"),
                            ])},
             ghost=[Ghost("g_dop_pos = store(g_dop_pos, c, len(deps_output_paths))\ng_dop_src = store(g_dop_src, len(deps_output_paths), c)",
                          before="deps_output_paths.append(path)")]),

    # ------------------------------------------------------------------ create_plan_for
    Contract(F + "::ExecutionPlanner.create_plan_for", params={"task_id": "TaskIdentifier", "run_again": "bool", "at_least_commit": "Opt[str]"},
             returns="ExecutionPlan", props=["C02", "C01"], fresh_result=True,
             prefer_ext={"TaskIndex.get_task": "TaskIndex.get_task(planner)", "TaskType.should_run": "TaskType.should_run(planner)",
                         "RunExperiment.create_new_version": "RunExperiment.create_new_version(planner)",
                         "TaskType.get_output_path": "TaskType.get_output_path(planner)", "RunExperiment.get_output_path": "TaskType.get_output_path(planner)",
                         "TaskType.get_working_path": "TaskType.get_working_path(planner)", "RunExperiment.get_working_path": "TaskType.get_working_path(planner)",
                         "RunCommand.get_working_path": "TaskType.get_working_path(planner)", "_RunSubprocess.get_working_path": "TaskType.get_working_path(planner)",
                         "TaskType.get_deps_output_paths": "TaskType.get_deps_output_paths(planner)", "RunExperiment.get_deps_output_paths": "TaskType.get_deps_output_paths(planner)",
                         "RunCommand.get_deps_output_paths": "TaskType.get_deps_output_paths(planner)", "_RunSubprocess.get_deps_output_paths": "TaskType.get_deps_output_paths(planner)"},
             locals={"all_ops": "List[Operation]#allops", "initial_operations": "List[Operation]#initops", "cached_tasks": "List[TaskType]#cached",
                     "stack": "List[LoweringTask]#pstk", "visited": "Dict[TaskIdentifier,LoweringTask]#pvis", "new_op": "Operation",
                     "dep_output_paths": "List[Tuple[TaskIdentifier,Val[Path]]]#cdops"},
             requires=[
                 C("closure_loaded_and_acyclic", "Reach(task_id) and forall(t, 'TaskIdentifier', implies(Reach(t), TaskOf(t)._identifier == t and TaskOf(t)._deps == Deps(t) and"
                                                 " forall(j, 'int', implies(0 <= j and j < seq_len(Deps(t)), Reach(select(Deps(t), j)) and Rk(select(Deps(t), j)) < Rk(t)))))"),
                 C("no_decision_taken_yet", "forall(t, 'TaskIdentifier', not (t in g_sr_called))"),
                 C("no_lowering_entry_yet", "forall(a, 'LoweringTask', not a.g_mine)"),
                 C("no_operation_belongs_to_a_plan_yet", "forall(o, 'Operation', not o.g_inplan)"),
                 C("dependencies_listed_once", "forall(t, 'TaskIdentifier', implies(Reach(t), forall(i, 'int', forall(k, 'int',"
                                               " implies(0 <= i and i < k and k < seq_len(Deps(t)), select(Deps(t), i) != select(Deps(t), k))))))"),
                 C("ghost_state_pristine", "forall(o, 'Operation', not o.g_started and o.g_phase == 0 and o.g_marks == const_arr('Arr[int,bool]', False) and o.g_last is None)"),
             ],
             modifies=LOOP0_MOD,
             ensures=[
                 C("each_task_is_lowered_at_most_once",
                   "forall(i, 'int', forall(k, 'int', implies(0 <= i and i < k and k < seq_len(result.all_ops),"
                   " select(result.all_ops, i).g_tid != select(result.all_ops, k).g_tid and select(result.all_ops, i) != select(result.all_ops, k))))", "C02", "C09"),
                 C("only_tasks_of_the_closure_that_are_not_served_from_the_cache_are_lowered",
                   "forall(i, 'int', implies(0 <= i and i < seq_len(result.all_ops), Reach(select(result.all_ops, i).g_tid)"
                   " and (run_again or ShouldRun(select(result.all_ops, i).g_tid))))", "C02"),
                 C("cached_tasks_are_not_executed",
                   "forall(i, 'int', implies(0 <= i and i < seq_len(result.cached_tasks), not run_again and not ShouldRun(select(result.cached_tasks, i)._identifier)"
                   " and forall(k, 'int', implies(0 <= k and k < seq_len(result.all_ops), select(result.all_ops, k).g_tid != select(result.cached_tasks, i)._identifier))))", "C02"),
                 C("progress_total_is_the_number_of_operations", "result.num_tasks_to_run == seq_len(result.all_ops)", "C02", "C09"),
                 C("the_requested_task_is_lowered_or_cached",
                   "(not run_again and not ShouldRun(task_id)) or exists(i, 'int', 0 <= i and i < seq_len(result.all_ops) and select(result.all_ops, i).g_tid == task_id)", "C02"),
                 C("every_dependency_of_a_lowered_task_is_lowered_or_cached",
                   "forall(i, 'int', implies(0 <= i and i < seq_len(result.all_ops), forall(j, 'int', implies(0 <= j and j < seq_len(Deps(select(result.all_ops, i).g_tid)),"
                   " (not run_again and not ShouldRun(select(Deps(select(result.all_ops, i).g_tid), j))) or"
                   " exists(k, 'int', 0 <= k and k < seq_len(result.all_ops) and select(result.all_ops, k).g_tid == select(Deps(select(result.all_ops, i).g_tid), j))))))", "C02"),
                 C("the_operation_of_an_executed_dependency_is_an_execution_dependency",
                   "forall(i, 'int', forall(k, 'int', forall(j, 'int', implies(0 <= i and i < seq_len(result.all_ops) and 0 <= k and k < seq_len(result.all_ops)"
                   " and 0 <= j and j < seq_len(Deps(select(result.all_ops, i).g_tid)) and select(Deps(select(result.all_ops, i).g_tid), j) == select(result.all_ops, k).g_tid,"
                   " select(result.all_ops, k) in select(result.all_ops, i)._exe_deps))))", "C01"),
                 C("plan_ops_marked", "all(x.g_inplan for x in result.all_ops) and"
                                      " forall(o, 'Operation', implies(o.g_inplan, exists(i, 'int', 0 <= i and i < seq_len(result.all_ops) and select(result.all_ops, i) == o)))", "C01", "C02",
                   needs=["operations", "inplan_operations_are_listed"]),
                 C("plan_well_formed", "forall(o, 'Operation', implies(o.g_inplan, edges_wf(o) and o._state == OperationState.QUEUED and not o.g_started"
                                       " and o.main_task is not None))", "C01", "C02", needs=["plan_well_formed", "inplan_operations_are_listed"]),
                 C("ghost_initial", "forall(o, 'Operation', implies(o.g_inplan, o.g_phase == 0 and o.g_marks == const_arr('Arr[int,bool]', False)))", "C01", "C02",
                   needs=["plan_well_formed", "inplan_operations_are_listed"]),
                 C("initial_ops_are_the_ops_without_dependencies",
                   "all(x.g_inplan and seq_len(x._exe_deps) == 0 for x in result.initial_ops) and"
                   " forall(i, 'int', forall(k, 'int', implies(0 <= i and i < k and k < seq_len(result.initial_ops), select(result.initial_ops, i) != select(result.initial_ops, k)))) and"
                   " forall(o, 'Operation', implies(o.g_inplan and seq_len(o._exe_deps) == 0, o in result.initial_ops))", "C01", "C02",
                   needs=["initial_operations", "inplan_operations_are_listed"]),
             ],
             raises={"RuntimeError": [], "NotImplementedError": []},
             inline=["LoweringTask.initial", "add_exe_dep", "add_dep_of"],
             # ---- exactly the preconditions of Executor.run_plan (contracts/executor.py): A-PLAN is a theorem here
             loops={
                 0: Loop(header="while len(stack) > 0:", modifies=LOOP0_MOD,
                         invariant=[
                             C("canonical_entries", "vis_inv()", needs=["stack_entries", "objects_own_their_lists", "operations", "closure_loaded_and_acyclic", "this_entry", "stack_prefix_kept",
                                                                           "entries_below_keep_their_invariant", "new_entries_are_fresh_first_visits", "new_operation", "stack_entries_are_distinct_objects"]),
                             C("operations", "ops_inv2()"),
                             C("edges", "edges_inv()", needs=['canonical_entries', 'operations', 'objects_own_their_lists', 'stack_entries', 'this_entry', 'stack_prefix_kept', 'hooked_so_far', 'this_dependency', 'closure_loaded_and_acyclic']),
                             C("stack_entries", "stack_inv()", needs=['stack_entries_are_distinct_objects', 'ranks_decrease_upwards', 'canonical_entries', 'objects_own_their_lists', 'closure_loaded_and_acyclic', 'entries_below_keep_their_invariant', 'deps_prefix', 'new_entries_are_fresh_first_visits', 'this_entry', 'stack_prefix_kept']),
                             C("stack_entries_are_distinct_objects", "stack_distinct()"),
                             C("ranks_decrease_upwards", "rank_inv()"),
                             C("dependencies_finished_or_pending_above", "k_inv()", needs=['stack_entries', 'stack_entries_are_distinct_objects', 'ranks_decrease_upwards', 'open_entries_are_on_the_stack', 'canonical_entries', 'closure_loaded_and_acyclic', 'entries_below_keep_their_pending_dependencies', 'processed_deps_finished_or_pushed', 'stack_prefix_kept', 'this_entry', 'new_entries_are_fresh_first_visits']),
                             C("open_entries_are_on_the_stack", "open_only_on_stack()"),
                             C("objects_own_their_lists", "lists_owned()"),
                             C("cached", "cached_inv()"),
                             C("inplan_operations_are_listed", "inplan_listed()", needs=["operations", "new_operation"]),
                             C("plan_well_formed", "plan_wf()", needs=["operations", "inplan_operations_are_listed", "plan_lists_are_owned", "hooking_edges", "hooking_distinct", "hooking_exe_deps", "hooking_fields", "hooking_last", "new_operation", "canonical_entries", "ghost_state_pristine"]),
                             C("plan_lists_are_owned", "plan_lists_owned()", needs=["operations", "plan_well_formed", "new_operation"]),
                             C("initial_operations", "init_wf()", needs=["operations", "plan_well_formed", "plan_lists_are_owned", "inplan_operations_are_listed", "new_operation", "hooking_fields", "hooking_exe_deps"]),
                             C("operations_outside_the_plan_have_no_dependent_recorded", "forall(o, 'Operation', implies(not o.g_inplan, o.g_last is None))", needs=[]),
                             C("count", "num_tasks_to_run == seq_len(all_ops)"),
                             C("root", "(task_id in visited) or (seq_len(stack) == 1 and lid(select(stack, 0)) == task_id)"),
                             C("decisions", "run_again or forall(t, 'TaskIdentifier', (t in g_sr_called) == (t in visited))"),
                         ]),
                 1: Loop(header="for dep_ident in reversed(lt.task.deps):", index="k",
                         modifies=["list@stack", "list@lt.deps", "$alloc", "new:LoweringTask.state", "new:LoweringTask.g_ph", "new:LoweringTask.g_mine", "new:LoweringTask.task",
                                   "new:LoweringTask.deps", "new:LoweringTask.output_ops", "new@ltdeps", "new@ltops"],
                         invariant=[
                             C("deps_prefix", "seq_len(lt.deps) == k and forall(m, 'int', implies(0 <= m and m < k,"
                                              " lid(select(lt.deps, m)) == select(Deps(lid(lt)), seq_len(Deps(lid(lt))) - 1 - m) and select(lt.deps, m).g_mine))", needs=['objects_own_their_lists', 'this_entry', 'canonical_entries', 'closure_loaded_and_acyclic']),
                             C("stack_prefix_kept", "seq_len(stack) >= at_loop(seq_len(stack)) and forall(p, 'int', implies(0 <= p and p < at_loop(seq_len(stack)),"
                                                    " select(stack, p) == at_loop(select(stack, p))))"),
                             C("new_entries_are_fresh_first_visits",
                               "forall(p, 'int', implies(at_loop(seq_len(stack)) <= p and p < seq_len(stack), select(stack, p).g_mine"
                               " and select(stack, p).g_ph == 0 and select(stack, p).state == LoweringState.FIRST_VISIT"
                               " and select(stack, p).task == TaskOf(lid(select(stack, p))) and Reach(lid(select(stack, p)))"
                               " and seq_len(select(stack, p).deps) == 0 and seq_len(select(stack, p).output_ops) == 0"
                               " and Rk(lid(select(stack, p))) < Rk(lid(lt))))", needs=['stack_prefix_kept', 'this_entry', 'objects_own_their_lists', 'closure_loaded_and_acyclic']),
                             C("entries_below_keep_their_invariant", "stack_inv_upto(at_loop(seq_len(stack)) - 1)", needs=['objects_own_their_lists', 'stack_prefix_kept', 'this_entry', 'stack_entries_are_distinct_objects']),
                             C("entries_below_keep_their_ranks", "rank_inv_upto(at_loop(seq_len(stack)))"),
                             C("entries_below_keep_their_pending_dependencies", "k_inv_upto(at_loop(seq_len(stack)) - 1)", needs=['stack_prefix_kept', 'this_entry', 'canonical_entries', 'objects_own_their_lists', 'entries_below_keep_their_invariant', 'new_entries_are_fresh_first_visits']),
                             C("stack_entries_are_distinct_objects", "stack_distinct()"),
                             C("open_entries_have_a_greater_rank", "forall(t, 'TaskIdentifier', implies((t in visited) and visited[t].g_ph == 1 and t != lid(lt), Rk(lid(lt)) < Rk(t)))",
                               needs=["canonical_entries", "this_entry", "objects_own_their_lists"]),
                             C("this_entry", "at_loop(seq_len(stack)) >= 1 and select(stack, at_loop(seq_len(stack)) - 1) == lt and lt.g_ph == 1 and lt.g_mine"
                                             " and lt.state == LoweringState.SECOND_VISIT and (lid(lt) in visited) and visited[lid(lt)] == lt and seq_len(lt.output_ops) == 0"),
                             C("processed_deps_finished_or_pushed",
                               "forall(j, 'int', implies(0 <= j and j < seq_len(Deps(lid(lt))) and seq_len(Deps(lid(lt))) - 1 - j < k, finished(select(Deps(lid(lt)), j)) or"
                               " exists(q, 'int', at_loop(seq_len(stack)) <= q and q < seq_len(stack) and lid(select(stack, q)) == select(Deps(lid(lt)), j))))", needs=['stack_prefix_kept', 'this_entry', 'canonical_entries', 'objects_own_their_lists', 'new_entries_are_fresh_first_visits', 'entries_below_keep_their_invariant', 'closure_loaded_and_acyclic', 'open_entries_have_a_greater_rank']),
                             C("objects_own_their_lists", "lists_owned()"),
                         ]),
                 2: Loop(header="for task_dep_id in lt.task.deps:", index="c",
                         modifies=["list@dep_output_paths", "RunExperiment._did_retrieve_version", "RunExperiment._most_relevant_version"],
                         invariant=[
                             # g_pos[m] = where dependency m was listed, g_src[q] = the dependency entry q came from (ghost witnesses)
                             C("every_processed_dependency_with_an_output_directory_is_listed",
                               "forall(m, 'int', implies(0 <= m and m < c and OutPath(select(Deps(lid(lt)), m)) is not None,"
                               " 0 <= select(g_pos, m) and select(g_pos, m) < seq_len(dep_output_paths) and select(dep_output_paths, select(g_pos, m))[0] == select(Deps(lid(lt)), m)"
                               " and select(dep_output_paths, select(g_pos, m))[1] == some(OutPath(select(Deps(lid(lt)), m)))))", "C18", "C02"),
                             C("nothing_else_is_listed",
                               "forall(q, 'int', implies(0 <= q and q < seq_len(dep_output_paths), 0 <= select(g_src, q) and select(g_src, q) < c"
                               " and select(dep_output_paths, q)[0] == select(Deps(lid(lt)), select(g_src, q))"
                               " and OutPath(select(Deps(lid(lt)), select(g_src, q))) is not None and select(dep_output_paths, q)[1] == some(OutPath(select(Deps(lid(lt)), select(g_src, q))))))", "C18", "C02"),
                         ]),
                 3: Loop(header="for dep in lt.deps:", index="a",
                         modifies=["list@new_op._exe_deps", "region:depsof", "Operation.g_back", "Operation.g_last", "Operation.g_dpos"],
                         invariant=[
                             # dependency j of the task is entry (n-1-j) of lt.deps: hooked once that entry has been processed
                             C("hooked_so_far", "forall(j, 'int', implies(0 <= j and j < seq_len(Deps(lid(lt))) and seq_len(Deps(lid(lt))) - 1 - j < a"
                                                " and visited[select(Deps(lid(lt)), j)].g_ph == 2, opof(select(Deps(lid(lt)), j)) in new_op._exe_deps))", needs=["canonical_entries", "this_dependency", "hooked_so_far", "stack_entries", "objects_own_their_lists"]),
                             C("hooking_edges", "hook_c1(new_op)", needs=["operations", "plan_lists_are_owned", "new_operation", "canonical_entries", "inplan_operations_are_listed", "hooking_edges", "hooking_distinct", "hooking_exe_deps", "hooking_fields", "hooking_last", "dependencies_listed_once", "closure_loaded_and_acyclic"]),
                             C("hooking_distinct", "hook_c2()", needs=["operations", "plan_lists_are_owned", "new_operation", "canonical_entries", "inplan_operations_are_listed", "hooking_edges", "hooking_distinct", "hooking_exe_deps", "hooking_fields", "hooking_last", "dependencies_listed_once", "closure_loaded_and_acyclic"]),
                             C("hooking_exe_deps", "hook_c3()", needs=["operations", "plan_lists_are_owned", "new_operation", "canonical_entries", "inplan_operations_are_listed", "hooking_edges", "hooking_distinct", "hooking_exe_deps", "hooking_fields", "hooking_last", "dependencies_listed_once", "closure_loaded_and_acyclic"]),
                             C("hooking_fields", "hook_fields()", needs=["operations", "new_operation", "hooking_fields"]),
                             C("hooking_last", "hook_last(new_op, a)", needs=["operations", "plan_lists_are_owned", "new_operation", "canonical_entries", "inplan_operations_are_listed", "hooking_edges", "hooking_distinct", "hooking_exe_deps", "hooking_fields", "hooking_last", "dependencies_listed_once", "closure_loaded_and_acyclic"]),
                             C("new_operation", "not new_op.g_inplan and new_op.g_last is None and seq_len(new_op._deps_of) == 0 and allocated(new_op._exe_deps) and allocated(new_op._deps_of) and op_fields_ok(new_op) and forall(j, 'int', implies(0 <= j and j < seq_len(new_op._exe_deps), select(new_op._exe_deps, j).g_inplan)) and forall(i, 'int', implies(0 <= i and i < seq_len(all_ops), select(all_ops, i)._exe_deps != new_op._exe_deps and select(all_ops, i)._deps_of != new_op._deps_of and select(all_ops, i) != new_op))", needs=["operations", "hooking_exe_deps", "hooking_fields", "canonical_entries", "inplan_operations_are_listed"]),
                             C("plan_lists_are_owned", "plan_lists_owned()", needs=[]),
                             C("operations_outside_the_plan_have_no_dependent_recorded", "forall(o, 'Operation', implies(not o.g_inplan, o.g_last is None))", needs=["canonical_entries", "operations"]),
                         ]),
                 4: Loop(header="for dep_op in visited[dep.task.identifier].output_ops:", index="b",
                         modifies=["list@new_op._exe_deps", "region:depsof", "Operation.g_back", "Operation.g_last", "Operation.g_dpos"],
                         invariant=[
                             C("hooked_so_far", "forall(j, 'int', implies(0 <= j and j < seq_len(Deps(lid(lt))) and seq_len(Deps(lid(lt))) - 1 - j < a"
                                                " and visited[select(Deps(lid(lt)), j)].g_ph == 2, opof(select(Deps(lid(lt)), j)) in new_op._exe_deps))", needs=["canonical_entries", "this_dependency", "hooked_so_far", "stack_entries", "objects_own_their_lists"]),
                             C("this_dependency", "implies(b >= 1, select(visited[lid(dep)].output_ops, 0) in new_op._exe_deps)", needs=["canonical_entries"]),
                             C("hooking_edges", "hook_c1(new_op)", needs=["operations", "plan_lists_are_owned", "new_operation", "canonical_entries", "inplan_operations_are_listed", "hooking_edges", "hooking_distinct", "hooking_exe_deps", "hooking_fields", "hooking_last", "dependencies_listed_once", "closure_loaded_and_acyclic", "this_dependency"]),
                             C("hooking_distinct", "hook_c2()", needs=["operations", "plan_lists_are_owned", "new_operation", "canonical_entries", "inplan_operations_are_listed", "hooking_edges", "hooking_distinct", "hooking_exe_deps", "hooking_fields", "hooking_last", "dependencies_listed_once", "closure_loaded_and_acyclic", "this_dependency"]),
                             C("hooking_exe_deps", "hook_c3()", needs=["operations", "plan_lists_are_owned", "new_operation", "canonical_entries", "inplan_operations_are_listed", "hooking_edges", "hooking_distinct", "hooking_exe_deps", "hooking_fields", "hooking_last", "dependencies_listed_once", "closure_loaded_and_acyclic", "this_dependency"]),
                             C("hooking_fields", "hook_fields()", needs=["operations", "new_operation", "hooking_fields"]),
                             C("hooking_last", "hook_last(new_op, a + ite(b >= 1, 1, 0))", needs=["operations", "plan_lists_are_owned", "new_operation", "canonical_entries", "inplan_operations_are_listed", "hooking_edges", "hooking_distinct", "hooking_exe_deps", "hooking_fields", "hooking_last", "dependencies_listed_once", "closure_loaded_and_acyclic", "this_dependency"]),
                             C("new_operation", "not new_op.g_inplan and new_op.g_last is None and seq_len(new_op._deps_of) == 0 and allocated(new_op._exe_deps) and allocated(new_op._deps_of) and op_fields_ok(new_op) and forall(j, 'int', implies(0 <= j and j < seq_len(new_op._exe_deps), select(new_op._exe_deps, j).g_inplan)) and forall(i, 'int', implies(0 <= i and i < seq_len(all_ops), select(all_ops, i)._exe_deps != new_op._exe_deps and select(all_ops, i)._deps_of != new_op._deps_of and select(all_ops, i) != new_op))", needs=["operations", "hooking_exe_deps", "hooking_fields", "canonical_entries", "inplan_operations_are_listed"]),
                             C("plan_lists_are_owned", "plan_lists_owned()", needs=[]),
                             C("operations_outside_the_plan_have_no_dependent_recorded", "forall(o, 'Operation', implies(not o.g_inplan, o.g_last is None))", needs=["canonical_entries", "operations"]),
                         ]),
             },
             ghost=[
                 Ghost("root.g_ph = 0\nroot.g_mine = True", after="root = LoweringTask.initial(task_to_run)"),
                 Ghost("assert lt.g_mine and lt.task == TaskOf(lid(lt)) and Reach(lid(lt)) and (lt.g_ph == 0 or lt.g_ph == 1), 'hint_popped_entry'\n"
                       "assert TaskOf(lid(lt))._identifier == lid(lt) and TaskOf(lid(lt))._deps == Deps(lid(lt)) and lt.task._deps == Deps(lid(lt)), 'hint_popped_entry_task'\n"
                       "assert implies(lt.g_ph == 0, lt.state == LoweringState.FIRST_VISIT and seq_len(lt.deps) == 0 and seq_len(lt.output_ops) == 0), 'hint_new_entry'\n"
                       "assert implies(lt.g_ph == 1, lt.state == LoweringState.SECOND_VISIT and (lid(lt) in visited) and visited[lid(lt)] == lt and deps_match(lt)"
                       " and seq_len(lt.output_ops) == 0), 'hint_open_entry'\n"
                       "assert forall(p, 'int', implies(0 <= p and p < seq_len(stack), select(stack, p) != lt)),"
                       " 'hint_popped_entry_is_not_below | needs=stack_entries_are_distinct_objects'\n"
                       "assert forall(p, 'int', implies(0 <= p and p < seq_len(stack), select(stack, p).output_ops != lt.output_ops and select(stack, p).deps != lt.deps)),"
                       " 'hint_popped_entry_owns_its_lists | needs=objects_own_their_lists,stack_entries'\n"
                       "assert forall(t, 'TaskIdentifier', implies((t in visited) and visited[t] != lt, visited[t].output_ops != lt.output_ops and visited[t].deps != lt.deps)),"
                       " 'hint_popped_entry_owns_its_lists_among_canonical_entries | needs=objects_own_their_lists,canonical_entries'",
                       after="lt = stack.pop()"),
                 Ghost("assert dep_ident == select(Deps(lid(lt)), seq_len(Deps(lid(lt))) - 1 - k) and Reach(dep_ident) and TaskOf(dep_ident)._identifier == dep_ident"
                       " and Rk(dep_ident) < Rk(lid(lt)), 'hint_dependency'\n"
                       "assert allocated(lt) and allocated(lt.deps) and allocated(lt.output_ops), 'hint_entry_lists_allocated'",
                       before="if dep_ident in visited:"),
                 Ghost("assert visited[lid(lt)].g_ph >= 2, 'hint_revisited_entry_is_finished'", before="continue", occurrence=0),
                 Ghost("lt.g_ph = 3\nassert (lid(lt) in visited) and visited[lid(lt)] == lt and lt.g_ph == 3, 'hint_pruned_entry_is_finished'", after="cached_tasks.append(lt.task)"),
                 Ghost("lt.g_ph = 1", after="lt.state = LoweringState.SECOND_VISIT"),
                 Ghost("assert forall(t, 'TaskIdentifier', implies((t in visited) and visited[t].g_ph == 1 and t != lid(lt), Rk(lid(lt)) < Rk(t))),"
                       " 'hint_open_entries_have_a_greater_rank | needs=open_entries_are_on_the_stack,ranks_decrease_upwards,stack_entries,canonical_entries,stack_entries_are_distinct_objects,closure_loaded_and_acyclic'",
                       after="stack.append(lt)"),
                 Ghost("dep.g_ph = 0\ndep.g_mine = True", after="dep = LoweringTask.initial(self._ctx.task_index.get_task(dep_ident))"),
                 # C18: what the combine operation is given
                 Ghost("g_pos = const_arr('Arr[int,int]', 0)\ng_src = const_arr('Arr[int,int]', 0)", before="for task_dep_id in lt.task.deps:"),
                 Ghost("assert task_dep_id == select(Deps(lid(lt)), c) and Reach(task_dep_id) and TaskOf(task_dep_id)._identifier == task_dep_id, 'hint_combine_dependency | props=C18,C02'",
                       before="task = self._ctx.task_index.get_task(task_dep_id)", optional=True),
                 Ghost("g_pos = store(g_pos, c, len(dep_output_paths))\ng_src = store(g_src, len(dep_output_paths), c)",
                       before="dep_output_paths.append((task_dep_id, task_output_path))"),
                 Ghost("assert forall(m, 'int', implies(0 <= m and m < seq_len(Deps(lid(lt))) and OutPath(select(Deps(lid(lt)), m)) is not None,"
                       " 0 <= select(g_pos, m) and select(g_pos, m) < seq_len(dep_output_paths) and select(dep_output_paths, select(g_pos, m))[0] == select(Deps(lid(lt)), m)"
                       " and select(dep_output_paths, select(g_pos, m))[1] == some(OutPath(select(Deps(lid(lt)), m))))),"
                       " 'combine_is_given_the_output_directory_of_every_dependency_that_has_one | props=C18,C02'\n"
                       "assert forall(q, 'int', implies(0 <= q and q < seq_len(dep_output_paths), 0 <= select(g_src, q) and select(g_src, q) < seq_len(Deps(lid(lt)))"
                       " and select(dep_output_paths, q)[0] == select(Deps(lid(lt)), select(g_src, q)))), 'combine_is_given_nothing_but_its_dependencies | props=C18,C02'",
                       before="new_op = CombineOutputs(...", optional=True),
                 Ghost("assert forall(j, 'int', implies(0 <= j and j < seq_len(Deps(lid(lt))), finished(select(Deps(lid(lt)), j)) and"
                       " implies(visited[select(Deps(lid(lt)), j)].g_ph == 2, opof(select(Deps(lid(lt)), j)) in new_op._exe_deps))), 'hint_all_dependencies_hooked'\n"
                       "assert forall(t, 'TaskIdentifier', implies((t in visited) and visited[t].g_ph == 2, opof(t) != new_op and opof(t)._exe_deps != new_op._exe_deps"
                       " and visited[t] != lt and visited[t].output_ops != lt.output_ops)),"
                       " 'hint_new_operation_is_separate | needs=canonical_entries,operations,objects_own_their_lists,stack_entries'\n"
                       "assert edges_inv(), 'hint_edges_of_finished_entries_unchanged | needs=edges,canonical_entries,operations,objects_own_their_lists'",
                       before="lt.output_ops.append(new_op)"),
                 Ghost("new_op.g_tid = lt.task._identifier\nnew_op.g_inplan = True\nnew_op.g_idx = len(all_ops)\nlt.g_ph = 2\n"
                       "assert forall(i, 'int', implies(0 <= i and i < seq_len(all_ops), edges_wf(select(all_ops, i)))),"
                       " 'hint_listed_operations_have_well_formed_edges | needs=hooking_edges,hooking_distinct,hooking_exe_deps'\n"
                       "assert forall(i, 'int', implies(0 <= i and i < seq_len(all_ops), op_fields_ok(select(all_ops, i))"
                       " and (select(all_ops, i).g_last is None or some(select(all_ops, i).g_last).g_inplan))),"
                       " 'hint_listed_operations_keep_their_fields | needs=hooking_fields,hooking_last'\n"
                       "assert edges_wf(new_op) and op_fields_ok(new_op) and (new_op.g_last is None or some(new_op.g_last).g_inplan),"
                       " 'hint_new_operation_is_well_formed | needs=new_operation,ghost_state_pristine'",
                       after="lt.output_ops.append(new_op)"),
                 Ghost("assert (lid(dep) in visited) and visited[lid(dep)].g_ph == 2 and dep_op == opof(lid(dep)) and dep_op.g_inplan and dep_op.g_tid == lid(dep)"
                       " and 0 <= dep_op.g_idx and dep_op.g_idx < seq_len(all_ops) and select(all_ops, dep_op.g_idx) == dep_op and dep_op != new_op"
                       " and lid(dep) == select(Deps(lid(lt)), seq_len(Deps(lid(lt))) - 1 - a), 'hint_dependency_operation'\n"
                       "assert b == 0, 'hint_single_output_operation | needs=canonical_entries'\n"
                       "assert implies(select(all_ops, dep_op.g_idx).g_last == new_op, 0 <= dep_op.g_dpos and dep_op.g_dpos < seq_len(Deps(lid(lt)))"
                       " and seq_len(Deps(lid(lt))) - 1 - dep_op.g_dpos < a and dep_op.g_tid == select(Deps(lid(lt)), dep_op.g_dpos)),"
                       " 'hint_if_hooked_then_for_an_earlier_dependency | needs=hooking_last'\n"
                       "assert 0 <= a and a < seq_len(Deps(lid(lt))) and seq_len(lt.deps) == seq_len(Deps(lid(lt))), 'hint_a_in_range'\n"
                       "assert Reach(lid(lt)), 'hint_reach'\n"
                       "assert implies(0 <= dep_op.g_dpos and dep_op.g_dpos < seq_len(Deps(lid(lt))) and dep_op.g_dpos != seq_len(Deps(lid(lt))) - 1 - a,"
                       " select(Deps(lid(lt)), dep_op.g_dpos) != select(Deps(lid(lt)), seq_len(Deps(lid(lt))) - 1 - a)),"
                       " 'hint_dependencies_are_listed_once | needs=dependencies_listed_once'\n"
                       "assert dep_op.g_last is None or some(dep_op.g_last) != new_op,"
                       " 'hint_dependency_operation_not_hooked_yet | needs=hooking_last'\n"
                       "assert dep_op._deps_of != new_op._deps_of and dep_op._exe_deps != new_op._exe_deps and allocated(dep_op._deps_of), 'hint_dependency_operation_lists'",
                       before="new_op.add_exe_dep(dep_op)"),
                 Ghost("dep_op.g_back = store(dep_op.g_back, len(dep_op._deps_of) - 1, len(new_op._exe_deps) - 1)\ndep_op.g_last = new_op\n"
                       "dep_op.g_dpos = seq_len(Deps(lid(lt))) - 1 - a", after="dep_op.add_dep_of(new_op)"),
                 Ghost("new_op.g_iidx = len(initial_operations)", before="initial_operations.append(new_op)"),
             ]),
]
