"""Sidecar contracts for geoffxy/conductor (nothing under /repo is edited)."""
