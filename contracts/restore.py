"""cli/restore.py -- C12 (restore is all-or-nothing and never overwrites), C11 (what is restored), C06 (the index
never outlives its data), C08 (recorded directories are never written).

Ghost transaction state of the project's version index: g_idx_pending (uncommitted changes exist),
g_idx_commits (number of commits).  The property is stated as
  * every exit by ANY exception (bare `except:`) leaves g_idx_pending False and g_idx_commits unchanged;
  * the only commit happens after every listed directory has been copied (call-site precondition of
    commit_changes, evaluated on real state: loop index == number of rows);
  * copytree is only ever called on a destination that does not exist (its precondition: it raises otherwise),
    rmtree only on the staging directory.
"""
from pyvc.contract import ClassDecl, Contract, Logic, Lemma, C, Loop, Ghost

F = "cli/restore.py"

CLASSES = [
    ClassDecl("ArchiveFileInvalid", exception=True, bases=["ConductorError"]),
    ClassDecl("DuplicateTaskOutput", exception=True, bases=["ConductorError"]),
    ClassDecl("IntegrityError", exception=True, bases=["Exception"]),
    ClassDecl("Namespace", fields={"archive_file": "str", "output": "Opt[str]", "latest": "bool"}),
    ClassDecl("ArchivePopen", fields={"returncode": "int"}),
]

LOGIC = Logic(
    funcs={"IsFile": (["Val[Path]"], "bool"), "ArchRows": (["VersionIndex"], "Seq[Tuple[TaskIdentifier,Version]]"),
           "PathOfStr": (["str"], "Val[Path]")},
    globals={"g_tar": "ArchivePopen", "g_idx_pending": "bool", "g_idx_commits": "int", "g_restore_ready": "bool", "g_in_restore": "bool",
             "g_staging": "Val[Path]", "g_copied": "Set[Val[Path]]#copied"},
)

CONTRACTS = [
    # ------------------------------------------------------------------ assumed: fs / sqlite / tar
    Contract("ext::Path.is_file", returns="bool", ensures=["result == IsFile(self)"], trusted_reason="A-LIB"),
    Contract("ext::pathlib.Path(Path,Path,str)", params={"a": "Val[Path]", "b": "Val[Path]", "c": "str"}, returns="Val[Path]",
             ensures=["result == Path_join(Path_joinp(a, b), c)"], trusted_reason="pathlib.Path(a, b, 'name')"),
    Contract("ext::shutil.rmtree", params={"path": "Val[Path]"}, varargs=True,
             requires=[C("only_the_staging_directory_is_removed", "implies(g_in_restore, path == g_staging)", "C12", "C08")],
             modifies=["g_dirs", "g_entries"],
             ensures=["forall(d, 'Val[Path]', implies(old(d in g_dirs) and d != path and not IsUnder(d, path), d in g_dirs))"],
             trusted_reason="A-LIB: rmtree(ignore_errors=True) removes only `path` and what is below it"),
    Contract("ext::shutil.copytree", params={"src": "Val[Path]", "dst": "Val[Path]", "dirs_exist_ok": "bool"}, defaults={"dirs_exist_ok": "False"},
             requires=[C("never_copies_over_an_existing_directory", "not dirs_exist_ok", "C12", "C08")],
             modifies=["g_dirs", "g_entries", "g_copied"],
             ensures=["not old(dst in g_entries)", "dst in g_dirs", "dst in g_copied",
                      "forall(d, 'Val[Path]', implies(old(d in g_dirs), d in g_dirs))", "forall(d, 'Val[Path]', implies(old(d in g_copied), d in g_copied))"],
             raises={"OSError+": ["unchanged('region:copied')", "forall(d, 'Val[Path]', implies(old(d in g_dirs), d in g_dirs))"],
                     "Exception+": ["unchanged('region:copied')", "forall(d, 'Val[Path]', implies(old(d in g_dirs), d in g_dirs))"]},
             trusted_reason="A-LIB: shutil.copytree raises FileExistsError if dst exists, otherwise creates a byte-identical copy"),
    Contract("ext::shutil.move", params={"src": "str", "dst": "str"}, returns="str",
             requires=[C("never_moves_onto_an_existing_entry", "not (PathOfStr(dst) in g_entries)", "C12", "C08")],
             modifies=["g_dirs", "g_entries", "g_copied"],
             trusted_reason="A-LIB: shutil.move(src, dst) renames src to dst when dst does not exist and moves src INSIDE dst when dst is an existing "
                            "directory -- so it must never be given an existing destination where 'never overwrite / never merge' is promised"),
    Contract("execution/version_index.py::VersionIndex.create_or_load", params={"path": "Val[Path]"}, returns="VersionIndex", extern=True, fresh_result=True,
             raises={"Exception+": []}, trusted_reason="A-SQL: opens the sqlite file (raises on a corrupt file)"),
    Contract("execution/version_index.py::VersionIndex.copy_entries_to", params={"dest": "VersionIndex", "tasks": "Opt[List[TaskIdentifier]]", "latest_only": "bool"},
             returns="int", extern=True, modifies=["g_idx_pending"], ensures=["g_idx_pending"],
             raises={"IntegrityError": ["g_idx_pending"], "Exception+": []},
             trusted_reason="A-SQL: INSERTs the selected rows into dest inside its open transaction; a duplicate primary key raises IntegrityError"),
    Contract("execution/version_index.py::VersionIndex.get_all_versions", returns="Seq[Tuple[TaskIdentifier,Version]]", extern=True,
             ensures=["result == ArchRows(self)"], trusted_reason="A-SQL: all rows of the index"),
    Contract("ext::VersionIndex.rollback_changes(restore)", modifies=["g_idx_pending"], ensures=["not g_idx_pending"],
             trusted_reason="A-SQL: rollback discards the open transaction (no-op outside one)"),
    Contract("ext::VersionIndex.commit_changes(restore)", modifies=["g_idx_pending", "g_idx_commits"],
             requires=[C("commit_only_after_every_directory_was_copied", "g_restore_ready", "C12", "C06")],
             ensures=["not g_idx_pending", "g_idx_commits == old(g_idx_commits) + 1"],
             trusted_reason="A-SQL: commit is atomic (restore view of VersionIndex.commit_changes)"),
    Contract("ext::ArchivePopen.wait", trusted_reason="waits for tar"),
    Contract("ext::subprocess.Popen(tar)", params={"args": "List[str]", "shell": "bool"}, returns="ArchivePopen", fresh_result=True, modifies=["g_tar"],
             ensures=["g_tar == result"],
             raises={"OSError+": []}, trusted_reason="spawns tar (A-LIB: tar round-trips a directory tree; a truncated or corrupt archive makes tar exit non-zero)"),

    Contract(F + "::extract_archive", params={"archive_file": "Val[Path]", "staging_path": "Val[Path]"}, props=["C12", "C11"],
             prefer_ext={"subprocess.Popen": "subprocess.Popen(tar)"},
             modifies=["g_tar", "$alloc", "ConductorError.extra_context_set", "ConductorError.file_context_set"],
             raises={"ArchiveFileInvalid": []},
             # a restore goes on only with an archive that tar unpacked completely (corrupt / truncated archives end here)
             ensures=[C("only_a_completely_unpacked_archive_is_accepted", "g_tar.returncode == 0", "C12", "C11")]),

    Contract(F + "::main", params={"args": "Namespace"}, props=["C12", "C11", "C06", "C08"],
             prefer_ext={"VersionIndex.commit_changes": "VersionIndex.commit_changes(restore)", "VersionIndex.rollback_changes": "VersionIndex.rollback_changes(restore)"},
             locals={"archive_version_index": "Opt[VersionIndex]"},
             requires=[C("index_idle", "not g_idx_pending and not g_restore_ready and not g_in_restore")],
             modifies=["g_root_found", "g_tar", "g_idx_pending", "g_idx_commits", "g_restore_ready", "g_in_restore", "g_staging", "g_dirs", "g_entries", "g_copied", "$alloc",
                       "ConductorError.extra_context_set", "ConductorError.file_context_set"],
             ensures=[C("committed_exactly_once", "g_idx_commits == old(g_idx_commits) + 1 and not g_idx_pending", "C12"),
                      C("existing_directories_survive", "forall(d, 'Val[Path]', implies(old(d in g_dirs) and d != g_staging and not IsUnder(d, g_staging), d in g_dirs))", "C12", "C08")],
             raises={"BaseException+": [C("rolled_back_nothing_committed", "not g_idx_pending and g_idx_commits == old(g_idx_commits)", "C12", "C06"),
                                        C("existing_directories_survive", "implies(g_in_restore, forall(d, 'Val[Path]', implies(old(d in g_dirs) and d != g_staging and not IsUnder(d, g_staging), d in g_dirs)))", "C12", "C08")]},
             loops={0: Loop(header="for (task_id, version) in archive_version_index.get_all_versions():", index="k",
                            modifies=["g_dirs", "g_entries", "g_copied"],
                            invariant=[
                                C("in_transaction", "g_idx_pending and g_idx_commits == old(g_idx_commits) and g_in_restore and not g_restore_ready"),
                                C("copied_so_far", "forall(m, 'int', implies(0 <= m and m < k,"
                                                   " Path_join(Path_joinp(ctx._output_path, select(ArchRows(some(archive_version_index)), m)[0]._path),"
                                                   "   select(ArchRows(some(archive_version_index)), m)[0]._name + '.task.' + int_str(select(ArchRows(some(archive_version_index)), m)[1]._timestamp)) in g_copied))"),
                                C("existing_directories_survive", "forall(d, 'Val[Path]', implies(old(d in g_dirs) and d != g_staging and not IsUnder(d, g_staging), d in g_dirs))"),
                                C("index_open", "archive_version_index is not None"),
                            ])},
             ghost=[
                 Ghost("g_in_restore = True\ng_staging = staging_path", after="staging_path = ctx.output_path / ARCHIVE_STAGING"),
                 # evaluated on REAL state: the copy loop has run to completion
                 Ghost("g_restore_ready = (k == _n0)", before="call:commit_changes", optional=True),
             ]),
]
