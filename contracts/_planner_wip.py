"""execution/planning/planner.py -- C02 (each needed task is lowered exactly once, nothing else), C01 (edges to the
operations of every lowered dependency; plan well-formedness that the executor contracts rely on).

Ghost phase of a LoweringTask (g_ph): 0 NEW (pushed, not yet the canonical entry of its identifier),
1 OPEN (canonical, second visit pending, on the stack), 2 DONE (lowered to one operation), 3 PRUNED (cached).
Rk is an arbitrary rank of the (acyclic) closure: Rk(dep) < Rk(task) -- established by load_transitive_closure (C14).

Key invariant K: for every OPEN entry at stack position p and each of its dependencies d, either d is finished
(DONE / PRUNED) or some entry above p carries d.  With the entry on top (second visit) all its dependencies are
finished, so their operations exist and are final when the edges are hooked.
"""
from pyvc.contract import ClassDecl, Contract, Logic, Lemma, C, Loop, Ghost

F = "execution/planning/planner.py"

CLASSES = [
    ClassDecl("LoweringState", file="execution/planning/lowering.py"),
    ClassDecl("LoweringTask", file="execution/planning/lowering.py",
              fields={"task": "TaskType", "state": "Enum[LoweringState]", "deps": "List[LoweringTask]#ltdeps", "output_ops": "List[Operation]#ltops"},
              ghost={"g_ph": "int"}),
    ClassDecl("Group", file="task_types/group.py"),
    ClassDecl("NoOp", file="execution/ops/noop.py"),
    ClassDecl("NotImplementedError", exception=True, bases=["Exception"]),
]

LOGIC = Logic(
    funcs={"TaskOf": (["TaskIdentifier"], "TaskType"), "ShouldRun": (["TaskIdentifier"], "bool"), "Rk": (["TaskIdentifier"], "int")},
    globals={"g_sr_called": "Set[TaskIdentifier]#srcalled"},
    macros={
        "lid(l)": "l.task._identifier",
        "finished(t)": "(t in visited) and visited[t].g_ph >= 2",
        # the canonical entries
        "vis_inv()":
            "forall(t, 'TaskIdentifier', implies(t in visited, allocated(visited[t]) and visited[t].task == TaskOf(t) and Reach(t)"
            " and 1 <= visited[t].g_ph and visited[t].g_ph <= 3"
            " and implies(visited[t].g_ph == 1, visited[t].state == LoweringState.SECOND_VISIT and seq_len(visited[t].output_ops) == 0)"
            " and implies(visited[t].g_ph == 3, seq_len(visited[t].output_ops) == 0)"
            " and implies(visited[t].g_ph == 2, seq_len(visited[t].output_ops) == 1 and select(visited[t].output_ops, 0).g_inplan"
            "             and select(visited[t].output_ops, 0).g_lt == visited[t])))",
        "stack_inv()":
            "forall(p, 'int', implies(0 <= p and p < seq_len(stack), allocated(select(stack, p)) and select(stack, p).task == TaskOf(lid(select(stack, p)))"
            " and Reach(lid(select(stack, p))) and (select(stack, p).g_ph == 0 or select(stack, p).g_ph == 1)"
            " and implies(select(stack, p).g_ph == 0, select(stack, p).state == LoweringState.FIRST_VISIT and seq_len(select(stack, p).deps) == 0"
            "             and seq_len(select(stack, p).output_ops) == 0"
            "             and not ((lid(select(stack, p)) in visited) and visited[lid(select(stack, p))] == select(stack, p)))"
            " and implies(select(stack, p).g_ph == 1, select(stack, p).state == LoweringState.SECOND_VISIT"
            "             and (lid(select(stack, p)) in visited) and visited[lid(select(stack, p))] == select(stack, p)"
            "             and deps_match(select(stack, p)))))",
        "deps_match(e)":
            "seq_len(e.deps) == seq_len(Deps(lid(e))) and forall(k, 'int', implies(0 <= k and k < seq_len(e.deps),"
            " lid(select(e.deps, k)) == select(Deps(lid(e)), seq_len(e.deps) - 1 - k)))",
        "rank_inv()":
            "forall(p, 'int', forall(q, 'int', implies(0 <= p and p < q and q < seq_len(stack) and select(stack, p).g_ph == 1,"
            " Rk(lid(select(stack, q))) < Rk(lid(select(stack, p))))))",
        "k_inv()":
            "forall(p, 'int', implies(0 <= p and p < seq_len(stack) and select(stack, p).g_ph == 1,"
            " forall(j, 'int', implies(0 <= j and j < seq_len(Deps(lid(select(stack, p)))),"
            "   finished(select(Deps(lid(select(stack, p))), j)) or"
            "   exists(q, 'int', p < q and q < seq_len(stack) and lid(select(stack, q)) == select(Deps(lid(select(stack, p))), j))))))",
        "lists_owned()":
            "forall(a, 'LoweringTask', forall(b, 'LoweringTask', implies(a != b and allocated(a) and allocated(b), a.deps != b.deps and a.output_ops != b.output_ops)))"
            " and forall(a, 'Operation', forall(b, 'Operation', implies(a != b and allocated(a) and allocated(b), a._exe_deps != b._exe_deps and a._deps_of != b._deps_of)))",
        "ops_inv2()":
            "forall(i, 'int', implies(0 <= i and i < seq_len(all_ops), allocated(select(all_ops, i)) and select(all_ops, i).g_inplan))"
            " and forall(o, 'Operation', implies(o.g_inplan and allocated(o), (o in all_ops) and edges_wf(o) and o._state == OperationState.QUEUED and not o.g_started"
            "        and o.main_task is not None and o.g_phase == 0 and o.g_marks == const_arr('Arr[int,bool]', False)"
            "        and o.g_lt is not None and allocated(some(o.g_lt)) and (lid(some(o.g_lt)) in visited) and visited[lid(some(o.g_lt))] == some(o.g_lt)"
            "        and some(o.g_lt).g_ph == 2 and select(some(o.g_lt).output_ops, 0) == o and some(o.main_task) == some(o.g_lt).task))",
        "init_inv()":
            "all(x.g_inplan and seq_len(x._exe_deps) == 0 for x in initial_operations)"
            " and forall(i, 'int', forall(k, 'int', implies(0 <= i and i < k and k < seq_len(initial_operations), select(initial_operations, i) != select(initial_operations, k))))"
            " and forall(o, 'Operation', implies(o.g_inplan and allocated(o) and seq_len(o._exe_deps) == 0, o in initial_operations))",
    },
)

OPCTOR_ENS = ["result._state == initial_state", "seq_len(result._exe_deps) == 0 and seq_len(result._deps_of) == 0",
              "result.main_task is not None and some(result.main_task) == task", "result._stored_error is None"]

CONTRACTS = [
    # ------------------------------------------------------------------ planner's view of its callees
    Contract("ext::TaskIndex.get_task(planner)", params={"identifier": "TaskIdentifier"}, returns="TaskType",
             requires=[C("only_tasks_of_the_loaded_closure", "Reach(identifier)", "C02")],
             ensures=["result == TaskOf(identifier)"],
             trusted_reason="TaskIndex.get_task returns THE loaded task object of the identifier (C14: the closure is loaded)"),
    Contract("ext::TaskType.should_run(planner)", params={"ctx": "Context", "at_least_commit": "Opt[str]"}, returns="bool",
             requires=[C("cache_decision_taken_once_per_task", "not (self._identifier in g_sr_called)", "C02")],
             modifies=["g_sr_called", "RunExperiment._did_retrieve_version", "RunExperiment._most_relevant_version"],
             ensures=["result == ShouldRun(self._identifier)", "forall(t, 'TaskIdentifier', (t in g_sr_called) == (old(t in g_sr_called) or t == self._identifier))"],
             raises={"RuntimeError": []},
             trusted_reason="dynamic dispatch of TaskType.should_run (RunExperiment: contracts/run_types.py, others: constant True): one decision per task and invocation"),
    Contract("ext::RunExperiment.create_new_version(planner)", params={"ctx": "Context"}, returns="Version", raises={"RuntimeError": []},
             modifies=["RunExperiment._did_retrieve_version", "RunExperiment._most_relevant_version", "VersionIndex._last_timestamp"],
             trusted_reason="verified in contracts/run_types.py"),
    Contract("ext::TaskType.get_output_path(planner)", params={"ctx": "Context"}, returns="Opt[Val[Path]]", raises={"RuntimeError": []},
             modifies=["RunExperiment._did_retrieve_version", "RunExperiment._most_relevant_version"],
             trusted_reason="dynamic dispatch of get_output_path (verified per class in contracts/run_types.py)"),
    Contract("task_types/base.py::TaskType.get_working_path", params={"ctx": "Context"}, returns="Val[Path]", extern=True, trusted_reason="project_root / identifier.path"),
    Contract("task_types/base.py::TaskType.get_deps_output_paths", params={"ctx": "Context"}, returns="Seq[Val[Path]]", extern=True,
             modifies=["RunExperiment._did_retrieve_version", "RunExperiment._most_relevant_version"], raises={"RuntimeError": []},
             trusted_reason="output directories of the direct dependencies (snapshot consistency: bounded check C07.planner.deps_snapshot)"),
    Contract("ext::RunTaskExecutable", returns="RunTaskExecutable", fresh_result=True,
             params={"initial_state": "Enum[OperationState]", "identifier": "TaskIdentifier", "task": "TaskType", "run": "str", "args": "RunArguments",
                     "options": "RunOptions", "working_path": "Val[Path]", "output_path": "Val[Path]", "deps_output_paths": "Seq[Val[Path]]",
                     "record_output": "bool", "version_to_record": "Opt[Version]", "serialize_args_options": "bool", "parallelizable": "bool"},
             ensures=OPCTOR_ENS + ["result.parallelizable == parallelizable", "result._identifier == identifier"],
             trusted_reason="RunTaskExecutable.__init__: Operation.__init__ (state, empty edge lists) + field assignments; main_task/parallelizable getters return them"),
    Contract("ext::CombineOutputs", returns="CombineOutputs", fresh_result=True,
             params={"initial_state": "Enum[OperationState]", "task": "TaskType", "identifier": "TaskIdentifier", "output_path": "Val[Path]",
                     "deps_output_paths": "List[Tuple[TaskIdentifier,Val[Path]]]#cdops"},
             ensures=OPCTOR_ENS + ["not result.parallelizable"], trusted_reason="CombineOutputs.__init__"),
    Contract("ext::NoOp", returns="NoOp", fresh_result=True,
             params={"initial_state": "Enum[OperationState]", "identifier": "TaskIdentifier", "task": "TaskType"},
             ensures=OPCTOR_ENS + ["not result.parallelizable"], trusted_reason="NoOp.__init__"),

    # ------------------------------------------------------------------ create_plan_for
    Contract(F + "::ExecutionPlanner.create_plan_for", params={"task_id": "TaskIdentifier", "run_again": "bool", "at_least_commit": "Opt[str]"},
             returns="ExecutionPlan", props=["C02", "C01"], fresh_result=True,
             prefer_ext={"TaskIndex.get_task": "TaskIndex.get_task(planner)", "TaskType.should_run": "TaskType.should_run(planner)",
                         "RunExperiment.create_new_version": "RunExperiment.create_new_version(planner)",
                         "TaskType.get_output_path": "TaskType.get_output_path(planner)", "RunExperiment.get_output_path": "TaskType.get_output_path(planner)"},
             locals={"all_ops": "List[Operation]#allops", "initial_operations": "List[Operation]#initops", "cached_tasks": "List[TaskType]#cached",
                     "stack": "List[LoweringTask]#pstk", "visited": "Dict[TaskIdentifier,LoweringTask]#pvis", "new_op": "Operation",
                     "dep_output_paths": "List[Tuple[TaskIdentifier,Val[Path]]]#cdops"},
             requires=[
                 C("closure_loaded_and_acyclic", "Reach(task_id) and forall(t, 'TaskIdentifier', implies(Reach(t), TaskOf(t)._identifier == t and TaskOf(t)._deps == Deps(t) and"
                                                 " forall(j, 'int', implies(0 <= j and j < seq_len(Deps(t)), Reach(select(Deps(t), j)) and Rk(select(Deps(t), j)) < Rk(t)))))"),
                 C("dependencies_listed_once", "forall(t, 'TaskIdentifier', implies(Reach(t), forall(i, 'int', forall(k, 'int',"
                                               " implies(0 <= i and i < k and k < seq_len(Deps(t)), select(Deps(t), i) != select(Deps(t), k))))))"),
                 C("no_decision_taken_yet", "forall(t, 'TaskIdentifier', not (t in g_sr_called))"),
                 C("no_operation_belongs_to_a_plan_yet", "forall(o, 'Operation', implies(allocated(o), not o.g_inplan))"),
                 C("objects_own_their_lists", "lists_owned()"),
             ],
             modifies=["list@stack", "dict@visited", "list@all_ops", "list@initial_operations", "list@cached_tasks", "$alloc",
                                  "LoweringTask.state", "LoweringTask.g_ph", "new:LoweringTask.task", "new:LoweringTask.deps", "new:LoweringTask.output_ops",
                                  "new@ltdeps", "new@ltops", "region:ltdeps", "region:ltops", "region:edeps", "region:depsof",
                                  "Operation._exe_deps", "Operation._deps_of", "Operation._state", "Operation._stored_error", "Operation._waiting_on",
                                  "Operation.g_inplan", "Operation.g_phase", "Operation.g_marks", "Operation.g_started", "Operation.g_lt", "Operation.g_back",
                                  "g_sr_called", "RunExperiment._did_retrieve_version", "RunExperiment._most_relevant_version", "VersionIndex._last_timestamp",
                                  "new@cdops"],
             ensures=[
                 C("every_operation_is_marked", "all(x.g_inplan for x in result.all_ops)", "C02"),
             ],
             raises={"RuntimeError": [], "NotImplementedError": []},
             inline=["LoweringTask.initial", "add_exe_dep", "add_dep_of"],
             loops={
                 0: Loop(header="while len(stack) > 0:", modifies=["list@stack", "dict@visited", "list@all_ops", "list@initial_operations", "list@cached_tasks", "$alloc",
                                  "LoweringTask.state", "LoweringTask.g_ph", "new:LoweringTask.task", "new:LoweringTask.deps", "new:LoweringTask.output_ops",
                                  "new@ltdeps", "new@ltops", "region:ltdeps", "region:ltops", "region:edeps", "region:depsof",
                                  "Operation._exe_deps", "Operation._deps_of", "Operation._state", "Operation._stored_error", "Operation._waiting_on",
                                  "Operation.g_inplan", "Operation.g_phase", "Operation.g_marks", "Operation.g_started", "Operation.g_lt", "Operation.g_back",
                                  "g_sr_called", "RunExperiment._did_retrieve_version", "RunExperiment._most_relevant_version", "VersionIndex._last_timestamp",
                                  "new@cdops"],
                         invariant=[
                             C("canonical_entries", "vis_inv()"),
                             C("stack_entries", "stack_inv()"),
                             C("ranks_decrease_upwards", "rank_inv()"),
                             C("dependencies_finished_or_pending_above", "k_inv()"),
                             C("objects_own_their_lists", "lists_owned()"),
                             C("decisions", "forall(t, 'TaskIdentifier', (t in g_sr_called) == ((t in visited) and not run_again)) or run_again"),
                         ]),
                 1: Loop(header="for dep_ident in reversed(lt.task.deps):", index="k",
                         modifies=["list@stack", "list@lt.deps", "$alloc", "new:LoweringTask.state", "new:LoweringTask.g_ph", "new:LoweringTask.task",
                                   "new:LoweringTask.deps", "new:LoweringTask.output_ops", "new@ltdeps", "new@ltops"],
                         invariant=[
                             C("deps_prefix", "seq_len(lt.deps) == k and forall(m, 'int', implies(0 <= m and m < k,"
                                              " lid(select(lt.deps, m)) == select(Deps(lid(lt)), seq_len(Deps(lid(lt))) - 1 - m) and allocated(select(lt.deps, m))))"),
                             C("stack_prefix_kept", "seq_len(stack) >= at_loop(seq_len(stack)) and forall(p, 'int', implies(0 <= p and p < at_loop(seq_len(stack)),"
                                                    " select(stack, p) == at_loop(select(stack, p))))"),
                             C("new_entries_are_fresh_first_visits",
                               "forall(p, 'int', implies(at_loop(seq_len(stack)) <= p and p < seq_len(stack), allocated(select(stack, p)) and not at_loop(allocated(select(stack, p)))"
                               " and select(stack, p).g_ph == 0 and select(stack, p).state == LoweringState.FIRST_VISIT"
                               " and select(stack, p).task == TaskOf(lid(select(stack, p))) and Reach(lid(select(stack, p)))"
                               " and seq_len(select(stack, p).deps) == 0 and seq_len(select(stack, p).output_ops) == 0"
                               " and Rk(lid(select(stack, p))) < Rk(lid(lt))))"),
                             C("processed_deps_finished_or_pushed",
                               "forall(m, 'int', implies(0 <= m and m < k, finished(select(Deps(lid(lt)), seq_len(Deps(lid(lt))) - 1 - m)) or"
                               " exists(q, 'int', at_loop(seq_len(stack)) <= q and q < seq_len(stack) and lid(select(stack, q)) == select(Deps(lid(lt)), seq_len(Deps(lid(lt))) - 1 - m))))"),
                             C("objects_own_their_lists", "lists_owned()"),
                         ]),
             },
             ghost=[
                 Ghost("root.g_ph = 0", after="root = LoweringTask.initial(task_to_run)"),
                 Ghost("lt.g_ph = 3", after="cached_tasks.append(lt.task)"),
                 Ghost("lt.g_ph = 1", after="lt.state = LoweringState.SECOND_VISIT"),
                 Ghost("dep.g_ph = 0", after="dep = LoweringTask.initial(self._ctx.task_index.get_task(dep_ident))"),
             ]),
]
