"""Class table shared by all contract modules (field types), external models."""
from pyvc.contract import ClassDecl, Contract, Logic, C, Loop, Ghost

CLASSES = [
    ClassDecl("Commit", file="utils/git.py", qual="Git.Commit", fields={"_hash": "str", "_has_changes": "bool"}),
    ClassDecl("Version", file="execution/version_index.py",
              fields={"_timestamp": "int", "_commit_hash": "Opt[str]", "_has_uncommitted_changes": "bool"}),
    ClassDecl("VersionIndex", file="execution/version_index.py", fields={"_last_timestamp": "int", "_conn": "SqliteConnection"}),
    ClassDecl("BaseException", exception=True, bases=[]),
    ClassDecl("ConductorError", file="errors/base.py", exception=True, bases=["BaseException"],
              ghost={"file_context_set": "bool", "extra_context_set": "bool"}),
    ClassDecl("ConductorAbort", exception=True, bases=["ConductorError"]),
]

LOGIC = Logic(funcs={}, axioms=[], macros={}, globals={})

CONTRACTS = [
    Contract("errors/base.py::ConductorError.printable_message", params={"omit_file_context": "bool"}, returns="str", extern=True,
             trusted_reason="message rendering (cosmetic)"),
    Contract("errors/base.py::ConductorError.add_extra_context", params={"context_string": "str"}, returns="ConductorError", extern=True, returns_self=True,
             modifies=["ConductorError.extra_context_set@self"], ensures=["result == self", "self.extra_context_set"],
             trusted_reason="setter returning self"),
    Contract("errors/base.py::ConductorError.add_file_context", params={"file_path": "any", "line_number": "any"}, returns="ConductorError", extern=True, returns_self=True,
             modifies=["ConductorError.file_context_set@self"], ensures=["result == self", "self.file_context_set"],
             trusted_reason="setter returning self"),
    Contract("errors/base.py::ConductorError.add_file_context_if_missing", params={"file_path": "any", "line_number": "any"}, returns="ConductorError", extern=True, returns_self=True,
             modifies=["ConductorError.file_context_set@self"], ensures=["result == self", "self.file_context_set"],
             trusted_reason="setter returning self"),
    Contract("ext::time.time", returns="float", trusted_reason="the clock is an arbitrary value (may repeat, may go backwards)"),
]
