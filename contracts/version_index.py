"""execution/version_index.py -- C08 (fresh, strictly increasing version ids), C06 (what is recorded)."""
from pyvc.contract import ClassDecl, Contract, Logic, C, Loop, Ghost

F = "execution/version_index.py"

CONTRACTS = [
    Contract(F + "::VersionIndex.generate_new_output_version",
             params={"commit": "Opt[Commit]"}, returns="Version", props=["C08", "C06"],
             requires=[],
             modifies=["VersionIndex._last_timestamp@self"],
             ensures=[
                 C("strictly_above_last", "result._timestamp > old(self._last_timestamp)", "C08"),
                 C("last_updated", "self._last_timestamp == result._timestamp", "C08"),
                 C("fresh_object", "fresh(result)", "C08"),
                 C("commit_hash_copied", "result._commit_hash == (commit._hash if commit is not None else None)", "C06"),
                 C("dirty_flag_copied", "result._has_uncommitted_changes == (commit._has_changes if commit is not None else False)", "C06"),
             ]),
]
