"""task_types/stdlib/run_experiment_group.py -- C19: the group sugar is exactly its documented expansion.

The constructors `run_experiment` / `combine` that the library file calls are bound at run time by
TaskLoader._compile_scope; here every call is recorded in a ghost log (parallel ghost lists, one entry per
call). The postcondition says the log IS the documented expansion:

  for i-th instance e:  run_experiment(name=e.name, run=run, parallelizable=e.parallelizable, args=e.args,
                                        options=e.options, deps=D_i)
      D_i = deps (or [])  ++  [":" + name of instance i-1]   if chain_experiments and i > 0
  then  combine(name=name, deps=[":" + e.name for e in experiments])

and the group is rejected only for a non-ExperimentInstance element, a repeated instance name, or because
one of those constructor calls rejects.
"""
from pyvc.contract import ClassDecl, Contract, Logic, Lemma, C, Loop, Ghost

F = "task_types/stdlib/run_experiment_group.py"

CLASSES = [
    ClassDecl("PyValue"),     # an arbitrary Python value handed through unchanged (args list, options dict)
    ClassDecl("PyObject", fields={"name": "str", "args": "PyValue", "options": "PyValue", "parallelizable": "bool"}),
    ClassDecl("ExperimentInstance", file=F, bases=["PyObject"]),
    ClassDecl("ExperimentGroupInvalidExperimentInstance", exception=True, bases=["ConductorError"]),
    ClassDecl("ExperimentGroupDuplicateName", exception=True, bases=["ConductorError"]),
    ClassDecl("TypeError", exception=True, bases=["BaseException"]),
]

LOGIC = Logic(funcs={"DefaultArgs": ([], "PyValue"), "DefaultOptions": ([], "PyValue")}, globals={
    "g_re_name": "List[str]#gre1", "g_re_run": "List[str]#gre2", "g_re_par": "List[bool]#gre3",
    "g_re_args": "List[PyValue]#gre4", "g_re_opts": "List[PyValue]#gre5", "g_re_deps": "List[List[str]#depl]#gre6",
    "g_cb_count": "int", "g_cb_name": "str", "g_cb_deps": "List[str]#relids",
})

LOG_MODS = ["list@g_re_name", "list@g_re_run", "list@g_re_par", "list@g_re_args", "list@g_re_opts", "list@g_re_deps"]

CONTRACTS = [
    Contract("ext::cond.run_experiment",
             params={"name": "str", "run": "str", "parallelizable": "bool", "args": "PyValue", "options": "PyValue", "deps": "List[str]#depl"},
             defaults={"parallelizable": "False", "args": "DefaultArgs()", "options": "DefaultOptions()"},
             modifies=LOG_MODS,
             ensures=["seq_len(g_re_name) == old(seq_len(g_re_name)) + 1",
                      "seq_len(g_re_run) == seq_len(g_re_name) and seq_len(g_re_par) == seq_len(g_re_name) and seq_len(g_re_args) == seq_len(g_re_name)"
                      " and seq_len(g_re_opts) == seq_len(g_re_name) and seq_len(g_re_deps) == seq_len(g_re_name)",
                      "select(g_re_name, seq_len(g_re_name) - 1) == name and select(g_re_run, seq_len(g_re_name) - 1) == run"
                      " and select(g_re_par, seq_len(g_re_name) - 1) == parallelizable and select(g_re_args, seq_len(g_re_name) - 1) == args"
                      " and select(g_re_opts, seq_len(g_re_name) - 1) == options and select(g_re_deps, seq_len(g_re_name) - 1) == deps",
                      "forall(k, 'int', implies(0 <= k and k < old(seq_len(g_re_name)),"
                      " select(g_re_name, k) == old(select(g_re_name, k)) and select(g_re_run, k) == old(select(g_re_run, k))"
                      " and select(g_re_par, k) == old(select(g_re_par, k)) and select(g_re_args, k) == old(select(g_re_args, k))"
                      " and select(g_re_opts, k) == old(select(g_re_opts, k)) and select(g_re_deps, k) == old(select(g_re_deps, k))))"],
             raises={"ConductorError+": [], "TypeError": []},
             trusted_reason="the run_experiment constructor of the COND scope: records its arguments in the ghost log; may reject (ConductorError) or raise TypeError"),
    Contract("ext::cond.combine", params={"name": "str", "deps": "List[str]#relids"},
             modifies=["g_cb_count", "g_cb_name", "g_cb_deps"],
             ensures=["g_cb_count == old(g_cb_count) + 1", "g_cb_name == name", "g_cb_deps == deps"],
             raises={"ConductorError+": []},
             trusted_reason="the combine constructor of the COND scope: records its arguments"),

    Contract(F + "::run_experiment_group",
             params={"name": "str", "run": "str", "experiments": "Seq[PyObject]", "chain_experiments": "bool", "deps": "Opt[List[str]#depl]"},
             props=["C19", "C15"],
             one_shot=["experiments"],      # documented as Iterable[ExperimentInstance]: may be a generator
             callables={"run_experiment": "ext::cond.run_experiment", "combine": "ext::cond.combine"},
             locals={"task_deps": "List[str]#depl", "relative_experiment_identifiers": "List[str]#relids",
                     "seen_experiment_names": "Set[str]#seen", "experiment_deps": "List[str]#depl", "prev_experiment_identifier": "Opt[str]"},
             requires=[C("log_empty", "seq_len(g_re_name) == 0 and seq_len(g_re_run) == 0 and seq_len(g_re_par) == 0 and seq_len(g_re_args) == 0"
                                      " and seq_len(g_re_opts) == 0 and seq_len(g_re_deps) == 0 and g_cb_count == 0")],
             modifies=LOG_MODS + ["g_cb_count", "g_cb_name", "g_cb_deps", "$alloc"],
             ensures=[
                 C("one_run_experiment_per_instance_in_order",
                   "seq_len(g_re_name) == seq_len(experiments) and forall(i, 'int', implies(0 <= i and i < seq_len(experiments),"
                   " select(g_re_name, i) == select(experiments, i).name and select(g_re_run, i) == run"
                   " and select(g_re_par, i) == select(experiments, i).parallelizable and select(g_re_args, i) == select(experiments, i).args"
                   " and select(g_re_opts, i) == select(experiments, i).options))", "C19", "C04", "C07", "C10"),
                 C("unchained_instances_get_exactly_the_shared_deps",
                   "forall(i, 'int', implies(0 <= i and i < seq_len(experiments) and (not chain_experiments or i == 0),"
                   " seq_len(select(g_re_deps, i)) == (seq_len(some(deps)) if deps is not None else 0) and"
                   " forall(k, 'int', implies(0 <= k and k < seq_len(select(g_re_deps, i)), deps is not None and select(select(g_re_deps, i), k) == select(some(deps), k)))))"),
                 C("chained_instances_additionally_depend_on_the_previous_instance",
                   "forall(i, 'int', implies(1 <= i and i < seq_len(experiments) and chain_experiments,"
                   " seq_len(select(g_re_deps, i)) == (seq_len(some(deps)) if deps is not None else 0) + 1 and"
                   " select(select(g_re_deps, i), seq_len(select(g_re_deps, i)) - 1) == ':' + select(experiments, i - 1).name and"
                   " forall(k, 'int', implies(0 <= k and k < seq_len(select(g_re_deps, i)) - 1, deps is not None and select(select(g_re_deps, i), k) == select(some(deps), k)))))"),
                 C("one_combine_over_all_instances",
                   "g_cb_count == 1 and g_cb_name == name and seq_len(g_cb_deps) == seq_len(experiments) and"
                   " forall(i, 'int', implies(0 <= i and i < seq_len(experiments), select(g_cb_deps, i) == ':' + select(experiments, i).name))"),
                 C("all_elements_are_instances_with_distinct_names",
                   "forall(i, 'int', implies(0 <= i and i < seq_len(experiments), instance(select(experiments, i), ExperimentInstance))) and"
                   " forall(i, 'int', forall(k, 'int', implies(0 <= i and i < k and k < seq_len(experiments), select(experiments, i).name != select(experiments, k).name)))"),
             ],
             raises={
                 "ExperimentGroupInvalidExperimentInstance": [],
                 "ExperimentGroupDuplicateName": [C("two_instances_share_a_name",
                                                    "exists(i, 'int', exists(k, 'int', 0 <= i and i < k and k < seq_len(experiments) and select(experiments, i).name == select(experiments, k).name))")],
                 "ConductorError+": [],
             },
             loops={0: Loop(header="for experiment in experiments:", index="i",
                            modifies=LOG_MODS + ["list@relative_experiment_identifiers", "set@seen_experiment_names", "$alloc", "new@depl"],
                            invariant=[
                                C("log_lengths", "seq_len(g_re_name) == i and seq_len(g_re_run) == i and seq_len(g_re_par) == i and seq_len(g_re_args) == i"
                                                 " and seq_len(g_re_opts) == i and seq_len(g_re_deps) == i and seq_len(relative_experiment_identifiers) == i and g_cb_count == 0"),
                                C("log_prefix", "forall(m, 'int', implies(0 <= m and m < i,"
                                                " select(g_re_name, m) == select(experiments, m).name and select(g_re_run, m) == run"
                                                " and select(g_re_par, m) == select(experiments, m).parallelizable and select(g_re_args, m) == select(experiments, m).args"
                                                " and select(g_re_opts, m) == select(experiments, m).options"
                                                " and allocated(select(g_re_deps, m))"
                                                " and select(relative_experiment_identifiers, m) == ':' + select(experiments, m).name"
                                                " and instance(select(experiments, m), ExperimentInstance)))"),
                                C("seen_is_prefix_names", "forall(m, 'int', implies(0 <= m and m < i, select(experiments, m).name in seen_experiment_names)) and"
                                                          " forall(x, 'str', implies(x in seen_experiment_names, exists(m, 'int', 0 <= m and m < i and select(experiments, m).name == x)))"),
                                C("names_distinct_so_far", "forall(m, 'int', forall(k, 'int', implies(0 <= m and m < k and k < i, select(experiments, m).name != select(experiments, k).name)))"),
                                C("prev_is_previous", "(prev_experiment_identifier is None) == (i == 0) and"
                                                      " implies(i > 0, some(prev_experiment_identifier) == ':' + select(experiments, i - 1).name)"),
                                C("task_deps_is_shared_deps", "implies(deps is not None, task_deps == some(deps)) and implies(deps is None, seq_len(task_deps) == 0)"
                                                              " and seq_len(task_deps) == at_loop(seq_len(task_deps))"
                                                              " and forall(k, 'int', implies(0 <= k and k < seq_len(task_deps), select(task_deps, k) == at_loop(select(task_deps, k))))"),
                                C("deps_unchained", "forall(m, 'int', implies(0 <= m and m < i and (not chain_experiments or m == 0),"
                                                    " seq_len(select(g_re_deps, m)) == seq_len(task_deps) and"
                                                    " forall(k, 'int', implies(0 <= k and k < seq_len(task_deps), select(select(g_re_deps, m), k) == select(task_deps, k)))))"),
                                C("deps_chained", "forall(m, 'int', implies(1 <= m and m < i and chain_experiments,"
                                                  " seq_len(select(g_re_deps, m)) == seq_len(task_deps) + 1 and"
                                                  " select(select(g_re_deps, m), seq_len(task_deps)) == ':' + select(experiments, m - 1).name and"
                                                  " forall(k, 'int', implies(0 <= k and k < seq_len(task_deps), select(select(g_re_deps, m), k) == select(task_deps, k)))))"),
                            ])}),
]
