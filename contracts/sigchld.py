"""utils/sigchld.py -- C09: no completion is lost.

Ghost counters: g_appends (entries appended to _returncodes), g_writes (bytes written to the self-pipe),
g_reads (bytes consumed by wait()), g_pops (entries popped).  The SIGCHLD handler is asynchronous: it may run
(and nest) between any two statements of wait()/_extract_any()/_add_returncode(); its effect is the RELY
condition below (it only appends complete (entry, byte) pairs), which the handler itself is proved to satisfy.
"""
from pyvc.contract import ClassDecl, Contract, Logic, Lemma, C, Loop, Ghost

F = "utils/sigchld.py"

CLASSES = [
    ClassDecl("SigchldHelper", file=F, fields={"_returncodes": "List[Tuple[int,int]]#rcs", "_read_pipe": "Opt[int]", "_write_pipe": "Opt[int]"}),
    ClassDecl("AssertionError", exception=True, bases=["Exception"]),
]

LOGIC = Logic(
    funcs={"WIfExited": (["int"], "bool"), "WIfSignaled": (["int"], "bool"), "WExitStatus": (["int"], "int"), "WTermSig": (["int"], "int")},
    globals={"g_appends": "int", "g_writes": "int", "g_reads": "int", "g_pops": "int", "g_exited": "int", "g_drained": "bool", "g_handler_self": "SigchldHelper", "g_byte_known": "bool",
             "ext_os_WNOHANG": "int"},
    macros={"pipe_inv(h)": "g_pops <= g_reads and g_reads <= g_writes and g_writes <= g_appends and seq_len(h._returncodes) == g_appends - g_pops"},
)

RELY = (["list@self._returncodes", "g_appends", "g_writes"],
        ["g_appends >= old(g_appends) and g_writes - old(g_writes) == g_appends - old(g_appends)",
         "seq_len(self._returncodes) == old(seq_len(self._returncodes)) + (g_appends - old(g_appends))",
         "forall(k, 'int', implies(0 <= k and k < old(seq_len(self._returncodes)), select(self._returncodes, k) == old(select(self._returncodes, k))))"])

CONTRACTS = [
    Contract("ext::select.select", params={"rlist": "any", "wlist": "any", "xlist": "any", "timeout": "float"}, returns="Tuple[Seq[int],Seq[int],Seq[int]]",
             modifies=["g_byte_known", "g_appends", "g_writes", "list@g_handler_self._returncodes"],
             ensures=[  # readable <=> a byte is in the self-pipe; it stays there: the main thread is the only reader
                      "g_byte_known == (seq_len(result[0]) > 0)", "implies(g_byte_known, g_reads < g_writes)",
                      # while blocked (for at most `timeout`) and on return the handler may run
                      "g_appends >= old(g_appends) and g_writes - old(g_writes) == g_appends - old(g_appends)",
                      "seq_len(g_handler_self._returncodes) == old(seq_len(g_handler_self._returncodes)) + (g_appends - old(g_appends))"],
             trusted_reason="A-OS: select() with a time-out on the self-pipe reports it readable iff a byte is buffered; returns after at most `timeout` seconds, so pending Python-level signal handlers get to run"),
    Contract("ext::os.read", params={"fd": "int", "n": "int"}, returns="bytes", modifies=["g_reads", "g_appends", "g_writes", "g_byte_known", "list@g_handler_self._returncodes"],
             requires=["n == 1",
                       # The byte is written by the PYTHON-level SIGCHLD handler, which only runs between bytecodes of the main
                       # thread: a SIGCHLD delivered after the last check and before read() blocks would never be handled while
                       # read() sleeps (lost wake-up: `cond run` hangs with a zombie child).  A read of the self-pipe is therefore
                       # allowed only when a byte is known to be there.
                       C("the_self_pipe_is_only_read_when_a_byte_is_known_to_be_there", "g_byte_known", "C09")],
             ensures=["g_reads == old(g_reads) + 1", "g_reads <= g_writes", "not g_byte_known",
                      # while in read() the handler may run
                      "g_appends >= old(g_appends) and g_writes - old(g_writes) == g_appends - old(g_appends)",
                      "seq_len(g_handler_self._returncodes) == old(seq_len(g_handler_self._returncodes)) + (g_appends - old(g_appends))"],
             trusted_reason="A-OS: a blocking read of 1 byte returns only after a byte was written (reads <= writes); the handler may run meanwhile"),
    Contract("ext::os.write", params={"fd": "int", "data": "bytes"}, returns="int", modifies=["g_writes"], ensures=["g_writes == old(g_writes) + 1"],
             trusted_reason="A-OS: writes one byte to the self-pipe (capacity not exceeded)"),
    Contract("ext::os.waitpid", params={"pid": "int", "options": "int"}, returns="Tuple[int,int]", modifies=["g_exited", "g_reaped", "g_drained"],
             ensures=["g_drained == (result[0] == 0 and result[1] == 0)",
                      "implies(not (result[0] == 0 and result[1] == 0), g_exited == old(g_exited) + 1 and result[0] in g_reaped and result[0] > 0)",
                      "implies(result[0] == 0 and result[1] == 0, g_exited == old(g_exited))"],
             raises={"OSError+": ["g_exited == old(g_exited)", "implies(exc.errno == ext_errno_ECHILD, g_drained)"]},
             trusted_reason="A-OS: waitpid(-1, WNOHANG) reports each exited child exactly once, (0, 0) when none is ready, ECHILD when there are no children"),
    Contract("ext::os.WIFEXITED", params={"s": "int"}, returns="bool", ensures=["result == WIfExited(s)"], trusted_reason="status decoding"),
    Contract("ext::os.WIFSIGNALED", params={"s": "int"}, returns="bool", ensures=["result == WIfSignaled(s)"], trusted_reason="status decoding"),
    Contract("ext::os.WEXITSTATUS", params={"s": "int"}, returns="int", ensures=["result == WExitStatus(s)", "result >= 0"], trusted_reason="status decoding"),
    Contract("ext::os.WTERMSIG", params={"s": "int"}, returns="int", ensures=["result == WTermSig(s)", "result >= 1"],
             trusted_reason="A-OS: a terminating signal number is >= 1 (so 'killed by a signal' is a non-zero return code)"),

    Contract(F + "::SigchldHelper._add_returncode", params={"pid": "int", "returncode": "int"}, props=["C09"],
             requires=[C("counters", "pipe_inv(self)"), C("pipe_open", "self._write_pipe is not None")],
             interference=RELY,
             modifies=["list@self._returncodes", "g_appends", "g_writes"],
             ensures=[C("one_entry_one_byte", "g_appends >= old(g_appends) + 1 and g_writes - old(g_writes) == g_appends - old(g_appends)"),
                      C("counters", "pipe_inv(self)"),
                      C("entry_recorded", "exists(k, 'int', old(seq_len(self._returncodes)) <= k and k < seq_len(self._returncodes) and"
                                          " select(self._returncodes, k)[0] == pid and select(self._returncodes, k)[1] == returncode)")],
             ghost=[Ghost("g_appends = g_appends + 1", after="self._returncodes.append((pid, returncode))")]),

    Contract(F + "::SigchldHelper._extract_any", returns="Tuple[int,int]", props=["C09"],
             requires=[C("counters", "pipe_inv(self)"), C("a_byte_was_read_for_this_entry", "g_pops < g_reads")],
             interference=RELY,
             modifies=["list@self._returncodes", "g_appends", "g_writes", "g_pops"],
             ensures=[C("counters", "pipe_inv(self)"), C("one_pop", "g_pops == old(g_pops) + 1")],
             ghost=[Ghost("g_pops = g_pops + 1", at_exit=True)]),

    Contract(F + "::SigchldHelper.wait", returns="Tuple[int,int]", props=["C09"],
             requires=[C("counters", "pipe_inv(self) and g_pops == g_reads"), C("tracking", "self._read_pipe is not None and g_handler_self == self")],
             interference=RELY,
             modifies=["list@self._returncodes", "g_appends", "g_writes", "g_pops", "g_reads", "g_byte_known"],
             ensures=[C("counters", "pipe_inv(self) and g_pops == g_reads"), C("one_completion_consumed", "g_pops == old(g_pops) + 1")],
             loops={0: Loop(header="while len(select.select([self._read_pipe], [], [], 0.05)[0]) == 0:",
                            modifies=["list@self._returncodes", "g_appends", "g_writes", "g_byte_known"],
                            invariant=[C("counters", "pipe_inv(self) and g_pops == g_reads"),
                                       C("no_completion_consumed_yet", "g_pops == at_loop(g_pops) and g_reads == at_loop(g_reads)")])}),

    Contract(F + "::SigchldHelper._handler", params={"sig": "any", "frame": "any"}, props=["C09", "C03", "C06", "C01"],
             locals={"pid": "int", "status": "int"},
             requires=[C("counters", "pipe_inv(g_handler_self) and g_handler_self._write_pipe is not None")],
             prefer_ext={"SigchldHelper.instance": "SigchldHelper.instance(handler)"},
             modifies=["list@g_handler_self._returncodes", "g_appends", "g_writes", "g_exited", "g_reaped", "g_drained"],
             ghost=[Ghost("assert implies(WIfExited(status), returncode == WExitStatus(status)), 'normal_exit_reports_its_exit_status'\n"
                          "assert implies(not WIfExited(status), returncode >= 1), 'a_task_killed_by_a_signal_never_reports_zero'",
                          before="SigchldHelper.instance()._add_returncode(pid, returncode)")],
             ensures=[C("reaps_until_no_exited_child_is_left", "g_drained"),
                      C("rely_respected", "g_appends >= old(g_appends) and g_writes - old(g_writes) == g_appends - old(g_appends) and pipe_inv(g_handler_self)"),
                      C("every_reaped_exit_is_recorded_once", "g_appends - old(g_appends) >= g_exited - old(g_exited)")],
             raises={"OSError+": [C("rely_respected", "g_writes - old(g_writes) == g_appends - old(g_appends)")],
                     "AssertionError": []},
             loops={0: Loop(header="while True:", modifies=["list@g_handler_self._returncodes", "g_appends", "g_writes", "g_exited", "g_reaped", "g_drained"],
                            invariant=[C("pairs", "g_appends >= old(g_appends) and g_writes - old(g_writes) == g_appends - old(g_appends) and pipe_inv(g_handler_self)"),
                                       C("one_record_per_exit", "g_appends - old(g_appends) >= g_exited - old(g_exited)"),
                                       C("pipe_open", "g_handler_self._write_pipe is not None")])}),
    Contract("ext::SigchldHelper.instance(handler)", returns="SigchldHelper", ensures=["result == g_handler_self"], trusted_reason="the singleton that run_plan tracks"),
]
