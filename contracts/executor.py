"""execution/executor.py, execution/ops/operation.py, execution/plan.py, execution/handle.py
   -- C01 (start only after dependencies succeeded), C03 (skip / fail / report), C04 (jobs bound, exclusive
      sequential tasks, distinct slots), C09 (accounting), C02 (dequeued once), C16 (abort paths).

Ghost state (never assigned by real code):
  Operation.g_inplan   the operation belongs to the plan being executed
  Operation.g_phase    0 waiting (some dependency not completed) / 1 ready (in a queue) / 2 in flight / 3 completed
  Operation.g_marks    g_marks[j] <=> the completion of _exe_deps[j] has been counted in _waiting_on
  Operation.g_culprit  for a SKIPPED operation: a FAILED transitive dependency (witness)
  Operation.g_finished_ok   finish_execution returned normally for this operation

`select(f.g_back, i)` is the Skolem function of "edges are symmetric": _deps_of(f)[i] lists f at position select(f.g_back, i)
of its _exe_deps.  `cnt(m, n)` = #{j < n | m[j]} (recursive definition; its four lemmas are proved by
induction on n, see LOGIC.lemmas).
"""
from pyvc.contract import ClassDecl, Contract, Logic, Lemma, C, Loop, Ghost

F = "execution/executor.py"
OP = "execution/ops/operation.py"

HANDLE_OP = "Tuple[OperationExecutionHandle,Operation]"

CLASSES = [
    ClassDecl("OperationState", file="execution/operation_state.py"),
    ClassDecl("Operation", file=OP,
              fields={"_state": "Enum[OperationState]", "_stored_error": "Opt[ConductorError]",
                      "_exe_deps": "List[Operation]#edeps", "_waiting_on": "int", "_deps_of": "List[Operation]#depsof"},
              virtual={"parallelizable": "bool", "main_task": "Opt[TaskType]", "associated_task": "Opt[TaskType]"},
              ghost={"g_inplan": "bool", "g_phase": "int", "g_marks": "Arr[int,bool]", "g_culprit": "Opt[Operation]",
                     "g_finished_ok": "bool", "g_started": "bool", "g_back": "Arr[int,int]", "g_tid": "TaskIdentifier", "g_idx": "int", "g_iidx": "int", "g_last": "Opt[Operation]", "g_dpos": "int"}),
    ClassDecl("OutputHandler", file="utils/output_handler.py"),
    ClassDecl("OperationExecutionHandle", file="execution/handle.py",
              fields={"pid": "Opt[int]", "stdout": "Opt[OutputHandler]", "stderr": "Opt[OutputHandler]",
                      "returncode": "Opt[int]", "slot": "Opt[int]", "process": "Opt[PopenObj]"}),
    ClassDecl("PopenObj"),
    ClassDecl("_ReadyToRunQueue", file=F,
              fields={"_sequential_ops": "Deque[Operation]#seqq", "_parallel_ops": "Deque[Operation]#parq"}),
    ClassDecl("_InflightOperations", file=F,
              fields={"_processes": "Dict[int,%s]#procs" % HANDLE_OP, "_sync_ops": "List[%s]#sync" % HANDLE_OP}),
    ClassDecl("Executor", file=F,
              fields={"_slots": "int", "_available_slots": "List[int]#slots", "_ready_to_run": "_ReadyToRunQueue",
                      "_inflight_ops": "_InflightOperations", "_completed_ops": "List[Operation]#completed",
                      "_running_parallel": "bool", "_num_tasks_to_run": "int", "_num_tasks_dequeued": "int"}),
    ClassDecl("ExecutionPlan", file="execution/plan.py",
              fields={"task_to_run": "TaskType", "all_ops": "List[Operation]#allops", "initial_ops": "List[Operation]#initops",
                      "cached_tasks": "List[TaskType]#cached", "num_tasks_to_run": "int"}),
    ClassDecl("OSError", exception=True, bases=["BaseException"], fields={"errno": "int"}),
]

LOGIC = Logic(
    funcs={"ExitStatus": (["int"], "int"),
           "Pgid": (["int"], "int"),            # process group of a pid (A-OS: own group, start_new_session=True)
           "Gone": (["int"], "bool")},          # the process (group) no longer exists
    defs={"cnt": ([("m", "Arr[int,bool]"), ("n", "int")], "int",
                  "ite(n <= 0, 0, cnt(m, n - 1) + ite(select(m, n - 1), 1, 0))")},
    globals={"g_stop_mode": "bool", "g_failure_seen": "bool", "g_failed_printed": "List[Operation]#printedf", "g_skipped_printed": "List[TaskIdentifier]#printeds",
             "g_reaped": "Set[int]#reaped", "g_killed": "Set[int]#killed",
             "ext_errno_ESRCH": "int", "ext_errno_ECHILD": "int", "ext_signal_SIGTERM": "int"},
    lemmas=[
        Lemma("cnt_range", {"m": "Arr[int,bool]", "n": "int"}, requires=["n >= 0"],
              ensures=[C("bounds", "0 <= cnt(m, n) and cnt(m, n) <= n")], induction="n", props=["C01", "C03", "C09"]),
        Lemma("cnt_none", {"n": "int"}, requires=["n >= 0"],
              ensures=[C("zero", "cnt(const_arr('Arr[int,bool]', False), n) == 0")], induction="n", props=["C01", "C03", "C09"]),
        Lemma("cnt_store_above", {"m": "Arr[int,bool]", "j": "int", "v": "bool", "n": "int"}, requires=["n >= 0", "j >= n"],
              ensures=[C("unchanged", "cnt(store(m, j, v), n) == cnt(m, n)")], induction="n", props=["C01", "C03", "C09"]),
        Lemma("cnt_store", {"m": "Arr[int,bool]", "j": "int", "n": "int"},
              requires=["n >= 0", "0 <= j", "j < n", "not select(m, j)"],
              ensures=[C("one_more", "cnt(store(m, j, True), n) == cnt(m, n) + 1")], induction="n",
              uses=["cnt_store_above"], props=["C01", "C03", "C09"]),
        Lemma("cnt_full", {"m": "Arr[int,bool]", "n": "int"}, requires=["n >= 0", "cnt(m, n) == n"],
              ensures=[C("all_marked", "forall(j, 'int', implies(0 <= j and j < n, select(m, j)))")], induction="n",
              uses=["cnt_range"], props=["C01", "C03", "C09"]),
    ],
    macros={
        "succeeded(o)": "o._state == OperationState.SUCCEEDED or o._state == OperationState.SUCCEEDED_CACHED",
        # symmetric, duplicate-free edges around operation f (established by the planner, C02)
        "edges_wf(f)":
            "forall(i, 'int', implies(0 <= i and i < seq_len(f._deps_of),"
            "   select(f._deps_of, i).g_inplan and 0 <= select(f.g_back, i) and select(f.g_back, i) < seq_len(select(f._deps_of, i)._exe_deps)"
            "   and select(select(f._deps_of, i)._exe_deps, select(f.g_back, i)) == f))"
            " and forall(i, 'int', forall(k, 'int', implies(0 <= i and i < k and k < seq_len(f._deps_of),"
            "   select(f._deps_of, i) != select(f._deps_of, k))))"
            " and forall(j, 'int', implies(0 <= j and j < seq_len(f._exe_deps), select(f._exe_deps, j).g_inplan))",
        # the counter equals the number of dependencies whose completion has not been counted yet
        "marks_ok(o)":
            "o._waiting_on == seq_len(o._exe_deps) - cnt(o.g_marks, seq_len(o._exe_deps))"
            " and forall(j, 'int', implies(0 <= j and j < seq_len(o._exe_deps) and select(o.g_marks, j),"
            "        select(o._exe_deps, j).g_phase == 3))",
        "phase_ok(o)":
            "0 <= o.g_phase and o.g_phase <= 3"
            " and ((o.g_phase < 3) == (o._state == OperationState.QUEUED))"
            " and implies(o.g_phase == 3, o._state == OperationState.SUCCEEDED or o._state == OperationState.FAILED"
            "                             or o._state == OperationState.SKIPPED)"
            " and ((o.g_phase == 0) == (o._waiting_on > 0))"
            " and implies(o.g_phase <= 1, not o.g_started)",
        # C01 / C03: an operation that ran had only succeeded dependencies; a skipped one has a failed ancestor
        "ran_ok(o)":
            "implies(o.g_started, forall(j, 'int', implies(0 <= j and j < seq_len(o._exe_deps),"
            "        select(o._exe_deps, j)._state == OperationState.SUCCEEDED)))"
            " and implies(o._state == OperationState.SUCCEEDED, o.g_started and o.g_finished_ok)"
            " and implies(o._state == OperationState.FAILED, o._stored_error is not None)"
            " and implies(o._state == OperationState.SKIPPED, not o.g_started and"
            "        exists(j, 'int', 0 <= j and j < seq_len(o._exe_deps) and"
            "               (select(o._exe_deps, j)._state == OperationState.FAILED or select(o._exe_deps, j)._state == OperationState.SKIPPED)))",
        "op_inv(o)": "implies(o.g_inplan, edges_wf(o) and marks_ok(o) and phase_ok(o) and ran_ok(o))",
        "ops_inv()": "forall(o, 'Operation', op_inv(o))",
        # ready queues: duplicate-free, only ready (phase 1) operations of the plan, sorted by kind
        "q_inv(q)":
            "all(x.g_inplan and x.g_phase == 1 and not x.parallelizable for x in q._sequential_ops)"
            " and all(x.g_inplan and x.g_phase == 1 and x.parallelizable for x in q._parallel_ops)"
            " and forall(i, 'int', forall(k, 'int', implies(lo(q._sequential_ops) <= i and i < k and k < hi(q._sequential_ops),"
            "        abs_select(q._sequential_ops, i) != abs_select(q._sequential_ops, k))))"
            " and forall(i, 'int', forall(k, 'int', implies(lo(q._parallel_ops) <= i and i < k and k < hi(q._parallel_ops),"
            "        abs_select(q._parallel_ops, i) != abs_select(q._parallel_ops, k))))",
        # one registered (handle, operation) pair of executor e
        "entry_ok(e, h, o)":
            "allocated(h) and o.g_inplan and o.g_phase == 2 and o._state == OperationState.QUEUED and o.g_started"
            " and o.parallelizable == e._running_parallel"
            " and ((h.slot is not None) == (e._running_parallel and e._slots > 1))"
            " and implies(h.slot is not None, 0 <= some(h.slot) and some(h.slot) < e._slots and"
            "        all(s != some(h.slot) for s in e._available_slots))",
        "infl_procs(e)":
            "forall(p, 'int', implies(p in e._inflight_ops._processes,"
            "     e._inflight_ops._processes[p][0].pid == p and entry_ok(e, e._inflight_ops._processes[p][0], e._inflight_ops._processes[p][1])))",
        "infl_procs_distinct(e)":
            "forall(p, 'int', forall(p2, 'int', implies(p in e._inflight_ops._processes and p2 in e._inflight_ops._processes and p != p2,"
            "     e._inflight_ops._processes[p][0] != e._inflight_ops._processes[p2][0] and e._inflight_ops._processes[p][1] != e._inflight_ops._processes[p2][1]"
            "     and implies(e._inflight_ops._processes[p][0].slot is not None, e._inflight_ops._processes[p][0].slot != e._inflight_ops._processes[p2][0].slot))))",
        "infl_sync(e)":
            "forall(i, 'int', implies(0 <= i and i < seq_len(e._inflight_ops._sync_ops),"
            "     select(e._inflight_ops._sync_ops, i)[0].pid is None and entry_ok(e, select(e._inflight_ops._sync_ops, i)[0], select(e._inflight_ops._sync_ops, i)[1])))",
        "infl_sync_distinct(e)":
            "forall(i, 'int', forall(k, 'int', implies(0 <= i and i < k and k < seq_len(e._inflight_ops._sync_ops),"
            "     select(e._inflight_ops._sync_ops, i)[0] != select(e._inflight_ops._sync_ops, k)[0] and select(e._inflight_ops._sync_ops, i)[1] != select(e._inflight_ops._sync_ops, k)[1]"
            "     and implies(select(e._inflight_ops._sync_ops, i)[0].slot is not None, select(e._inflight_ops._sync_ops, i)[0].slot != select(e._inflight_ops._sync_ops, k)[0].slot))))",
        "infl_cross(e)":
            "forall(p, 'int', forall(i, 'int', implies(p in e._inflight_ops._processes and 0 <= i and i < seq_len(e._inflight_ops._sync_ops),"
            "     e._inflight_ops._processes[p][0] != select(e._inflight_ops._sync_ops, i)[0] and e._inflight_ops._processes[p][1] != select(e._inflight_ops._sync_ops, i)[1]"
            "     and implies(e._inflight_ops._processes[p][0].slot is not None, e._inflight_ops._processes[p][0].slot != select(e._inflight_ops._sync_ops, i)[0].slot))))",
        "inflight_inv(e)": "infl_procs(e) and infl_procs_distinct(e) and infl_sync(e) and infl_sync_distinct(e) and infl_cross(e)",
        "comp_inv(e)": "all(x.g_inplan and x.g_phase == 3 for x in e._completed_ops)",
        "n_inflight(e)": "card(e._inflight_ops._processes) + seq_len(e._inflight_ops._sync_ops)",
        # C04: bound, exclusivity, slot free-list
        "slots_inv(e)":
            "e._slots > 0 and n_inflight(e) <= e._slots"
            " and implies(not e._running_parallel, n_inflight(e) <= 1)"
            " and all(0 <= s and s < e._slots for s in e._available_slots)"
            " and forall(i, 'int', forall(k, 'int', implies(0 <= i and i < k and k < seq_len(e._available_slots),"
            "        select(e._available_slots, i) != select(e._available_slots, k))))"
            " and seq_len(e._available_slots) == e._slots - ite(e._running_parallel and e._slots > 1, n_inflight(e), 0)",
    },
)

CONTRACTS = [
    # ------------------------------------------------------------------ operation.py
    Contract(OP + "::Operation.decrement_deps_of_waiting_on", props=["C01", "C03", "C09"],
             requires=[C("symmetric_edges", "edges_wf(self)"),
                       C("dependents_count_correctly", "forall(i, 'int', implies(0 <= i and i < seq_len(self._deps_of), marks_ok(select(self._deps_of, i))))"),
                       C("this_completion_not_counted_yet", "forall(i, 'int', implies(0 <= i and i < seq_len(self._deps_of),"
                                                            " not select(select(self._deps_of, i).g_marks, select(self.g_back, i))))")],
             modifies=["Operation._waiting_on", "Operation.g_marks"],
             ensures=[C("each_dependent_decremented_once",
                        "forall(i, 'int', implies(0 <= i and i < seq_len(self._deps_of),"
                        "   select(self._deps_of, i)._waiting_on == old(select(self._deps_of, i)._waiting_on) - 1 and"
                        "   select(self._deps_of, i).g_marks == store(old(select(self._deps_of, i).g_marks), select(self.g_back, i), True)))"),
                      C("nothing_else_touched",
                        "forall(o, 'Operation', implies(forall(i, 'int', implies(0 <= i and i < seq_len(self._deps_of), select(self._deps_of, i) != o)),"
                        "   o._waiting_on == old(o._waiting_on) and o.g_marks == old(o.g_marks)))")],
             loops={0: Loop(header="for dep_of in self.deps_of:", index="i",
                            modifies=["Operation._waiting_on", "Operation.g_marks"],
                            invariant=[
                                C("done_prefix", "forall(k, 'int', implies(0 <= k and k < i,"
                                                 " select(self._deps_of, k)._waiting_on == old(select(self._deps_of, k)._waiting_on) - 1 and"
                                                 " select(self._deps_of, k).g_marks == store(old(select(self._deps_of, k).g_marks), select(self.g_back, k), True)))"),
                                C("untouched_suffix", "forall(k, 'int', implies(i <= k and k < seq_len(self._deps_of),"
                                                      " select(self._deps_of, k)._waiting_on == old(select(self._deps_of, k)._waiting_on) and"
                                                      " select(self._deps_of, k).g_marks == old(select(self._deps_of, k).g_marks)))"),
                                C("frame", "forall(o, 'Operation', implies(forall(k, 'int', implies(0 <= k and k < seq_len(self._deps_of), select(self._deps_of, k) != o)),"
                                           " o._waiting_on == old(o._waiting_on) and o.g_marks == old(o.g_marks)))"),
                            ])},
             ghost=[Ghost("use_lemma('cnt_full', dep_of.g_marks, seq_len(dep_of._exe_deps))\nuse_lemma('cnt_range', dep_of.g_marks, seq_len(dep_of._exe_deps))",
                          before="dep_of._decrement_waiting_on()"),
                    Ghost("dep_of.g_marks = store(dep_of.g_marks, select(self.g_back, i), True)", after="dep_of._decrement_waiting_on()")],
             inline=["_decrement_waiting_on"]),

    # ------------------------------------------------------------------ assumed (A-OS)
    Contract("ext::SigchldHelper.instance", returns="SigchldHelper", trusted_reason="singleton accessor"),
    Contract("ext::SigchldHelper.wait", returns="Tuple[int,int]", modifies=["g_reaped"],
             ensures=["result[0] in g_reaped", "result[1] == ExitStatus(result[0])"],
             trusted_reason="A-OS: wait() returns (pid, status) of a child that has been reaped by waitpid; verified separately in contracts/sigchld.py"),

    # ------------------------------------------------------------------ _InflightOperations
    Contract(F + "::_InflightOperations.wait_for_next_op", returns=HANDLE_OP, props=["C09", "C01", "C03", "C04"],
             prefer_ext={"SigchldHelper.wait": "SigchldHelper.wait"},
             locals={"pid": "int", "returncode": "int"},
             requires=[C("registry_keyed_by_handle_pid", "forall(p, 'int', implies(p in self._processes, self._processes[p][0].pid == p))")],
             modifies=["dict@self._processes", "list@self._sync_ops", "OperationExecutionHandle.returncode", "g_reaped"],
             ensures=[
                 C("sync_first", "implies(old(seq_len(self._sync_ops)) > 0,"
                                 " result == old(select(self._sync_ops, seq_len(self._sync_ops) - 1)) and seq_len(self._sync_ops) == old(seq_len(self._sync_ops)) - 1"
                                 " and unchanged('region:procs') and unchanged('OperationExecutionHandle.returncode')"
                                 " and forall(i, 'int', implies(0 <= i and i < seq_len(self._sync_ops), select(self._sync_ops, i) == old(select(self._sync_ops, i)))))"),
                 C("otherwise_a_registered_process", "implies(old(seq_len(self._sync_ops)) == 0,"
                                                     " result[0].pid is not None and old(some(result[0].pid) in self._processes)"
                                                     " and old(self._processes[some(result[0].pid)]) == result)", "C09"),
                 C("attributed_to_the_reaped_pid", "implies(old(seq_len(self._sync_ops)) == 0,"
                                                   " some(result[0].pid) in g_reaped and result[0].returncode == ExitStatus(some(result[0].pid)))", "C09", "C01", "C03"),
                 C("unregistered_once", "implies(old(seq_len(self._sync_ops)) == 0,"
                                        " not (some(result[0].pid) in self._processes) and card(self._processes) == old(card(self._processes)) - 1"
                                        " and forall(p, 'int', implies(p != some(result[0].pid), (p in self._processes) == old(p in self._processes)"
                                        "       and implies(p in self._processes, self._processes[p] == old(self._processes[p]))))"
                                        " and unchanged('region:sync'))"),
                 C("other_handles_untouched", "forall(h, 'OperationExecutionHandle', implies(h != result[0], h.returncode == old(h.returncode)))"),
             ],
             loops={0: Loop(header="while True:", modifies=["g_reaped"], invariant=[])}),

    # ------------------------------------------------------------------ Executor._process_finished_op
    Contract(F + "::Executor._process_finished_op", params={"finished_op": "Operation"}, props=["C01", "C03", "C09", "C02"],
             requires=[
                 C("others_consistent", "forall(o, 'Operation', implies(o != finished_op, op_inv(o)))"),
                 C("finished_op_was_dequeued", "finished_op.g_inplan and finished_op.g_phase == 2 and not (finished_op._waiting_on > 0)"
                                               " and edges_wf(finished_op) and marks_ok(finished_op)"),
                 C("finished_op_has_final_state", "finished_op._state == OperationState.SUCCEEDED or finished_op._state == OperationState.FAILED"
                                                  " or finished_op._state == OperationState.SKIPPED"),
                 C("finished_op_ran_ok", "ran_ok(finished_op)"),
                 C("queues_consistent", "q_inv(self._ready_to_run)"),
                 C("completed_list", "comp_inv(self)"),
             ],
             modifies=["list@self._completed_ops", "deque@self._ready_to_run._sequential_ops", "deque@self._ready_to_run._parallel_ops",
                       "Operation._waiting_on", "Operation.g_marks", "Operation.g_phase"],
             ensures=[
                 C("all_operations_consistent", "ops_inv()"),
                 C("queues_consistent", "q_inv(self._ready_to_run)"),
                 C("completed_list", "comp_inv(self)"),
                 C("recorded_as_completed", "finished_op.g_phase == 3 and seq_len(self._completed_ops) == old(seq_len(self._completed_ops)) + 1"
                                            " and select(self._completed_ops, seq_len(self._completed_ops) - 1) == finished_op"
                                            " and forall(i, 'int', implies(0 <= i and i < old(seq_len(self._completed_ops)), select(self._completed_ops, i) == old(select(self._completed_ops, i))))"),
                 C("only_waiting_operations_become_ready", "forall(o, 'Operation', implies(o != finished_op,"
                                                           " o.g_phase == old(o.g_phase) or (old(o.g_phase) == 0 and o.g_phase == 1)))"),
             ],
             inline=["enqueue_op"],
             loops={0: Loop(header="for dep_of in finished_op.deps_of:", index="i",
                            modifies=["deque@self._ready_to_run._sequential_ops", "deque@self._ready_to_run._parallel_ops", "Operation.g_phase"],
                            invariant=[
                                C("processed_dependents_classified", "forall(k, 'int', implies(0 <= k and k < i,"
                                                                     " (select(finished_op._deps_of, k).g_phase == 0) == (select(finished_op._deps_of, k)._waiting_on > 0)"
                                                                     " and (select(finished_op._deps_of, k).g_phase == 0 or select(finished_op._deps_of, k).g_phase == 1)))"),
                                C("pending_dependents_still_waiting", "forall(k, 'int', implies(i <= k and k < seq_len(finished_op._deps_of),"
                                                                      " select(finished_op._deps_of, k).g_phase == 0))"),
                                C("others_phase_unchanged", "forall(o, 'Operation', implies(forall(k, 'int', implies(0 <= k and k < seq_len(finished_op._deps_of), select(finished_op._deps_of, k) != o)),"
                                                            " o.g_phase == at_loop(o.g_phase)))"),
                                C("queues_consistent", "q_inv(self._ready_to_run)"),
                            ])},
             ghost=[Ghost("finished_op.g_phase = 3\n"
                          "use(forall(k, 'int', implies(0 <= k and k < seq_len(finished_op._deps_of),"
                          " lemma('cnt_store', old(select(finished_op._deps_of, k).g_marks), select(finished_op.g_back, k), seq_len(select(finished_op._deps_of, k)._exe_deps)))))\n"
                          "use(forall(k, 'int', implies(0 <= k and k < seq_len(finished_op._deps_of),"
                          " lemma('cnt_range', select(finished_op._deps_of, k).g_marks, seq_len(select(finished_op._deps_of, k)._exe_deps)))))",
                          after="finished_op.decrement_deps_of_waiting_on()"),
                    Ghost("dep_of.g_phase = 1", after="self._ready_to_run.enqueue_op(dep_of)")]),

    # ------------------------------------------------------------------ Operation.start/finish (base-class contracts;
    # every override is verified against them: behavioural subtyping, see contracts/run_task_executable.py)
    Contract(OP + "::Operation.start_execution", params={"ctx": "Context", "slot": "Opt[int]"}, returns="OperationExecutionHandle",
             extern=True, fresh_result=True, props=["C01", "C03", "C04"],
             requires=[C("every_dependency_succeeded", "all(d._state == OperationState.SUCCEEDED or d._state == OperationState.SUCCEEDED_CACHED for d in self._exe_deps)", "C01"),
                       C("not_started_before", "not self.g_started", "C02", "C09"),
                       C("nothing_starts_after_a_failure_with_stop_early", "implies(g_stop_mode, not g_failure_seen)", "C03")],
             modifies=["Operation.g_started@self"],
             ensures=["self.g_started", "result.returncode is None", "result.slot is None"],
             raises={"ConductorAbort": [], "ConductorError+": []},
             trusted_reason="abstract method: the contract every override must refine"),
    Contract(OP + "::Operation.finish_execution", params={"handle": "OperationExecutionHandle", "ctx": "Context"},
             extern=True, props=["C01", "C03", "C06"],
             requires=[C("handle_was_reaped", "handle.pid is None or some(handle.pid) in g_reaped", "C01")],
             modifies=["Operation.g_finished_ok@self"],
             ensures=[C("exit_status_zero", "self.g_finished_ok and implies(handle.pid is not None, handle.returncode is not None and some(handle.returncode) == 0)")],
             raises={"ConductorAbort": [], "ConductorError+": ["not self.g_finished_ok"]},
             trusted_reason="abstract method: the contract every override must refine"),

    # ------------------------------------------------------------------ Executor._wait_for_next_inflight_op
    Contract(F + "::Executor._wait_for_next_inflight_op", params={"ctx": "Context", "stop_on_first_error": "bool"}, returns="bool",
             props=["C01", "C03", "C04", "C09"],
             requires=[C("ops", "ops_inv()"), C("queues", "q_inv(self._ready_to_run)"), C("inflight", "inflight_inv(self)"),
                       C("slots", "slots_inv(self)"), C("something_in_flight", "n_inflight(self) > 0"), C("completed_list", "comp_inv(self)"),
                       C("stop_flag", "g_stop_mode == stop_on_first_error and implies(g_stop_mode, not g_failure_seen)")],
             modifies=["dict@self._inflight_ops._processes", "list@self._inflight_ops._sync_ops", "OperationExecutionHandle.returncode",
                       "g_reaped", "Operation.g_finished_ok", "Operation._state", "Operation._stored_error", "list@self._available_slots",
                       "list@self._completed_ops", "deque@self._ready_to_run._sequential_ops", "deque@self._ready_to_run._parallel_ops",
                       "Operation._waiting_on", "Operation.g_marks", "Operation.g_phase", "g_failure_seen"],
             ensures=[C("ops", "ops_inv()"), C("queues", "q_inv(self._ready_to_run)"),
                      C("inflight_procs", "infl_procs(self)"), C("inflight_procs_distinct", "infl_procs_distinct(self)"),
                      C("inflight_sync", "infl_sync(self)"), C("inflight_sync_distinct", "infl_sync_distinct(self)"),
                      C("inflight_cross", "infl_cross(self)"),
                      C("slots", "slots_inv(self)", "C04"), C("completed_list", "comp_inv(self)"),
                      C("stops_exactly_on_failure_with_stop_early", "result == (g_stop_mode and g_failure_seen)", "C03"),
                      C("one_fewer_in_flight", "n_inflight(self) == old(n_inflight(self)) - 1", "C09", "C04"),
                      C("stop_only_on_error_with_stop_early", "implies(result, stop_on_first_error)", "C03"),
                      C("mode_unchanged", "self._running_parallel == old(self._running_parallel) and self._slots == old(self._slots)")],
             raises={"ConductorAbort": []},
             ghost=[Ghost("g_failure_seen = True", after="op.set_state(OperationState.FAILED)")],
             inline=["set_state", "store_error", "_print_op_failed"]),

    # ------------------------------------------------------------------ Executor._launch_ops_if_able
    Contract(F + "::Executor._launch_ops_if_able", params={"ctx": "Context", "stop_on_first_error": "bool"}, returns="bool",
             props=["C01", "C03", "C04", "C09", "C02"],
             requires=[C("ops", "ops_inv()"), C("queues", "q_inv(self._ready_to_run)"),
                       C("inflight_procs", "infl_procs(self)"), C("inflight_procs_distinct", "infl_procs_distinct(self)"),
                       C("inflight_sync", "infl_sync(self)"), C("inflight_sync_distinct", "infl_sync_distinct(self)"),
                       C("inflight_cross", "infl_cross(self)"), C("slots", "slots_inv(self)"), C("completed_list", "comp_inv(self)"),
                       C("stop_flag", "g_stop_mode == stop_on_first_error and implies(g_stop_mode, not g_failure_seen)")],
             modifies=["dict@self._inflight_ops._processes", "list@self._inflight_ops._sync_ops", "OperationExecutionHandle.slot",
                       "Operation.g_started", "Operation._state", "Operation._stored_error", "list@self._available_slots",
                       "list@self._completed_ops", "deque@self._ready_to_run._sequential_ops", "deque@self._ready_to_run._parallel_ops",
                       "Operation._waiting_on", "Operation.g_marks", "Operation.g_phase", "Executor._running_parallel@self",
                       "Executor._num_tasks_dequeued@self", "$alloc", "g_failure_seen"],
             ensures=[C("ops", "ops_inv()"), C("queues", "q_inv(self._ready_to_run)"),
                      C("inflight_procs", "infl_procs(self)"), C("inflight_procs_distinct", "infl_procs_distinct(self)"),
                      C("inflight_sync", "infl_sync(self)"), C("inflight_sync_distinct", "infl_sync_distinct(self)"),
                      C("inflight_cross", "infl_cross(self)"), C("slots", "slots_inv(self)", "C04"), C("completed_list", "comp_inv(self)"),
                      C("stops_exactly_on_failure_with_stop_early", "result == (g_stop_mode and g_failure_seen)", "C03")],
             raises={"ConductorAbort": []},
             inline=["dequeue_next", "has_ops", "has_parallelizable_ops", "add_op", "set_state", "store_error", "_print_op_failed",
                     "_get_progress_string", "exe_deps_succeeded", "succeeded"],
             loops={0: Loop(header="while True:", modifies=["dict@self._inflight_ops._processes", "list@self._inflight_ops._sync_ops", "OperationExecutionHandle.slot",
                       "Operation.g_started", "Operation._state", "Operation._stored_error", "list@self._available_slots",
                       "list@self._completed_ops", "deque@self._ready_to_run._sequential_ops", "deque@self._ready_to_run._parallel_ops",
                       "Operation._waiting_on", "Operation.g_marks", "Operation.g_phase", "Executor._running_parallel@self",
                       "Executor._num_tasks_dequeued@self", "$alloc", "g_failure_seen"],
                            invariant=[C("ops", "ops_inv()"), C("queues", "q_inv(self._ready_to_run)"),
                                       C("inflight_procs", "infl_procs(self)"), C("inflight_procs_distinct", "infl_procs_distinct(self)"),
                                       C("inflight_sync", "infl_sync(self)"), C("inflight_sync_distinct", "infl_sync_distinct(self)"),
                                       C("inflight_cross", "infl_cross(self)"), C("slots", "slots_inv(self)", "C04"), C("completed_list", "comp_inv(self)"),
                                       C("no_failure_seen_in_stop_mode", "implies(g_stop_mode, not g_failure_seen)", "C03")])},
             ghost=[
                 Ghost("assert forall(p, 'int', implies(p in self._inflight_ops._processes, self._inflight_ops._processes[p][1] != next_op))\n"
                       "assert forall(i, 'int', implies(0 <= i and i < seq_len(self._inflight_ops._sync_ops), select(self._inflight_ops._sync_ops, i)[1] != next_op))\n"
                       "use_lemma('cnt_range', next_op.g_marks, seq_len(next_op._exe_deps))\n"
                       "use_lemma('cnt_full', next_op.g_marks, seq_len(next_op._exe_deps))\n"
                       "next_op.g_phase = 2",
                       after="next_op = self._ready_to_run.dequeue_next()"),
                 Ghost("g_failure_seen = True", after="next_op.set_state(OperationState.FAILED)"),
                 # A-OS: the kernel never hands out the pid of a child that has not been reaped yet
                 Ghost("assume(handle.pid is None or not (some(handle.pid) in self._inflight_ops._processes))",
                       before="self._inflight_ops.add_op(handle, next_op)"),
             ]),

    # ------------------------------------------------------------------ small helpers
    Contract("ext::os.getpgid", params={"pid": "int"}, returns="int", ensures=["result == Pgid(pid)"],
             raises={"OSError": ["implies(exc.errno == ext_errno_ESRCH or exc.errno == ext_errno_ECHILD, Gone(pid))"]},
             trusted_reason="A-OS: os.getpgid; ESRCH/ECHILD mean the process is gone"),
    Contract("ext::os.killpg", params={"pgid": "int", "sig": "int"}, modifies=["g_killed"],
             ensures=["implies(sig == ext_signal_SIGTERM, pgid in g_killed)",
                      "forall(x, 'int', implies(old(x in g_killed), x in g_killed))"],
             raises={"OSError": ["implies(exc.errno == ext_errno_ESRCH or exc.errno == ext_errno_ECHILD, forall(p, 'int', implies(Pgid(p) == pgid, Gone(p))))",
                                 "forall(x, 'int', implies(old(x in g_killed), x in g_killed))"]},
             trusted_reason="A-OS: os.killpg delivers the signal to every process of the group"),

    Contract(F + "::_InflightOperations.terminate_processes", props=["C03", "C16"],
             modifies=["g_killed"],
             ensures=[C("every_registered_group_signalled",
                        "forall(p, 'int', implies(p in self._processes and self._processes[p][0].pid is not None,"
                        " Pgid(some(self._processes[p][0].pid)) in g_killed or Gone(some(self._processes[p][0].pid)) or Pgid(some(self._processes[p][0].pid)) < 0))"),
                      C("kills_accumulate", "forall(x, 'int', implies(old(x in g_killed), x in g_killed))")],
             raises={"OSError": []},
             loops={0: Loop(header="for (handle, _) in self._processes.values():", index="i", modifies=["g_killed"],
                            invariant=[C("kills_accumulate", "forall(x, 'int', implies(old(x in g_killed), x in g_killed))"),
                                       C("prefix_signalled", "forall(k, 'int', implies(0 <= k and k < i and self._processes[snap_key(k)][0].pid is not None,"
                                                             " Pgid(some(self._processes[snap_key(k)][0].pid)) in g_killed or Gone(some(self._processes[snap_key(k)][0].pid))"
                                                             " or Pgid(some(self._processes[snap_key(k)][0].pid)) < 0))")])}),

    Contract(F + "::_ReadyToRunQueue.load", params={"initial_ops": "List[Operation]#initops"}, props=["C09", "C01", "C02"],
             requires=[C("queues_consistent", "q_inv(self)"),
                       C("initial_ops_waiting_distinct",
                         "all(x.g_inplan and x.g_phase == 0 for x in initial_ops) and "
                         "forall(i, 'int', forall(k, 'int', implies(0 <= i and i < k and k < seq_len(initial_ops), select(initial_ops, i) != select(initial_ops, k))))")],
             modifies=["deque@self._sequential_ops", "deque@self._parallel_ops", "Operation.g_phase"],
             ensures=[C("queues_consistent", "q_inv(self)"),
                      C("initial_ops_ready", "all(x.g_phase == 1 for x in initial_ops)"),
                      C("others_untouched", "forall(o, 'Operation', implies(forall(k, 'int', implies(0 <= k and k < seq_len(initial_ops), select(initial_ops, k) != o)),"
                                            " o.g_phase == old(o.g_phase)))")],
             inline=["enqueue_op"],
             loops={0: Loop(header="for op in initial_ops:", index="i",
                            modifies=["deque@self._sequential_ops", "deque@self._parallel_ops", "Operation.g_phase"],
                            invariant=[C("queues_consistent", "q_inv(self)"),
                                       C("prefix_ready", "forall(k, 'int', implies(0 <= k and k < i, select(initial_ops, k).g_phase == 1))"),
                                       C("suffix_waiting", "forall(k, 'int', implies(i <= k and k < seq_len(initial_ops), select(initial_ops, k).g_phase == 0))"),
                                       C("others_untouched", "forall(o, 'Operation', implies(forall(k, 'int', implies(0 <= k and k < seq_len(initial_ops), select(initial_ops, k) != o)),"
                                                             " o.g_phase == old(o.g_phase)))")])},
             ghost=[Ghost("op.g_phase = 1", after="self.enqueue_op(op)")]),

    Contract("execution/plan.py::ExecutionPlan.reset_waiting_on", props=["C09", "C01"],
             modifies=["Operation._waiting_on"],
             ensures=[C("every_op_counts_all_its_dependencies", "all(x._waiting_on == seq_len(x._exe_deps) for x in self.all_ops)"),
                      C("others_untouched", "forall(o, 'Operation', implies(forall(k, 'int', implies(0 <= k and k < seq_len(self.all_ops), select(self.all_ops, k) != o)),"
                                            " o._waiting_on == old(o._waiting_on)))")],
             inline=["Operation.reset_waiting_on"],
             loops={0: Loop(header="for op in self.all_ops:", index="i", modifies=["Operation._waiting_on"],
                            invariant=[C("prefix_reset", "forall(k, 'int', implies(0 <= k and k < i, select(self.all_ops, k)._waiting_on == seq_len(select(self.all_ops, k)._exe_deps)))"),
                                       C("others_untouched", "forall(o, 'Operation', implies(forall(k, 'int', implies(0 <= k and k < seq_len(self.all_ops), select(self.all_ops, k) != o)),"
                                                             " o._waiting_on == old(o._waiting_on)))")])}),

    Contract(F + "::Executor._get_elapsed_time_string", params={"elapsed": "float"}, returns="str", extern=True,
             trusted_reason="cosmetic"),

    Contract(F + "::Executor._reset", props=["C04", "C09", "C03"],
             modifies=["deque@self._ready_to_run._sequential_ops", "deque@self._ready_to_run._parallel_ops", "list@self._completed_ops",
                       "dict@self._inflight_ops._processes", "list@self._inflight_ops._sync_ops", "Executor._running_parallel@self",
                       "Executor._available_slots@self", "Executor._num_tasks_to_run@self", "Executor._num_tasks_dequeued@self",
                       "list@self._available_slots", "g_killed", "$alloc"],
             requires=[C("positive_slots", "self._slots > 0")],
             ensures=[C("queues_empty", "seq_len(self._ready_to_run._sequential_ops) == 0 and seq_len(self._ready_to_run._parallel_ops) == 0"),
                      C("nothing_completed", "seq_len(self._completed_ops) == 0"),
                      C("nothing_in_flight", "card(self._inflight_ops._processes) == 0 and seq_len(self._inflight_ops._sync_ops) == 0"
                                             " and forall(p, 'int', not (p in self._inflight_ops._processes))"),
                      C("all_slots_free", "slots_inv(self)", "C04"),
                      C("slot_list_is_a_new_list", "fresh(self._available_slots)"),
                      C("sequential_mode", "not self._running_parallel and self._num_tasks_dequeued == 0")],
             raises={"OSError": []},
             inline=["clear"]),

    Contract(F + "::Executor._report_execution_results", params={"plan": "ExecutionPlan", "elapsed_time": "float"}, props=["C03", "C09"],
             locals={"failed_task_ops": "List[Operation]#failedl", "skipped_tasks": "List[TaskIdentifier]#skippedl"},
             requires=[C("failed_ops_carry_their_error", "all(implies(o._state == OperationState.FAILED, o._stored_error is not None) for o in self._completed_ops)"),
                       C("every_completed_op_reports_a_task", "all(o.main_task is not None for o in self._completed_ops)"),
                       # liveness part (DESIGN 5.9): decided by the bounded executor run, not by this proof
                       C("run_accounted_for", "any(o._state == OperationState.FAILED for o in self._completed_ops) or"
                                              " (all(succeeded(o) for o in self._completed_ops) and"
                                              "  (any(some(o.main_task)._identifier == plan.task_to_run._identifier for o in self._completed_ops) or"
                                              "   (seq_len(self._completed_ops) == 0 and any(t._identifier == plan.task_to_run._identifier for t in plan.cached_tasks))))")],
             modifies=["g_failed_printed", "g_skipped_printed"],
             ensures=[C("exit_zero_only_if_everything_succeeded", "all(succeeded(o) for o in self._completed_ops)", "C03")],
             raises={"ConductorError+": [
                 C("some_task_failed", "any(o._state == OperationState.FAILED for o in self._completed_ops)", "C03"),
                 C("raises_the_first_failure", "exists(i, 'int', 0 <= i and i < seq_len(self._completed_ops) and select(self._completed_ops, i)._state == OperationState.FAILED"
                                               " and select(self._completed_ops, i)._stored_error == exc"
                                               " and forall(k, 'int', implies(0 <= k and k < i, select(self._completed_ops, k)._state != OperationState.FAILED)))", "C03")]},
             inline=["succeeded"],
             loops={0: Loop(header="for op in self._completed_ops:", index="i",
                            modifies=["list@failed_task_ops", "list@skipped_tasks"],
                            invariant=[
                                C("failed_list_exact", "all(f._state == OperationState.FAILED and f._stored_error is not None and f.main_task is not None for f in failed_task_ops)"),
                                C("failed_list_complete", "forall(k, 'int', implies(0 <= k and k < i and select(self._completed_ops, k)._state == OperationState.FAILED,"
                                                          " select(self._completed_ops, k) in failed_task_ops))"),
                                C("first_failure_first", "implies(seq_len(failed_task_ops) > 0, exists(k, 'int', 0 <= k and k < i and select(self._completed_ops, k) == select(failed_task_ops, 0)"
                                                         " and forall(m, 'int', implies(0 <= m and m < k, select(self._completed_ops, m)._state != OperationState.FAILED))))"),
                                C("none_yet", "implies(seq_len(failed_task_ops) == 0, forall(k, 'int', implies(0 <= k and k < i, select(self._completed_ops, k)._state != OperationState.FAILED)))"),
                                C("lists_distinct", "failed_task_ops != self._completed_ops"),
                            ]),
                    1: Loop(header="for failed in failed_task_ops:", index="k2", modifies=[],
                            invariant=[C("failed_list_exact", "all(f._state == OperationState.FAILED and f._stored_error is not None and f.main_task is not None for f in failed_task_ops)")]),
                    2: Loop(header="for skipped in skipped_tasks:", index="k3", modifies=[], invariant=[])}),

    # ------------------------------------------------------------------ Executor.run_plan
    Contract("ext::with_exit:track", params={"tok": "any"}, trusted_reason="SIGCHLD tracking context: see contracts/sigchld.py"),
    Contract("ext::SigchldHelper.track", returns="any", trusted_reason="SIGCHLD tracking context: see contracts/sigchld.py"),

    Contract(F + "::Executor.run_plan", params={"plan": "ExecutionPlan", "ctx": "Context", "stop_on_first_error": "bool"},
             props=["C01", "C03", "C04", "C09", "C02"],
             requires=[
                 C("positive_slots", "self._slots > 0"),
                 C("plan_ops_marked", "all(x.g_inplan for x in plan.all_ops) and"
                                      " forall(o, 'Operation', implies(o.g_inplan, exists(i, 'int', 0 <= i and i < seq_len(plan.all_ops) and select(plan.all_ops, i) == o)))"),
                 C("plan_well_formed", "forall(o, 'Operation', implies(o.g_inplan, edges_wf(o) and o._state == OperationState.QUEUED and not o.g_started"
                                       " and o.main_task is not None))"),
                 # ghost state starts out empty (ghost fields are never assigned by real code, so this is no restriction)
                 C("ghost_initial", "forall(o, 'Operation', implies(o.g_inplan, o.g_phase == 0 and o.g_marks == const_arr('Arr[int,bool]', False)))"
                                    " and g_stop_mode == stop_on_first_error and not g_failure_seen"),
                 C("initial_ops_are_the_ops_without_dependencies",
                   "all(x.g_inplan and seq_len(x._exe_deps) == 0 for x in plan.initial_ops) and"
                   " forall(i, 'int', forall(k, 'int', implies(0 <= i and i < k and k < seq_len(plan.initial_ops), select(plan.initial_ops, i) != select(plan.initial_ops, k)))) and"
                   " forall(o, 'Operation', implies(o.g_inplan and seq_len(o._exe_deps) == 0, o in plan.initial_ops))"),
             ],
             modifies=["dict@self._inflight_ops._processes", "list@self._inflight_ops._sync_ops", "OperationExecutionHandle.slot", "OperationExecutionHandle.returncode",
                       "Operation.g_started", "Operation._state", "Operation._stored_error", "list@self._available_slots", "Executor._available_slots@self",
                       "list@self._completed_ops", "deque@self._ready_to_run._sequential_ops", "deque@self._ready_to_run._parallel_ops",
                       "Operation._waiting_on", "Operation.g_marks", "Operation.g_phase", "Operation.g_finished_ok", "Executor._running_parallel@self",
                       "Executor._num_tasks_dequeued@self", "Executor._num_tasks_to_run@self", "$alloc", "g_failure_seen", "g_reaped", "g_killed",
                       "g_failed_printed", "g_skipped_printed"],
             ensures=[C("exit_zero_only_if_everything_that_ran_succeeded", "all(succeeded(o) for o in self._completed_ops)", "C03"),
                      C("operations_consistent", "ops_inv()", "C01", "C03")],
             raises={"ConductorAbort": [C("every_running_task_group_was_signalled", "forall(p, 'int', implies(p in self._inflight_ops._processes and self._inflight_ops._processes[p][0].pid is not None, Pgid(some(self._inflight_ops._processes[p][0].pid)) in g_killed or Gone(some(self._inflight_ops._processes[p][0].pid)) or Pgid(some(self._inflight_ops._processes[p][0].pid)) < 0))", "C16")],
                     "OSError": [],
                     "ConductorError+": [C("some_task_failed", "any(o._state == OperationState.FAILED for o in self._completed_ops)", "C03"),
                                         C("running_tasks_signalled",
                                           "forall(p, 'int', implies(p in self._inflight_ops._processes and self._inflight_ops._processes[p][0].pid is not None,"
                                           " Pgid(some(self._inflight_ops._processes[p][0].pid)) in g_killed or Gone(some(self._inflight_ops._processes[p][0].pid))"
                                           " or Pgid(some(self._inflight_ops._processes[p][0].pid)) < 0))", "C03")]},
             inline=["has_ops", "succeeded"],
             loops={0: Loop(header="for cached_task in plan.cached_tasks:", index="ci", modifies=[], invariant=[]),
                    1: Loop(header="while self._ready_to_run.has_ops() or len(self._inflight_ops) > 0:",
                            modifies=["dict@self._inflight_ops._processes", "list@self._inflight_ops._sync_ops", "OperationExecutionHandle.slot", "OperationExecutionHandle.returncode",
                                      "Operation.g_started", "Operation._state", "Operation._stored_error", "list@self._available_slots",
                                      "list@self._completed_ops", "deque@self._ready_to_run._sequential_ops", "deque@self._ready_to_run._parallel_ops",
                                      "Operation._waiting_on", "Operation.g_marks", "Operation.g_phase", "Operation.g_finished_ok", "Executor._running_parallel@self",
                                      "Executor._num_tasks_dequeued@self", "$alloc", "g_failure_seen", "g_reaped"],
                            invariant=[C("ops", "ops_inv()"), C("queues", "q_inv(self._ready_to_run)"),
                                       C("inflight_procs", "infl_procs(self)"), C("inflight_procs_distinct", "infl_procs_distinct(self)"),
                                       C("inflight_sync", "infl_sync(self)"), C("inflight_sync_distinct", "infl_sync_distinct(self)"),
                                       C("inflight_cross", "infl_cross(self)"), C("slots", "slots_inv(self)", "C04"), C("completed_list", "comp_inv(self)"),
                                       C("no_failure_seen_in_stop_mode", "implies(g_stop_mode, not g_failure_seen)", "C03"),
                                       C("stop_mode_fixed", "g_stop_mode == stop_on_first_error and self._slots > 0")])},
             ghost=[
                 # C16: the running tasks are signalled FIRST in the abort handler -- before anything that can fail (the
                 # banner is written to a stdout that may be a closed pipe: `cond run ... | tee`, Ctrl-C)
                 Ghost("assert forall(p, 'int', implies(p in self._inflight_ops._processes and self._inflight_ops._processes[p][0].pid is not None, Pgid(some(self._inflight_ops._processes[p][0].pid)) in g_killed or Gone(some(self._inflight_ops._processes[p][0].pid)) or Pgid(some(self._inflight_ops._processes[p][0].pid)) < 0)), 'running_task_groups_are_signalled_before_the_abort_is_reported | props=C16'",
                       before="elapsed = time.time() - start"),
                 Ghost("use(forall(o, 'Operation', lemma('cnt_none', seq_len(o._exe_deps))))", before="self._ready_to_run.load(plan.initial_ops)"),
                 # liveness part of C09 / C03 (every planned operation has been completed when the loop ends without
                 # stop-early): not proved here -- bounded check C09.executor.terminates_every_op_one_outcome
                 Ghost("assume(any(o._state == OperationState.FAILED for o in self._completed_ops) or"
                       " (all(succeeded(o) for o in self._completed_ops) and"
                       "  (any(some(o.main_task)._identifier == plan.task_to_run._identifier for o in self._completed_ops) or"
                       "   (seq_len(self._completed_ops) == 0 and any(t._identifier == plan.task_to_run._identifier for t in plan.cached_tasks)))))",
                       before="self._report_execution_results(plan, elapsed_time=time.time() - start)"),
             ]),
]
