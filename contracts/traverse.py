"""task_types/base.py::TaskType.traverse, cli/archive.py::compute_tasks_to_archive -- C11: the visitor is called
exactly once for every task of the transitive closure and for nothing else.

Graph: Deps(t) = declared dependency list of task t (what the task index holds).  Containment in the closure is
proved for an ARBITRARY predicate Reach that contains the root and is closed under Deps (hence for the least
one); the converse by showing that the set of visited tasks contains the root and is closed.
"""
from pyvc.contract import ClassDecl, Contract, Logic, Lemma, C, Loop, Ghost

F = "task_types/base.py"

CLASSES = []

LOGIC = Logic(
    funcs={"Deps": (["TaskIdentifier"], "Seq[TaskIdentifier]"), "Reach": (["TaskIdentifier"], "bool"),
           "Archivable": (["TaskIdentifier"], "bool")},
    globals={"g_calls": "List[TaskIdentifier]#calls"},
    macros={"reach_closed()": "forall(t, 'TaskIdentifier', implies(Reach(t), forall(j, 'int', implies(0 <= j and j < seq_len(Deps(t)), Reach(select(Deps(t), j))))))"},
)

CONTRACTS = [
    Contract("ext::TaskIndex.get_task(traverse)", params={"identifier": "TaskIdentifier"}, returns="TaskType",
             requires=[C("only_loaded_tasks_are_looked_up", "Reach(identifier)")],
             ensures=["result._identifier == identifier", "result._deps == Deps(identifier)"],
             raises={}, trusted_reason="TaskIndex.get_task on a loaded closure returns the task with that identifier and its declared deps (C14 establishes 'loaded')"),
    Contract("ext::visitor", params={"task": "TaskType"}, modifies=["list@g_calls"],
             ensures=["seq_len(g_calls) == old(seq_len(g_calls)) + 1", "select(g_calls, seq_len(g_calls) - 1) == task._identifier",
                      "forall(k, 'int', implies(0 <= k and k < old(seq_len(g_calls)), select(g_calls, k) == old(select(g_calls, k))))"],
             trusted_reason="the visitor callback: recorded in the ghost call log"),

    Contract(F + "::TaskType.traverse", params={"ctx": "Context", "visitor": "any"}, props=["C11"],
             callables={"visitor": "ext::visitor"},
             prefer_ext={"TaskIndex.get_task": "TaskIndex.get_task(traverse)"},
             locals={"stack": "List[TaskIdentifier]#stk", "visited": "Set[TaskIdentifier]#vis"},
             requires=[C("closure_predicate", "Reach(self._identifier) and reach_closed()"), C("log_empty", "seq_len(g_calls) == 0")],
             modifies=["list@g_calls", "$alloc"],
             ensures=[
                 C("visited_exactly_once", "forall(i, 'int', forall(k, 'int', implies(0 <= i and i < k and k < seq_len(g_calls), select(g_calls, i) != select(g_calls, k))))"),
                 C("nothing_outside_the_closure", "all(Reach(c) for c in g_calls)"),
                 C("root_visited", "self._identifier in g_calls"),
                 C("closed_under_dependencies", "forall(i, 'int', implies(0 <= i and i < seq_len(g_calls),"
                                                " forall(j, 'int', implies(0 <= j and j < seq_len(Deps(select(g_calls, i))), select(Deps(select(g_calls, i)), j) in g_calls))))"),
             ],
             loops={
                 0: Loop(header="while len(stack) > 0:", modifies=["list@stack", "set@visited", "list@g_calls"],
                         invariant=[
                             C("log_distinct", "forall(i, 'int', forall(k, 'int', implies(0 <= i and i < k and k < seq_len(g_calls), select(g_calls, i) != select(g_calls, k))))"),
                             C("log_is_visited", "forall(x, 'TaskIdentifier', (x in visited) == (x in g_calls))"),
                             C("stack_in_closure", "all(Reach(s) for s in stack)"),
                             C("visited_in_closure", "forall(x, 'TaskIdentifier', implies(x in visited, Reach(x)))"),
                             C("deps_of_visited_are_visited_or_pending",
                               "forall(x, 'TaskIdentifier', implies(x in visited, forall(j, 'int', implies(0 <= j and j < seq_len(Deps(x)),"
                               " (select(Deps(x), j) in visited) or (select(Deps(x), j) in stack)))))"),
                             C("root_visited_or_pending", "(self._identifier in visited) or (self._identifier in stack)"),
                         ]),
                 1: Loop(header="for dep in task.deps:", index="j2", modifies=["list@stack"],
                         invariant=[
                             C("stack_in_closure", "all(Reach(s) for s in stack)"),
                             C("stack_only_grows", "seq_len(stack) >= at_loop(seq_len(stack)) and"
                                                   " forall(k, 'int', implies(0 <= k and k < at_loop(seq_len(stack)), select(stack, k) == at_loop(select(stack, k))))"),
                             C("processed_deps_visited_or_pending", "forall(m, 'int', implies(0 <= m and m < j2, (select(task._deps, m) in visited) or (select(task._deps, m) in stack)))"),
                         ]),
             }),
]
