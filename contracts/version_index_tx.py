"""execution/version_index.py -- the transaction discipline of the version index (C12, C06).

Ghost state of a sqlite connection: g_in_tx (an implicit transaction is open: what `Connection.in_transaction`
reports) and g_commits (number of commits so far).  A-SQL (assumed, checked boundedly by rt_sqlmodel): in the
default isolation mode a data-modifying statement opens a transaction that stays open until commit() /
rollback(); `with conn:` commits on normal exit and rolls back on an exception.

What is proved of the real methods: loading rows NEVER commits (bulk_load, copy_entries_to, insert_output_version
leave g_commits unchanged and the transaction open), commit_changes commits at most once and closes the
transaction, rollback_changes never commits.  restore.main's all-or-nothing argument (contracts/restore.py) uses
exactly these facts as call-site views.
"""
from pyvc.contract import ClassDecl, Contract, Logic, C, Loop, Ghost

F = "execution/version_index.py"

CLASSES = [
    ClassDecl("SqliteConnection", fields={"in_transaction": "bool"}, ghost={"g_commits": "int"}),
    ClassDecl("SqliteCursor", fields={"rowcount": "int"}, ghost={"g_conn": "SqliteConnection"}),
    ClassDecl("SqlRows"),
]

CONTRACTS = [
    Contract("ext::SqliteConnection.cursor", returns="SqliteCursor", fresh_result=True, ensures=["result.g_conn == self"],
             trusted_reason="sqlite3: a cursor of this connection"),
    Contract("ext::SqliteCursor.executemany", params={"sql": "str", "rows": "SqlRows"}, modifies=["SqliteConnection.in_transaction@self.g_conn", "SqliteCursor.rowcount@self"],
             ensures=["self.g_conn.in_transaction", "self.g_conn.g_commits == old(self.g_conn.g_commits)"],
             raises={"IntegrityError": ["self.g_conn.in_transaction", "self.g_conn.g_commits == old(self.g_conn.g_commits)"], "Exception+": []},
             trusted_reason="A-SQL: INSERT statements open (or continue) the implicit transaction and never commit; a duplicate key raises IntegrityError"),
    Contract("ext::SqliteCursor.execute(str,*)", params={"sql": "str", "params": "any"}, modifies=["SqliteConnection.in_transaction@self.g_conn", "SqliteCursor.rowcount@self"],
             ensures=["self.g_conn.in_transaction", "self.g_conn.g_commits == old(self.g_conn.g_commits)"],
             raises={"IntegrityError": ["self.g_conn.in_transaction", "self.g_conn.g_commits == old(self.g_conn.g_commits)"], "Exception+": []},
             trusted_reason="A-SQL: as executemany, for one INSERT"),
    Contract("ext::SqliteConnection.commit", modifies=["SqliteConnection.in_transaction@self", "SqliteConnection.g_commits@self"],
             ensures=["not self.in_transaction", "self.g_commits == old(self.g_commits) + 1"], trusted_reason="A-SQL: commit is atomic and ends the transaction"),
    Contract("ext::SqliteConnection.rollback", modifies=["SqliteConnection.in_transaction@self"],
             ensures=["not self.in_transaction"], trusted_reason="A-SQL: rollback discards the open transaction"),
    Contract("ext::with_exit:SqliteConnection", params={"tok": "SqliteConnection"}, modifies=["SqliteConnection.in_transaction@tok", "SqliteConnection.g_commits@tok"],
             ensures=["not tok.in_transaction", "tok.g_commits == old(tok.g_commits) + 1"],
             trusted_reason="A-SQL: leaving `with conn:` normally commits (an exception rolls back: not distinguished here, the stronger effect is assumed)"),

    Contract(F + "::VersionIndex.bulk_load", params={"rows": "SqlRows"}, returns="int", props=["C12", "C06"],
             modifies=["SqliteConnection.in_transaction@self._conn", "SqliteCursor.rowcount", "$alloc"],
             ensures=[C("loading_never_commits", "self._conn.g_commits == old(self._conn.g_commits)", "C12", "C06"),
                      C("transaction_left_open_for_the_caller", "self._conn.in_transaction", "C12")],
             raises={"IntegrityError": [C("loading_never_commits", "self._conn.g_commits == old(self._conn.g_commits)", "C12")], "Exception+": []}),
    Contract(F + "::VersionIndex.commit_changes", props=["C12", "C06"],
             modifies=["SqliteConnection.in_transaction@self._conn", "SqliteConnection.g_commits@self._conn"],
             ensures=[C("transaction_closed", "not self._conn.in_transaction", "C12"),
                      C("at_most_one_commit_and_only_of_an_open_transaction",
                        "self._conn.g_commits == old(self._conn.g_commits) + ite(old(self._conn.in_transaction), 1, 0)", "C12", "C06")]),
    Contract(F + "::VersionIndex.rollback_changes", props=["C12", "C06"],
             modifies=["SqliteConnection.in_transaction@self._conn"],
             ensures=[C("transaction_closed", "not self._conn.in_transaction", "C12"),
                      C("never_commits", "self._conn.g_commits == old(self._conn.g_commits)", "C12", "C06")]),
]
