"""execution/ops/combine_outputs.py, task_types/combine.py -- C18: after a combine task ran, its output directory
has, for each dependency with a non-empty output directory, an entry named after the dependency that resolves to
exactly that directory; foreign entries are reported, not overwritten.

Ghost file system: g_dirs (directories), g_entries (existing directory entries), g_link (symlink -> target text).
A-LIB (relpath law): Resolve(parent, Path_of(RelPath(d, parent))) == d.
"""
from pyvc.contract import ClassDecl, Contract, Logic, Lemma, C, Loop, Ghost

F = "execution/ops/combine_outputs.py"

CLASSES = [
    ClassDecl("CombineOutputs", file=F,
              fields={"_identifier": "TaskIdentifier", "_task": "TaskType", "_output_path": "Val[Path]",
                      "_deps_output_paths": "Seq[Tuple[TaskIdentifier,Val[Path]]]"}),
    ClassDecl("CombineOutputFileConflict", exception=True, bases=["ConductorError"]),
    ClassDecl("CombineDuplicateDepName", exception=True, bases=["ConductorError"]),
    ClassDecl("Combine", file="task_types/combine.py"),
]

LOGIC = Logic(
    funcs={"Path_of": (["str"], "Val[Path]"), "RelPath": (["Val[Path]", "Val[Path]"], "str"),
           "Resolve": (["Val[Path]", "Val[Path]"], "Val[Path]"), "Children": (["Val[Path]"], "Seq[Val[Path]]")},
    axioms=[C("relpath_law", "forall(d, 'Val[Path]', forall(p, 'Val[Path]', Resolve(p, Path_of(RelPath(d, p))) == d))"),
            C("join_parent", "forall(p, 'Val[Path]', forall(a, 'str', Path_parent(Path_join(p, a)) == p))")],
    globals={"g_entries": "Set[Val[Path]]#ents", "g_link": "Dict[Val[Path],Val[Path]]#links"},
)

CONTRACTS = [
    Contract("ext::pathlib.Path(str)", params={"s": "str"}, returns="Val[Path]", ensures=["result == Path_of(s)"], trusted_reason="pathlib.Path(text)"),
    Contract("ext::Path.is_dir", returns="bool", ensures=["result == (self in g_dirs)"], trusted_reason="A-LIB: is_dir() queries the file system (ghost g_dirs)"),
    Contract("ext::Path.iterdir", returns="Seq[Val[Path]]", ensures=["result == Children(self)"], raises={"OSError+": []}, trusted_reason="A-LIB: directory listing"),
    Contract("ext::os.path.relpath", params={"path": "Val[Path]", "start": "Val[Path]"}, returns="str", ensures=["result == RelPath(path, start)"],
             trusted_reason="A-LIB: os.path.relpath; law: resolving it from `start` gives `path` back"),
    Contract("ext::Path.exists", returns="bool", ensures=["result == (self in g_entries)"], trusted_reason="A-LIB: exists() (follows links; dangling links are outside the claim)"),
    Contract("ext::Path.is_symlink", returns="bool", ensures=["result == (self in g_link)"], trusted_reason="A-LIB"),
    Contract("ext::Path.unlink", varargs=True, modifies=["g_entries", "g_link"], requires=[],
             ensures=["forall(p, 'Val[Path]', (p in g_entries) == (old(p in g_entries) and p != self))",
                      "forall(p, 'Val[Path]', (p in g_link) == (old(p in g_link) and p != self) and implies(p in g_link, g_link[p] == old(g_link[p])))"],
             raises={"OSError+": []}, trusted_reason="A-LIB: unlink removes exactly that entry"),
    Contract("ext::Path.symlink_to", params={"target": "Val[Path]"}, modifies=["g_entries", "g_link"],
             requires=[C("never_overwrites_an_existing_entry", "not (self in g_entries)", "C18")],
             ensures=["forall(p, 'Val[Path]', (p in g_entries) == (old(p in g_entries) or p == self))",
                      "forall(p, 'Val[Path]', (p in g_link) == (old(p in g_link) or p == self) and implies(p in g_link and p != self, g_link[p] == old(g_link[p])))",
                      "g_link[self] == target"],
             raises={"OSError+": []}, trusted_reason="A-LIB: symlink_to creates exactly that link (fails if the entry exists)"),

    Contract(F + "::CombineOutputs.start_execution", params={"ctx": "Context", "slot": "Opt[int]"}, returns="OperationExecutionHandle",
             props=["C18", "C16"], fresh_result=True, uses=["relpath_law", "join_parent", "path_join_injective"],
             requires=[C("dependency_names_distinct",
                         "forall(i, 'int', forall(k, 'int', implies(0 <= i and i < k and k < seq_len(self._deps_output_paths),"
                         " select(self._deps_output_paths, i)[0]._name != select(self._deps_output_paths, k)[0]._name)))")],
             modifies=["g_dirs", "g_entries", "g_link", "$alloc"],
             ensures=[
                 C("every_non_empty_dependency_is_linked_under_its_name",
                   "forall(i, 'int', implies(0 <= i and i < seq_len(self._deps_output_paths) and (select(self._deps_output_paths, i)[1] in old(g_dirs))"
                   " and seq_len(Children(select(self._deps_output_paths, i)[1])) > 0,"
                   " (Path_join(self._output_path, select(self._deps_output_paths, i)[0]._name) in g_link) and"
                   " Resolve(self._output_path, g_link[Path_join(self._output_path, select(self._deps_output_paths, i)[0]._name)]) == select(self._deps_output_paths, i)[1]))"),
                 C("entries_of_other_names_untouched",
                   "forall(p, 'Val[Path]', implies(forall(i, 'int', implies(0 <= i and i < seq_len(self._deps_output_paths), p != Path_join(self._output_path, select(self._deps_output_paths, i)[0]._name))),"
                   " (p in g_entries) == old(p in g_entries) and (p in g_link) == old(p in g_link) and implies(p in g_link, g_link[p] == old(g_link[p]))))"),
                 C("foreign_entries_are_never_replaced",
                   "forall(p, 'Val[Path]', implies(old((p in g_entries) and not (p in g_link)), (p in g_entries) and not (p in g_link)))"),
                 C("synchronous", "result.pid is None and result.returncode is None and result.slot is None"),
             ],
             raises={"CombineOutputFileConflict": [C("a_foreign_entry_is_in_the_way", "exists(i, 'int', 0 <= i and i < seq_len(self._deps_output_paths) and"
                                                     " (Path_join(self._output_path, select(self._deps_output_paths, i)[0]._name) in g_entries) and"
                                                     " not (Path_join(self._output_path, select(self._deps_output_paths, i)[0]._name) in g_link))"),
                                                   C("foreign_entries_are_never_replaced",
                                                     "forall(p, 'Val[Path]', implies(old((p in g_entries) and not (p in g_link)), (p in g_entries) and not (p in g_link)))")],
                     "OSError+": []},
             loops={0: Loop(header="for (dep_id, dep_dir) in self._deps_output_paths:", index="i", modifies=["g_entries", "g_link"],
                            invariant=[
                                C("linked_so_far",
                                  "forall(k, 'int', implies(0 <= k and k < i and (select(self._deps_output_paths, k)[1] in g_dirs) and seq_len(Children(select(self._deps_output_paths, k)[1])) > 0,"
                                  " (Path_join(self._output_path, select(self._deps_output_paths, k)[0]._name) in g_link) and"
                                  " Resolve(self._output_path, g_link[Path_join(self._output_path, select(self._deps_output_paths, k)[0]._name)]) == select(self._deps_output_paths, k)[1]))"),
                                C("others_untouched",
                                  "forall(p, 'Val[Path]', implies(forall(k, 'int', implies(0 <= k and k < i, p != Path_join(self._output_path, select(self._deps_output_paths, k)[0]._name))),"
                                  " (p in g_entries) == at_loop(p in g_entries) and (p in g_link) == at_loop(p in g_link) and implies(p in g_link, g_link[p] == at_loop(g_link[p]))))"),
                                C("dirs_unchanged", "forall(d, 'Val[Path]', (d in g_dirs) == at_loop(d in g_dirs))"),
                                C("foreign_entries_kept", "forall(p, 'Val[Path]', implies(at_loop((p in g_entries) and not (p in g_link)), (p in g_entries) and not (p in g_link)))"),
                            ])}),

    # ------------------------------------------------------------------ task_types/combine.py: the precondition of the operation is established when the task is defined
    Contract("ext::TaskType.__init__", params={"identifier": "TaskIdentifier", "cond_file_path": "Val[Path]", "deps": "Seq[TaskIdentifier]"},
             modifies=["TaskType._identifier@self", "TaskType._cond_file_path@self", "TaskType._deps@self"],
             ensures=["self._identifier == identifier", "self._deps == deps"], trusted_reason="TaskType.__init__: three field assignments"),
    Contract("task_types/combine.py::Combine.__init__", params={"identifier": "TaskIdentifier", "cond_file_path": "Val[Path]", "deps": "Seq[TaskIdentifier]"},
             props=["C18", "C15"], locals={"task_names": "Set[str]#cnames"},
             prefer_ext={"TaskType.__init__": "TaskType.__init__"},
             modifies=["TaskType._identifier@self", "TaskType._cond_file_path@self", "TaskType._deps@self", "$alloc", "ConductorError.extra_context_set", "ConductorError.file_context_set"],
             ensures=[C("dependency_names_are_pairwise_distinct",
                        "forall(i, 'int', forall(k, 'int', implies(0 <= i and i < k and k < seq_len(deps), select(deps, i)._name != select(deps, k)._name)))", "C18", "C15"),
                      C("dependencies_kept_as_declared", "self._deps == deps and self._identifier == identifier", "C18")],
             raises={"CombineDuplicateDepName": [C("two_dependencies_share_a_name",
                                                   "exists(i, 'int', exists(k, 'int', 0 <= i and i < k and k < seq_len(deps) and select(deps, i)._name == select(deps, k)._name))", "C15")]},
             loops={0: Loop(header="for dep in deps:", index="n", modifies=["set@task_names"],
                            invariant=[C("names_seen", "forall(x, 'str', (x in task_names) == exists(i, 'int', 0 <= i and i < n and select(deps, i)._name == x))"),
                                       C("distinct_so_far", "forall(i, 'int', forall(k, 'int', implies(0 <= i and i < k and k < n, select(deps, i)._name != select(deps, k)._name)))")])}),
]
