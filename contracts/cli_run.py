"""cli/run.py, utils/user_code.py -- C03 (exit status), C04 (--jobs), C05 (flag validation, --at-least must be an
ancestor of HEAD), C14/C15 (nothing is planned or executed before the closure is loaded and validated; --check
stops there), C16 (abort reaches the CLI wrapper unchanged).

Ghost flags: g_closure_ok (set by load_transitive_closure on normal return), g_planned, g_ran (set by the
planner / executor contracts).  `main` must dominate planning and execution by a successful validation.
"""
from pyvc.contract import ClassDecl, Contract, Logic, Lemma, C, Loop, Ghost

F = "cli/run.py"

CLASSES = [
    ClassDecl("Namespace", fields={"jobs": "Opt[int]", "this_commit": "bool", "at_least": "Opt[str]", "again": "bool",
                                   "check": "bool", "stop_early": "bool", "task_identifier": "str", "debug": "bool",
                                   "dry_run": "bool", "verbose": "bool"}),
    ClassDecl("ExecutionPlanner", file="execution/planning/planner.py", fields={"_ctx": "Context"}),
    ClassDecl("SystemExit", exception=True, bases=["BaseException"]),
    ClassDecl("InvalidJobsCount", exception=True, bases=["ConductorError"]),
    ClassDecl("CannotSelectJobCount", exception=True, bases=["ConductorError"]),
    ClassDecl("CannotSetAgainAndCommit", exception=True, bases=["ConductorError"]),
    ClassDecl("CommitFlagUnsupported", exception=True, bases=["ConductorError"]),
    ClassDecl("InvalidCommitSymbol", exception=True, bases=["ConductorError"]),
    ClassDecl("CannotSetBothCommitFlags", exception=True, bases=["ConductorError"]),
    ClassDecl("AtLeastCommitNotAncestor", exception=True, bases=["ConductorError"]),
]

LOGIC = Logic(globals={"g_closure_ok": "bool", "g_planned": "bool", "g_ran": "bool", "g_exit_code": "int",
                       "g_plan_again": "bool", "g_plan_at_least": "Opt[str]", "g_jobs": "int", "g_stop_early": "bool"})

CONTRACTS = [
    # ------------------------------------------------------------------ assumed / proved elsewhere
    Contract("ext::multiprocessing.cpu_count", returns="int", ensures=["result >= 1"], raises={"ValueError": []},
             trusted_reason="A-LIB: cpu_count() is a positive integer (or raises)"),
    Contract("ext::TaskIndex.load_transitive_closure(cli)", params={"task_identifier": "TaskIdentifier"},
             modifies=["g_closure_ok"], ensures=["g_closure_ok"], raises={"ConductorError+": ["not g_closure_ok"]},
             trusted_reason="proved in contracts/task_index.py (C14): normal return <=> the closure is complete, acyclic and duplicate-free"),
    Contract("ext::Git.rev_parse(cli)", params={"commit_symbol": "str"}, returns="Opt[str]",
             trusted_reason="A-GIT: git rev-parse"),
    Contract("ext::ExecutionPlanner.create_plan_for", params={"task_id": "TaskIdentifier", "run_again": "bool", "at_least_commit": "Opt[str]"},
             returns="ExecutionPlan", fresh_result=True,
             requires=[C("closure_validated_first", "g_closure_ok", "C14", "C15"),
                       C("at_least_commit_is_an_ancestor_of_head", "implies(at_least_commit is not None, Head(self._ctx) is not None and Anc(some(at_least_commit), some(Head(self._ctx))._hash))", "C05")],
             modifies=["g_planned", "g_plan_again", "g_plan_at_least"],
             ensures=["g_planned", "g_plan_again == run_again", "g_plan_at_least == at_least_commit"],
             raises={"ConductorError+": []},
             trusted_reason="call-site contract of the planner; its body is verified in contracts/planner.py"),
    Contract("ext::Executor", params={"execution_slots": "int"}, returns="Executor", fresh_result=True,
             requires=[C("at_least_one_slot", "execution_slots >= 1", "C04")], modifies=["g_jobs"],
             ensures=["result._slots == execution_slots", "g_jobs == execution_slots"],
             trusted_reason="Executor.__init__ (asserts execution_slots > 0)"),
    Contract("ext::Executor.run_plan", params={"plan": "ExecutionPlan", "ctx": "Context", "stop_on_first_error": "bool"},
             requires=[C("planned_first", "g_planned", "C14")], modifies=["g_ran", "g_stop_early"],
             ensures=["g_ran", "g_stop_early == stop_on_first_error"],
             raises={"ConductorError+": ["g_ran"], "ConductorAbort": ["g_ran"]},
             trusted_reason="call-site view of Executor.run_plan; its body is verified in contracts/executor.py"),

    # ------------------------------------------------------------------ cli/run.py
    Contract(F + "::validate_and_retrieve_jobs_count", params={"args": "Namespace"}, returns="int", props=["C04"],
             ensures=[C("at_least_one_job", "result >= 1"),
                      C("default_is_sequential", "implies(args.jobs is None, result == 1)"),
                      C("explicit_value_used", "implies(args.jobs is not None and some(args.jobs) != -1, result == some(args.jobs))")],
             raises={"InvalidJobsCount": [C("non_positive_rejected", "args.jobs is not None and some(args.jobs) != -1 and some(args.jobs) <= 0")],
                     "CannotSelectJobCount": []}),

    Contract(F + "::validate_args", params={"args": "Namespace", "ctx": "Context"}, props=["C05"],
             ensures=[C("flags_compatible",
                        "not (args.this_commit and args.at_least is not None) and"
                        " implies(args.this_commit or args.at_least is not None, not args.again and GitUsed(ctx) and Head(ctx) is not None)")],
             raises={"CannotSetBothCommitFlags": ["args.this_commit and args.at_least is not None"],
                     "CannotSetAgainAndCommit": ["args.again and (args.this_commit or args.at_least is not None)"],
                     "CommitFlagUnsupported": ["(args.this_commit or args.at_least is not None) and (not GitUsed(ctx) or Head(ctx) is None)"]}),

    Contract(F + "::main", params={"args": "Namespace"}, props=["C05", "C14", "C15", "C04", "C03"],
             prefer_ext={"Executor.run_plan": "Executor.run_plan", "ExecutionPlanner.create_plan_for": "ExecutionPlanner.create_plan_for",
                         "TaskIndex.load_transitive_closure": "TaskIndex.load_transitive_closure(cli)", "Git.rev_parse": "Git.rev_parse(cli)"},
             requires=[C("fresh_invocation", "not g_closure_ok and not g_planned and not g_ran")],
             modifies=["g_root_found", "g_closure_ok", "g_planned", "g_ran", "g_plan_again", "g_plan_at_least", "g_jobs", "g_stop_early", "$alloc"],
             ensures=[C("check_never_plans_or_runs", "implies(args.check, not g_planned and not g_ran)", "C15", "C14"),
                      C("validated_before_anything_runs", "implies(g_planned or g_ran, g_closure_ok)", "C14", "C15"),
                      C("again_passed_through", "implies(g_planned, g_plan_again == args.again)", "C05"),
                      C("at_least_only_with_a_commit_flag", "implies(g_planned, (g_plan_at_least is not None) == (args.this_commit or args.at_least is not None))", "C05"),
                      C("jobs_passed_through", "implies(g_ran, g_jobs >= 1 and implies(args.jobs is None, g_jobs == 1) and g_stop_early == args.stop_early)", "C04", "C03"),
                      C("the_executor_gets_exactly_the_requested_number_of_slots",
                        "implies(g_ran and args.jobs is not None and some(args.jobs) != -1, g_jobs == some(args.jobs))", "C04")],
             raises={"ConductorError+": [C("nothing_ran_without_validation", "implies(g_planned or g_ran, g_closure_ok)", "C14", "C15"),
                                         C("check_never_plans_or_runs", "implies(args.check, not g_planned and not g_ran)", "C15")],
                     # only the construction of the Context (config / sqlite errors) may fail with a non-Conductor exception: before anything ran
                     "Exception+": [C("nothing_planned_or_run", "not g_planned and not g_ran", "C14", "C15")]}),

    # ------------------------------------------------------------------ the CLI wrapper
    Contract("ext::cli_main", params={"args": "Namespace"}, raises={"ConductorError+": [], "Exception+": []},
             trusted_reason="the wrapped command entry point"),
    Contract("utils/user_code.py::check_platform_compatibility", extern=True, raises={"ConductorError+": []}, trusted_reason="platform check"),
    Contract("errors/signal.py::register_signal_handlers", extern=True, trusted_reason="installs the SIGINT/SIGTERM handlers (C16: contracts/signals.py)"),
    Contract("ext::traceback.format_exc", returns="str", trusted_reason="cosmetic"),
    Contract("ext::sys.exit", params={"code": "int"}, modifies=["g_exit_code"], noreturn=True,
             raises={"SystemExit": ["g_exit_code == code"]}, trusted_reason="sys.exit raises SystemExit(code)"),
    Contract("utils/user_code.py::cli_command.command_main", params={"args": "Namespace"}, props=["C03", "C15", "C16"],
             callables={"main": "ext::cli_main"},
             modifies=["g_exit_code"],
             ensures=[],
             raises={"SystemExit": [C("conductor_errors_exit_with_status_1", "g_exit_code == 1", "C03", "C15", "C16")],
                     "Exception+": []},
             notes="normal return = exit status 0; a ConductorError (including ConductorAbort) => ERROR line + exit 1; only non-Conductor exceptions escape as tracebacks"),
]
