"""parsing/task_loader.py, task_types/raw.py, utils/user_code.py -- C15 (malformed definitions are rejected
cleanly: whatever a COND file or an included file raises leaves the loader as a ConductorError carrying the
file), C16 (an abort is not converted into something else), C19 (scope binding).

`exec` is modelled as "may raise any Exception" (ext::exec raises Exception+).  BaseException-only
exceptions raised by user code itself (SystemExit, KeyboardInterrupt) are outside the claim.
"""
from pyvc.contract import ClassDecl, Contract, Logic, Lemma, C, Loop, Ghost

F = "parsing/task_loader.py"

CLASSES = [
    ClassDecl("RawTask", fields={}),          # the dict produced by RawTaskType.load_from_cond_file
    ClassDecl("File", ghost={"g_content": "bytes", "g_closed": "bool", "g_path": "Val[Path]", "g_mode": "str"}),
    ClassDecl("TaskLoader", file=F,
              fields={"_project_root": "Val[Path]", "_tasks": "Opt[Dict[str,RawTask]#tasks]",
                      "_current_cond_file_path": "Opt[Val[Path]]", "_conductor_scope": "PyValue",
                      "_curr_exec_scope": "Opt[PyValue]", "_include_cache": "PyValue"}),
    ClassDecl("Exception", exception=True, bases=["BaseException"]),
    ClassDecl("SyntaxError", exception=True, bases=["Exception"], fields={"lineno": "Opt[int]"}),
    ClassDecl("NameError", exception=True, bases=["Exception"]),
    ClassDecl("ValueError", exception=True, bases=["Exception"]),
    ClassDecl("FileNotFoundError", exception=True, bases=["OSError"]),
    ClassDecl("TaskSyntaxError", exception=True, bases=["ConductorError"]),
    ClassDecl("TaskParseError", exception=True, bases=["ConductorError"]),
    ClassDecl("ParsingUnknownNameError", exception=True, bases=["ConductorError"]),
    ClassDecl("MissingCondFile", exception=True, bases=["ConductorError"]),
    ClassDecl("DuplicateTaskName", exception=True, bases=["ConductorError"]),
    ClassDecl("IncludeFileInvalidExtension", exception=True, bases=["ConductorError"]),
    ClassDecl("IncludeFileNotFound", exception=True, bases=["ConductorError"]),
    ClassDecl("IncludeFileNotInProject", exception=True, bases=["ConductorError"]),
]

LOGIC = Logic(funcs={"Exists": (["Val[Path]"], "bool"),
                     "IsUnder": (["Val[Path]", "Val[Path]"], "bool"),
                     "RelTo": (["Val[Path]", "Val[Path]"], "Val[Path]"),
                     # Resolved(p): p is absolute, without '..' components and without symlinks (what Path.resolve returns)
                     "Resolved": (["Val[Path]"], "bool"),
                     "RawName": (["RawTask"], "str")},
              globals={"g_abort_pending": "bool"})

CONTRACTS = [
    # ------------------------------------------------------------------ assumed library behaviour
    Contract("ext::open", params={"file": "Val[Path]", "mode": "str"}, defaults={"mode": "'r'"}, varargs=True, returns="File", fresh_result=True,
             ensures=["result.g_path == file", "result.g_mode == mode", "not result.g_closed", "result != ext_subprocess_PIPE", "implies(mode == 'wb' or mode == 'w', result.g_content == bempty())"],
             raises={"OSError+": []}, trusted_reason="open(): returns a file object or raises an OSError (FileNotFoundError, PermissionError, ...)"),
    Contract("ext::with_exit:open", params={"tok": "File"}, modifies=["File.g_closed@tok"], ensures=["tok.g_closed"],
             trusted_reason="leaving `with open(...)` closes the file"),
    Contract("ext::File.read", returns="str", raises={"Exception+": []}, trusted_reason="file.read(): text or e.g. UnicodeDecodeError"),
    Contract("ext::exec", params={"code": "str"}, varargs=True, modifies=["g_abort_pending"],
             ensures=["g_abort_pending == old(g_abort_pending)"],
             raises={"ConductorAbort": ["g_abort_pending"], "Exception+": ["g_abort_pending == old(g_abort_pending)"]},
             trusted_reason="exec of user code: may raise any Exception (including ConductorError from the task constructors, SyntaxError, NameError)"),
    Contract("ext::PyValue.copy", returns="PyValue", fresh_result=True, trusted_reason="dict.copy of the scope"),
    Contract("ext::PyValue.update", params={"other": "PyValue"}, trusted_reason="dict.update of the scope"),
    Contract("ext::Path.relative_to", params={"other": "Val[Path]"}, returns="Val[Path]",
             ensures=["IsUnder(self, other)", "result == RelTo(self, other)"],
             raises={"ValueError": ["not IsUnder(self, other)"]},
             trusted_reason="pathlib: relative_to raises ValueError iff self is not under other"),

    # ------------------------------------------------------------------ TaskLoader
    Contract(F + "::TaskLoader._to_project_path", params={"path": "Val[Path]"}, returns="str", props=["C15"],
             requires=[C("inside_project", "IsUnder(path, self._project_root)")],
             ensures=[]),

    Contract(F + "::TaskLoader.parse_cond_file", params={"cond_file_path": "Val[Path]"}, returns="Dict[str,RawTask]#tasks",
             props=["C15", "C16"], locals={"tasks": "Dict[str,RawTask]#tasks"},
             requires=[C("cond_file_inside_project", "IsUnder(cond_file_path, self._project_root)"), C("no_abort_yet", "not g_abort_pending")],
             modifies=["g_abort_pending", "TaskLoader._tasks@self", "TaskLoader._current_cond_file_path@self", "TaskLoader._curr_exec_scope@self",
                       "ConductorError.file_context_set", "ConductorError.extra_context_set", "dict@tasks", "$alloc"],
             ensures=[C("loader_state_reset", "self._tasks is None and self._current_cond_file_path is None and self._curr_exec_scope is None")],
             raises={"ConductorError+": [
                 C("only_conductor_errors_leave_the_loader_and_they_name_the_file", "exc.file_context_set", "C15"),
                 C("an_abort_stays_an_abort", "implies(g_abort_pending, instance(exc, ConductorAbort))", "C16"),
                 C("loader_state_reset", "self._tasks is None and self._current_cond_file_path is None and self._curr_exec_scope is None")]}),

    # ------------------------------------------------------------------ include()
    Contract("ext::Path.joinpath", params={"other": "str"}, returns="Val[Path]", ensures=["result == Path_join(self, other)"], trusted_reason="pathlib joinpath"),
    Contract("ext::Path.resolve", returns="Val[Path]", varargs=True, ensures=["Exists(result)", "Resolved(result)"],
             raises={"FileNotFoundError": []}, trusted_reason="pathlib resolve(strict=True): an existing path or FileNotFoundError"),
    Contract("ext::PyValue.__contains__", params={"key": "str"}, returns="bool", trusted_reason="dict membership of the include cache / scope"),
    Contract("ext::PyValue.__getitem__", params={"key": "str"}, returns="PyValue", trusted_reason="dict lookup in the include cache / scope"),
    Contract("ext::PyValue.__setitem__", params={"key": "str", "value": "PyValue"}, trusted_reason="dict store in the scope"),

    Contract(F + "::TaskLoader._run_include", params={"candidate_path": "str"}, props=["C15", "C16", "C17"],
             locals={"scope": "PyValue"},
             requires=[C("called_while_parsing", "self._current_cond_file_path is not None and self._curr_exec_scope is not None"),
                       C("current_cond_file_inside_project", "IsUnder(some(self._current_cond_file_path), self._project_root)"),
                       C("no_abort_yet", "not g_abort_pending")],
             modifies=["g_abort_pending", "ConductorError.file_context_set", "ConductorError.extra_context_set", "$alloc"],
             ensures=[C("accepted_only_with_cond_extension", "candidate_path.endswith('.cond')", "C15")],
             raises={"IncludeFileInvalidExtension": [C("bad_extension", "not candidate_path.endswith('.cond')", "C15")],
                     "IncludeFileNotFound": [], "IncludeFileNotInProject": [],
                     "TaskSyntaxError": [C("names_the_included_file", "exc.file_context_set", "C15"), C("not_an_abort", "not g_abort_pending", "C16")],
                     "TaskParseError": [C("names_the_included_file", "exc.file_context_set", "C15"), C("not_an_abort", "not g_abort_pending", "C16")],
                     # an abort (or another ConductorError) raised while the included file runs is passed on unchanged
                     "ConductorError+": [],
                     # open()/read() failures are turned into TaskParseError by parse_cond_file (the caller of the COND code)
                     "OSError+": [], "Exception+": []},
             ghost=[
                 # C17: a project-rooted include is anchored at the project root, a relative one at the including file's directory
                 Ghost("assert include_path == ite(candidate_path.startswith('//'), Path_join(self._project_root, candidate_path[2:]),"
                       " Path_join(Path_parent(some(self._current_cond_file_path)), candidate_path)), 'include_path_anchored_at_project_root_or_including_directory'",
                       before="include_path = include_path.resolve(strict=True)"),
                 # C15: what is executed (or served from the cache) is the real (resolved) file and lies inside the project
                 Ghost("assert Resolved(include_path) and IsUnder(include_path, self._project_root), 'included_file_is_the_resolved_file_and_lies_inside_the_project'",
                       before="if str(include_path) in self._include_cache:..."),
             ],
             notes="ConductorAbort raised inside exec() must leave as ConductorAbort (C16): the `except ConductorError: raise` clause"),

    # ------------------------------------------------------------------ the task-constructor shim (unique names per file)
    Contract("ext::task_constructor", params={"kwargs": "PyValue"}, kwargs_param="kwargs", returns="RawTask", fresh_result=True,
             raises={"ConductorError+": []}, trusted_reason="RawTaskType.load_from_cond_file (validated separately): returns the raw task or rejects"),
    Contract("ext::RawTask.__getitem__", params={"key": "str"}, returns="str", ensures=["implies(key == 'name', result == RawName(self))"],
             trusted_reason="raw_task['name'] is the validated name string"),
    Contract("ext::RawTask.__setitem__", params={"key": "str", "value": "any"}, ensures=["implies(key != 'name', True)"],
             trusted_reason="raw_task['cond_file_path'] = ... does not change the name"),
    Contract(F + "::TaskLoader._wrap_task_function.shim", params={"kwargs": "PyValue", "self": "TaskLoader"}, props=["C15"],
             callables={"task_constructor": "ext::task_constructor"},
             requires=[C("called_while_parsing", "self._tasks is not None")],
             modifies=["dict@some(self._tasks)", "$alloc"],
             ensures=[C("registered_under_a_new_name", "exists(t, 'RawTask', not old(RawName(t) in some(self._tasks)) and (RawName(t) in some(self._tasks)) and some(self._tasks)[RawName(t)] == t"
                                                     " and forall(n, 'str', implies(n != RawName(t), (n in some(self._tasks)) == old(n in some(self._tasks))"
                                                     "     and implies(n in some(self._tasks), some(self._tasks)[n] == old(some(self._tasks)[n])))))")],
             raises={"DuplicateTaskName": [C("name_already_defined_in_this_file", "exists(t, 'RawTask', RawName(t) in some(self._tasks)) and unchanged('region:tasks')")],
                     "ConductorError+": [C("tasks_untouched", "unchanged('region:tasks')")]}),
]
