"""utils/run_arguments.py, utils/run_options.py -- C10 (args.json / options.json record exactly the arguments / options).

The JSON text is abstract: JsonOf(value, sort_keys).  A-LIB (json): json.dump(obj, fp, indent=.., sort_keys=k) with the
default ensure_ascii=True writes JsonOf(obj, k) for every str/bool/int/float content (every code point, lone surrogates
included, is escaped), and json.load gives back obj; with ensure_ascii=False the text is written raw and the file's
UTF-8 encoder rejects lone surrogates (UnicodeEncodeError).  The obligation that matters is the exception contract:
serialize_json raises nothing but OSError, whatever strings the COND file carried.
"""
from pyvc.contract import ClassDecl, Contract, Logic, Lemma, C, Loop, Ghost

CLASSES = [
    ClassDecl("UnicodeEncodeError", exception=True, bases=["ValueError"]),
    ClassDecl("JsonFile", ghost={"g_path": "Val[Path]", "g_mode": "str", "g_encoding": "str", "g_json": "str", "g_closed": "bool"}),
]

LOGIC = Logic(
    funcs={"JsonOf": (["PyValue", "bool"], "str"), "ArgsValue": (["RunArguments"], "PyValue"), "OptionsValue": (["RunOptions"], "PyValue")},
    globals={"g_json_file": "JsonFile"},
)


def _ser(file, cls, field, valuefn, sort_keys):
    return Contract(
        "%s::%s.serialize_json" % (file, cls), params={"file_path": "Val[Path]"}, props=["C10"],
        locals={"file": "JsonFile"},
        prefer_ext={"open": "open(json)"},
        requires=[C("value_field", "self.%s == %s(self)" % (field, valuefn))],
        modifies=["$alloc", "JsonFile.g_json", "JsonFile.g_closed", "g_json_file"],
        ensures=[C("writes_exactly_the_value_as_json_to_that_path",
                   "g_json_file.g_path == file_path and g_json_file.g_mode == 'w' and g_json_file.g_encoding == 'UTF-8'"
                   " and g_json_file.g_json == JsonOf(%s(self), %s) and g_json_file.g_closed" % (valuefn, sort_keys), "C10")],
        # nothing but an OSError (disk, permissions): in particular no UnicodeEncodeError / ValueError for any recorded string
        raises={"OSError+": []},
        ghost=[Ghost("g_json_file = file", before="json.dump(...")])


CONTRACTS = [
    Contract("ext::open(json)", params={"file": "Val[Path]", "mode": "str", "encoding": "str"}, returns="JsonFile", fresh_result=True,
             ensures=["result.g_path == file and result.g_mode == mode and result.g_encoding == encoding and not result.g_closed and result.g_json == ''"],
             raises={"OSError+": []}, trusted_reason="open(path, 'w', encoding=...): a fresh empty text file or an OSError"),
    Contract("ext::with_exit:open(json)", params={"tok": "JsonFile"}, modifies=["JsonFile.g_closed@tok"], ensures=["tok.g_closed"],
             trusted_reason="leaving `with open(...)` closes (and flushes) the file"),
    Contract("ext::json.dump", params={"obj": "PyValue", "fp": "JsonFile", "indent": "int", "sort_keys": "bool", "ensure_ascii": "bool"},
             defaults={"indent": "0", "sort_keys": "False", "ensure_ascii": "True"},
             requires=[C("text_file_open_for_writing", "not fp.g_closed and fp.g_mode == 'w'")],
             modifies=["JsonFile.g_json@fp"],
             ensures=["fp.g_json == old(fp.g_json) + JsonOf(obj, sort_keys)"],
             raises={"UnicodeEncodeError": [C("only_when_not_escaping", "not ensure_ascii")], "OSError+": []},
             trusted_reason="A-LIB json: with ensure_ascii=True every character is escaped, so writing cannot fail on the encoding; "
                            "ensure_ascii=False hands lone surrogates to the UTF-8 encoder (UnicodeEncodeError)"),
    _ser("utils/run_arguments.py", "RunArguments", "_args", "ArgsValue", "False"),
    _ser("utils/run_options.py", "RunOptions", "_options", "OptionsValue", "True"),
]
