"""context.py::Context.from_cwd (C17), cli/gc.py (C13, C17).

from_cwd: the project root is the FIRST directory of [cwd] ++ parents(cwd) that contains cond_config.toml; the
result depends on the working directory only through that sequence (so two directories with the same nearest
config ancestor give the same root).

gc.main: per popped directory D, exactly the children that are directories, whose name is in the experiment
grammar and whose (identifier, timestamp) is not recorded are deleted (or, with --dry-run, only printed);
children that are directories and neither experiment nor regular task directories are explored; nothing else is
touched. The walk starts at cond-out and never enters a task directory.
"""
from pyvc.contract import ClassDecl, Contract, Logic, Lemma, C, Loop, Ghost

CLASSES = [
    ClassDecl("MissingProjectRoot", exception=True, bases=["ConductorError"]),
]

LOGIC = Logic(
    funcs={"Path_parents": (["Val[Path]"], "Seq[Val[Path]]"), "Cwd": ([], "Val[Path]"), "IsAbs": (["Val[Path]"], "bool")},
    globals={"g_root_found": "Opt[Val[Path]]", "g_deleted": "Set[Val[Path]]#deleted"},
    axioms=[
        C("children_below_parent", "forall(p, 'Val[Path]', forall(k, 'int', implies(0 <= k and k < seq_len(Children(p)),"
                                   " IsUnder(select(Children(p), k), p) and Path_parent(select(Children(p), k)) == p)))"),
        C("under_reflexive_transitive", "forall(a, 'Val[Path]', IsUnder(a, a)) and forall(a, 'Val[Path]', forall(b, 'Val[Path]', forall(c, 'Val[Path]',"
                                        " implies(IsUnder(a, b) and IsUnder(b, c), IsUnder(a, c)))))"),
    ],
    macros={
        # an experiment output directory without a recorded version (the decomposition of the name is unique: lemma output_dir_injective_versioned)
        "unrecorded_experiment_dir(c, out, idx)":
            "exists(n, 'str', exists(d, 'str', Path_name(c) == n + '.task.' + d and in_re(n, 'name') and in_re(d, 'posint') and"
            " not exists(k, 'int', 0 <= k and k < seq_len(ArchRows(idx)) and select(ArchRows(idx), k)[0]._path == RelTo(Path_parent(c), out)"
            "   and select(ArchRows(idx), k)[0]._name == n and select(ArchRows(idx), k)[1]._timestamp == str_to_int(d))))",
    },
)

CONTRACTS = [
    Contract("ext::pathlib.Path.cwd", returns="Val[Path]", ensures=["result == Cwd()"], trusted_reason="the process' working directory"),
    Contract("ext::itertools.chain", params={"a": "List[Val[Path]]", "b": "Seq[Val[Path]]"}, returns="Seq[Val[Path]]", fresh_result=True,
             ensures=["seq_len(result) == seq_len(a) + seq_len(b)",
                      "forall(i, 'int', implies(0 <= i and i < seq_len(a), select(result, i) == select(a, i)))",
                      "forall(i, 'int', implies(0 <= i and i < seq_len(b), select(result, seq_len(a) + i) == select(b, i)))"],
             trusted_reason="itertools.chain(a, b): a followed by b"),
    Contract("ext::Context", params={"project_root": "Val[Path]"}, returns="Context", fresh_result=True, modifies=["g_root_found"],
             ensures=["result._project_root == project_root", "g_root_found == project_root"], raises={"ConductorError+": [], "Exception+": []},
             trusted_reason="Context.__init__ stores the root (and opens config / index)"),

    Contract("context.py::Context.from_cwd", returns="Context", props=["C17"], fresh_result=True,
             modifies=["g_root_found", "$alloc"],
             ensures=[C("root_is_the_nearest_ancestor_with_a_config_file",
                        "(result._project_root == Cwd() and IsFile(Path_join(Cwd(), 'cond_config.toml'))) or"
                        " (not IsFile(Path_join(Cwd(), 'cond_config.toml')) and"
                        "  exists(k, 'int', 0 <= k and k < seq_len(Path_parents(Cwd())) and result._project_root == select(Path_parents(Cwd()), k)"
                        "  and IsFile(Path_join(select(Path_parents(Cwd()), k), 'cond_config.toml'))"
                        "  and forall(m, 'int', implies(0 <= m and m < k, not IsFile(Path_join(select(Path_parents(Cwd()), m), 'cond_config.toml'))))))")],
             raises={"MissingProjectRoot": [C("no_ancestor_has_a_config_file",
                                              "not IsFile(Path_join(Cwd(), 'cond_config.toml')) and forall(m, 'int', implies(0 <= m and m < seq_len(Path_parents(Cwd())),"
                                              " not IsFile(Path_join(select(Path_parents(Cwd()), m), 'cond_config.toml'))))")],
                     "ConductorError+": [], "Exception+": []},
             loops={0: Loop(header="for path in itertools.chain([here], here.parents):", index="i", modifies=[],
                            invariant=[C("none_so_far", "forall(m, 'int', implies(0 <= m and m < i,"
                                                        " not IsFile(Path_join(ite(m == 0, Cwd(), select(Path_parents(Cwd()), m - 1)), 'cond_config.toml'))))")])}),

    # ------------------------------------------------------------------ cli/gc.py
    Contract("ext::shutil.rmtree(gc)", params={"path": "Val[Path]"}, varargs=True, modifies=["g_deleted", "g_dirs", "g_entries"],
             ensures=["forall(d, 'Val[Path]', (d in g_deleted) == (old(d in g_deleted) or d == path))"],
             trusted_reason="A-LIB: rmtree(path, ignore_errors=True) removes `path` (recorded in the ghost deletion log)"),
    Contract("ext::Path.is_absolute", returns="bool", ensures=["result == IsAbs(self)"], trusted_reason="A-LIB"),
    Contract("ext::Context.from_cwd(abs)", returns="Context", fresh_result=True, modifies=["g_root_found"],
             ensures=["IsAbs(result._output_path)"], raises={"ConductorError+": [], "Exception+": []},
             trusted_reason="Context.from_cwd (verified above) starts from Path.cwd(), which is absolute; cond-out is root / 'cond-out'"),

    Contract("cli/gc.py::_relative_to_cwd", params={"path": "Val[Path]", "cwd": "Val[Path]"}, returns="Val[Path]", props=["C17", "C13"],
             ensures=[C("a_rendering_of_the_same_path", "result == path or result == RelTo(path, cwd)")],
             raises={}),

    Contract("cli/gc.py::main", params={"args": "Namespace"}, props=["C13", "C17", "C08", "C06"],
             prefer_ext={"shutil.rmtree": "shutil.rmtree(gc)", "Context.from_cwd": "Context.from_cwd(abs)"},
             ghost=[Ghost("assert Path_name(inner) == task_name + '.task.' + exp_match.group('timestamp')", after="timestamp = int(exp_match.group('timestamp'))")],
             uses=["children_below_parent", "under_reflexive_transitive"],
             locals={"all_versions": "Set[Tuple[TaskIdentifier,int]]#recs", "stack": "List[Val[Path]]#gcstk", "to_delete": "List[Val[Path]]#todel"},
             modifies=["g_deleted", "g_dirs", "g_entries", "g_root_found", "$alloc"],
             ensures=[
                 C("dry_run_deletes_nothing", "implies(args.dry_run, forall(d, 'Val[Path]', (d in g_deleted) == old(d in g_deleted)))"),
                 C("only_unrecorded_experiment_directories_are_deleted",
                   "exists(ctx, 'Context', forall(d, 'Val[Path]', implies((d in g_deleted) and not old(d in g_deleted),"
                   " unrecorded_experiment_dir(d, ctx._output_path, ctx._version_index) and IsUnder(d, ctx._output_path))))"),
             ],
             raises={"ConductorError+": [], "Exception+": [C("dry_run_deletes_nothing", "implies(args.dry_run, forall(d, 'Val[Path]', (d in g_deleted) == old(d in g_deleted)))")]},
             loops={
                 0: Loop(header="while len(stack) > 0:", modifies=["list@stack", "g_deleted", "g_dirs", "g_entries", "$alloc", "new@todel"],
                         invariant=[
                             C("walk_stays_below_cond_out", "all(IsUnder(s, output_path) for s in stack)"),
                             C("dry_run_deletes_nothing", "implies(args.dry_run, forall(d, 'Val[Path]', (d in g_deleted) == old(d in g_deleted)))"),
                             C("deleted_sound", "forall(d, 'Val[Path]', implies((d in g_deleted) and not old(d in g_deleted),"
                                                " unrecorded_experiment_dir(d, output_path, ctx._version_index) and IsUnder(d, output_path)))"),
                             C("recorded_set", "forall(t, 'TaskIdentifier', forall(ts, 'int', ((t, ts) in all_versions) =="
                                               " exists(k, 'int', 0 <= k and k < seq_len(ArchRows(ctx._version_index)) and select(ArchRows(ctx._version_index), k)[0] == t"
                                               " and select(ArchRows(ctx._version_index), k)[1]._timestamp == ts)))"),
                             C("output_path", "output_path == ctx._output_path"),
                         ]),
                 1: Loop(header="for inner in curr_path.iterdir():", index="i", modifies=["list@stack", "list@to_delete"],
                         invariant=[
                             C("walk_stays_below_cond_out", "all(IsUnder(s, output_path) for s in stack)"),
                             C("never_enters_or_deletes_task_directories",
                               "forall(k, 'int', implies(at_loop(seq_len(stack)) <= k and k < seq_len(stack), (select(stack, k) in g_dirs) and"
                               " not in_re(Path_name(select(stack, k)), 'exp_dir') and not in_re(Path_name(select(stack, k)), 'reg_dir')))"),
                             C("to_delete_sound", "all(unrecorded_experiment_dir(x, output_path, ctx._version_index) and IsUnder(x, output_path) for x in to_delete)"),
                         ]),
                 2: Loop(header="for exp_path in to_delete:", index="j1", modifies=[], invariant=[]),
                 3: Loop(header="for exp_path in to_delete:", index="j2", modifies=["g_deleted", "g_dirs", "g_entries"],
                         invariant=[C("deleted_sound", "forall(d, 'Val[Path]', implies((d in g_deleted) and not old(d in g_deleted),"
                                                       " unrecorded_experiment_dir(d, output_path, ctx._version_index) and IsUnder(d, output_path)))"),
                                    C("to_delete_sound", "all(unrecorded_experiment_dir(x, output_path, ctx._version_index) and IsUnder(x, output_path) for x in to_delete)")]),
             }),
]
