"""task_types/run.py, utils/git.py, context.py -- C05 (cached-result selection), C08/C02/C07 (version memo).

`Anc(a, c)`  : commit a is an ancestor of (or equal to) commit c        (A-GIT)
`Dist(c, a)` : number of commits reachable from c and not from a        (A-GIT)
`Recorded(index, task)` : the recorded versions of `task` in the index, as a sequence (A-SQL)
`Latest(index, task)`   : what `ORDER BY timestamp DESC LIMIT 1` returns (A-SQL: a newest recorded version)

The documented rule is the macro `is_selected`; the real search must establish it for every index
content, every commit graph and every HEAD.
"""
from pyvc.contract import ClassDecl, Contract, Logic, Lemma, C, Loop, Ghost

F = "task_types/run.py"

CLASSES = [
    ClassDecl("Git", file="utils/git.py", fields={"_project_root": "Val[Path]"}),
    ClassDecl("Context", file="context.py",
              fields={"_uses_git_fetched": "bool", "_uses_git": "bool", "_curr_commit_fetched": "bool",
                      "_curr_commit": "Opt[Commit]", "_git": "Git", "_version_index": "VersionIndex",
                      "_config_file": "ConfigFile", "_output_path": "Val[Path]", "_project_root": "Val[Path]",
                      "_task_index": "TaskIndex", "_tee_processor": "Opt[TeeProcessor]"}),
    ClassDecl("ConfigFile", fields={"_disable_git": "bool"}),
    ClassDecl("TaskIndex", file="parsing/task_index.py"),
    ClassDecl("TeeProcessor", file="utils/tee.py"),
    ClassDecl("TaskType", file="task_types/base.py",
              fields={"_identifier": "TaskIdentifier", "_cond_file_path": "Val[Path]", "_deps": "Seq[TaskIdentifier]",
                      "_output_path_suffix": "Val[Path]"}),
    ClassDecl("_RunSubprocess", file=F, fields={"_parallelizable": "bool", "_raw_run": "str", "_run": "str",
                                                 "_args": "RunArguments", "_options": "RunOptions"}),
    ClassDecl("RunCommand", file=F),
    ClassDecl("RunExperiment", file=F, fields={"_did_retrieve_version": "bool", "_most_relevant_version": "Opt[Version]"}),
    ClassDecl("RunArguments", file="utils/run_arguments.py", fields={"_args": "PyValue"}),
    ClassDecl("RunOptions", file="utils/run_options.py", fields={"_options": "PyValue"}),
    ClassDecl("CompletedProcess", fields={"returncode": "int", "stdout": "str"}, ghost={"g_cwd": "Opt[Val[Path]]", "g_argv": "List[str]"}),
    ClassDecl("RuntimeError", exception=True, bases=["BaseException"]),
]

LOGIC = Logic(
    funcs={
        "Anc": (["str", "str"], "bool"),
        "Dist": (["str", "str"], "int"),
        "Dist_caret": (["str", "str"], "int"),
        "Recorded": (["VersionIndex", "TaskIdentifier"], "Seq[Version]"),
        "Latest": (["VersionIndex", "TaskIdentifier"], "Opt[Version]"),
        "GitUsed": (["Context"], "bool"),
        "Head": (["Context"], "Opt[Commit]"),
        "str_strip": (["str"], "str"),
    },
    axioms=[
        # definition of Dist_caret on arguments of the shape "^<commit>" (what `git rev-list X ^Y` receives)
        C("caret_means_exclusion", "forall(s, 'str', forall(a, 'str', Dist_caret(s, '^' + a) == Dist(s, a)))"),
    ],
    macros={
        # v is usable at HEAD h: it carries a commit that is an ancestor of h
        "usable(v, h)": "v._commit_hash is not None and Anc(some(v._commit_hash), h)",
        # r is at least as good as w: fewer separating commits, newest on ties
        "prefer(r, w, h)": "Dist(h, some(r._commit_hash)) < Dist(h, some(w._commit_hash)) or "
                           "(Dist(h, some(r._commit_hash)) == Dist(h, some(w._commit_hash)) and r._timestamp >= w._timestamp)",
        # the documented selection rule (C05)
        "is_selected(task, ctx, r)":
            "ite(not GitUsed(ctx) or Head(ctx) is None,"
            "    r == Latest(ctx._version_index, task._identifier),"
            "    ite(any(usable(v, some(Head(ctx))._hash) for v in Recorded(ctx._version_index, task._identifier)),"
            "        r is not None and (some(r) in Recorded(ctx._version_index, task._identifier)) and usable(some(r), some(Head(ctx))._hash)"
            "          and all(implies(usable(w, some(Head(ctx))._hash), prefer(some(r), w, some(Head(ctx))._hash)) for w in Recorded(ctx._version_index, task._identifier)),"
            "        ite(seq_len(Recorded(ctx._version_index, task._identifier)) > 0 and all(w._commit_hash is None for w in Recorded(ctx._version_index, task._identifier)),"
            "            r is not None and (some(r) in Recorded(ctx._version_index, task._identifier))"
            "              and all(some(r)._timestamp >= w._timestamp for w in Recorded(ctx._version_index, task._identifier)),"
            "            r is None)))",
    },
)

CONTRACTS = [
    # ---------------------------------------------------------------- assumed (A-GIT / A-SQL)
    Contract("ext::subprocess.run", params={"args": "List[str]", "cwd": "Opt[Val[Path]]"}, defaults={"cwd": "None"}, returns="CompletedProcess", varargs=True, fresh_result=True,
             ensures=[
                 C("runs_in_the_given_directory", "result.g_cwd == cwd and result.g_argv == args"),
                 C("A-GIT merge-base", "implies(seq_len(args) == 5 and args[0] == 'git' and args[1] == 'merge-base' and args[2] == '--is-ancestor',"
                                       " (result.returncode == 0) == Anc(args[3], args[4]))"),
                 C("A-GIT rev-list", "implies(seq_len(args) == 5 and args[0] == 'git' and args[1] == 'rev-list' and args[2] == '--count' and result.returncode == 0,"
                                     " int_str(Dist_caret(args[3], args[4])) == str_strip(result.stdout) and Dist_caret(args[3], args[4]) >= 0 and in_re(str_strip(result.stdout), 'digits'))")],
             trusted_reason="A-GIT: meaning of `git merge-base --is-ancestor A B` and `git rev-list --count X ^Y`"),
    Contract("ext::str.strip", returns="str", ensures=["result == str_strip(self)"], trusted_reason="str.strip as an uninterpreted function"),
    Contract("ext::VersionIndex.get_latest_output_version", params={"task_identifier": "TaskIdentifier"}, returns="Opt[Version]",
             ensures=["result == Latest(self, task_identifier)"],
             trusted_reason="A-SQL: latest_task_version = ORDER BY timestamp DESC LIMIT 1"),
    Contract("ext::VersionIndex.get_all_versions_for_task", params={"task_identifier": "TaskIdentifier"}, returns="List[Version]",
             fresh_result=True,
             ensures=["seq_len(result) == seq_len(Recorded(self, task_identifier))",
                      "forall(i, 'int', implies(0 <= i and i < seq_len(result), select(result, i) == select(Recorded(self, task_identifier), i)))"],
             trusted_reason="A-SQL: all_entries_for_task returns exactly the recorded rows of the task"),

    # ---------------------------------------------------------------- utils/git.py (argv contracts)
    Contract("utils/git.py::Git.is_ancestor", params={"commit_hash": "str", "candidate_ancestor_hash": "str"}, returns="bool",
             props=["C05", "C17", "C02"], locals={},
             ensures=[C("asks_git_the_right_way_round", "result == Anc(candidate_ancestor_hash, commit_hash)", "C05", "C02")],
             ghost=[Ghost("assert result.g_cwd is not None and some(result.g_cwd) == self._project_root, 'git_runs_in_the_project_root_not_in_the_invocation_directory | props=C17,C05'", after="result = subprocess.run(...")]),
    Contract("utils/git.py::Git.get_distance", params={"start_hash": "str", "ancestor_hash": "str"}, returns="int", props=["C05", "C17"],
             ensures=[C("counts_commits_from_start_not_reachable_from_ancestor", "result == Dist(start_hash, ancestor_hash)", "C05")],
             uses=["caret_means_exclusion"], raises={"RuntimeError": []},
             ghost=[Ghost("assert result.g_cwd is not None and some(result.g_cwd) == self._project_root, 'git_runs_in_the_project_root_not_in_the_invocation_directory | props=C17,C05'", after="result = subprocess.run(...")]),
    Contract("utils/git.py::Git.rev_parse", params={"commit_symbol": "str"}, returns="Opt[str]", props=["C17", "C05"],
             ensures=[C("a_hash_or_nothing", "True")],
             ghost=[Ghost("assert result.g_cwd is not None and some(result.g_cwd) == self._project_root, 'git_runs_in_the_project_root_not_in_the_invocation_directory | props=C17,C05'", after="result = subprocess.run(...")]),
    Contract("utils/git.py::Git.current_commit", returns="Opt[Commit]", props=["C06", "C17", "C05"], fresh_result=True,
             modifies=["$alloc"],
             ghost=[Ghost("assert curr_commit.g_cwd is not None and some(curr_commit.g_cwd) == self._project_root, 'git_runs_in_the_project_root_not_in_the_invocation_directory | props=C17,C05'\n"
                          "assert seq_len(curr_commit.g_argv) == 3 and select(curr_commit.g_argv, 0) == 'git' and select(curr_commit.g_argv, 1) == 'rev-parse'"
                          " and select(curr_commit.g_argv, 2) == 'HEAD', 'the_recorded_commit_is_HEAD | props=C06'",
                          after="curr_commit = subprocess.run(..."),
                    Ghost("assert is_clean.g_cwd is not None and some(is_clean.g_cwd) == self._project_root, 'git_runs_in_the_project_root_not_in_the_invocation_directory | props=C17,C05'\n"
                          "assert seq_len(is_clean.g_argv) == 4 and select(is_clean.g_argv, 0) == 'git' and select(is_clean.g_argv, 1) == 'diff-index'"
                          " and select(is_clean.g_argv, 2) == '--quiet' and select(is_clean.g_argv, 3) == 'HEAD',"
                          " 'the_dirty_flag_compares_work_tree_and_index_with_HEAD | props=C06'",
                          after="is_clean = subprocess.run(...")]),
    Contract("utils/git.py::Git.is_used", returns="bool", props=["C17", "C05"],
             ghost=[Ghost("assert result.g_cwd is not None and some(result.g_cwd) == self._project_root, 'git_runs_in_the_project_root_not_in_the_invocation_directory | props=C17,C05'", after="result = subprocess.run(...")]),

    # ---------------------------------------------------------------- context.py memoised properties
    Contract("context.py::Context.uses_git", returns="bool", props=["C05"], extern=True,
             ensures=["result == GitUsed(self)"], trusted_reason="memoised once per invocation (config flag and `git rev-parse --git-dir`)"),
    Contract("context.py::Context.current_commit", returns="Opt[Commit]", props=["C05", "C06"], extern=True,
             ensures=["result == Head(self)", "implies(not GitUsed(self), result is None)"],
             trusted_reason="memoised once per invocation (git rev-parse HEAD, diff-index)"),

    # ---------------------------------------------------------------- the selection
    Contract(F + "::RunExperiment._retrieve_most_relevant_existing_version", params={"ctx": "Context"}, returns="Opt[Version]",
             props=["C05"],
             locals={"ancestor_versions": "List[Version]", "null_commit_versions": "List[Version]",
                     "selected_version": "Opt[Version]"},
             ensures=[C("documented_selection_rule", "is_selected(self, ctx, result)")],
             raises={"RuntimeError": []},
             loops={
                 0: Loop(header="for version in existing_versions:", index="i",
                         modifies=["list@ancestor_versions", "list@null_commit_versions"],
                         invariant=[
                             C("anc_sound", "all(usable(a, some(curr_commit)._hash) and (a in Recorded(ctx._version_index, self._identifier)) for a in ancestor_versions)"),
                             C("anc_complete", "forall(j, 'int', implies(0 <= j and j < i and usable(select(existing_versions, j), some(curr_commit)._hash),"
                                               " select(existing_versions, j) in ancestor_versions))"),
                             C("null_sound", "all(n._commit_hash is None and (n in Recorded(ctx._version_index, self._identifier)) for n in null_commit_versions)"),
                             C("null_complete", "forall(j, 'int', implies(0 <= j and j < i and select(existing_versions, j)._commit_hash is None,"
                                                " select(existing_versions, j) in null_commit_versions))"),
                             C("null_count", "seq_len(null_commit_versions) <= i"),
                             C("null_count_full", "(seq_len(null_commit_versions) == i) == "
                                                  "forall(j, 'int', implies(0 <= j and j < i, select(existing_versions, j)._commit_hash is None))"),
                             C("lists_distinct", "ancestor_versions != null_commit_versions and existing_versions != ancestor_versions and existing_versions != null_commit_versions"),
                             C("existing_is_recorded", "seq_len(existing_versions) == seq_len(Recorded(ctx._version_index, self._identifier)) and "
                                                       "forall(j, 'int', implies(0 <= j and j < seq_len(existing_versions), select(existing_versions, j) == select(Recorded(ctx._version_index, self._identifier), j)))"),
                         ]),
                 1: Loop(header="for v in ancestor_versions:", index="k", modifies=[],
                         invariant=[
                             C("none_iff_first", "(selected_version is None) == (k == 0)"),
                             C("selected_is_seen", "implies(selected_version is not None, some(selected_version) in ancestor_versions)"),
                             C("distance_is_of_selected", "implies(selected_version is not None, closest_distance == Dist(some(curr_commit)._hash, some(some(selected_version)._commit_hash)))"),
                             C("selected_is_best_so_far", "implies(selected_version is not None, forall(m, 'int', implies(0 <= m and m < k,"
                                                          " prefer(some(selected_version), select(ancestor_versions, m), some(curr_commit)._hash))))"),
                         ]),
             }),

    Contract(F + "::RunExperiment._ensure_most_relevant_existing_version_computed", params={"ctx": "Context"}, props=["C05", "C02"],
             modifies=["RunExperiment._did_retrieve_version@self", "RunExperiment._most_relevant_version@self"],
             ensures=[C("memo_set", "self._did_retrieve_version"),
                      C("memo_kept", "implies(old(self._did_retrieve_version), self._most_relevant_version == old(self._most_relevant_version))"),
                      C("computed_by_rule", "implies(not old(self._did_retrieve_version), is_selected(self, ctx, self._most_relevant_version))")],
             raises={"RuntimeError": []}),

    Contract(F + "::RunExperiment.should_run", params={"ctx": "Context", "at_least_commit": "Opt[str]"}, returns="bool", props=["C05", "C02"],
             modifies=["RunExperiment._did_retrieve_version@self", "RunExperiment._most_relevant_version@self"],
             ensures=[
                 C("selection_follows_rule", "implies(not old(self._did_retrieve_version), is_selected(self, ctx, self._most_relevant_version))"),
                 C("memo_respected", "implies(old(self._did_retrieve_version), self._most_relevant_version == old(self._most_relevant_version))"),
                 C("at_least_rule", "result == (self._most_relevant_version is None or (at_least_commit is not None and "
                                    "(some(self._most_relevant_version)._commit_hash is None or "
                                    " (some(some(self._most_relevant_version)._commit_hash) != some(at_least_commit) and"
                                    "  Anc(some(some(self._most_relevant_version)._commit_hash), some(at_least_commit))))))"),
                 C("memo_reset_only_on_older_version_rerun",
                   "self._did_retrieve_version == (not (result and self._most_relevant_version is not None and at_least_commit is not None "
                   "and some(self._most_relevant_version)._commit_hash is not None))"),
             ],
             raises={"RuntimeError": []}),

    Contract("task_types/base.py::TaskType.get_output_path", params={"ctx": "Context"}, returns="Opt[Val[Path]]", props=["C07", "C20"],
             ensures=[C("under_cond_out_by_identifier", "result is not None and some(result) == Path_joinp(ctx._output_path, self._output_path_suffix)")]),

    Contract(F + "::RunExperiment.get_output_path", params={"ctx": "Context"}, returns="Opt[Val[Path]]", props=["C05", "C07", "C08", "C20"],
             modifies=["RunExperiment._did_retrieve_version@self", "RunExperiment._most_relevant_version@self"],
             ensures=[C("memo_set", "self._did_retrieve_version"),
                      C("memo_respected", "implies(old(self._did_retrieve_version), self._most_relevant_version == old(self._most_relevant_version))"),
                      C("selection_follows_rule", "implies(not old(self._did_retrieve_version), is_selected(self, ctx, self._most_relevant_version))", "C05"),
                      C("none_iff_no_version", "(result is None) == (self._most_relevant_version is None)"),
                      C("directory_of_the_selected_version",
                        "implies(result is not None, some(result) == Path_with_name(Path_joinp(ctx._output_path, self._output_path_suffix),"
                        " self._identifier._name + '.task.' + int_str(some(self._most_relevant_version)._timestamp)))")],
             raises={"RuntimeError": []}),

    Contract(F + "::RunExperiment._create_new_version", params={"ctx": "Context"}, props=["C08", "C02", "C06"],
             loops={0: Loop(header="while True:",
                            modifies=["RunExperiment._did_retrieve_version@self", "RunExperiment._most_relevant_version@self",
                                      "VersionIndex._last_timestamp@ctx._version_index", "$alloc"],
                            invariant=[C("generator_never_goes_back", "ctx._version_index._last_timestamp >= old(ctx._version_index._last_timestamp)"),
                                       C("memo_flag_stays_set", "self._did_retrieve_version")])},
             modifies=["RunExperiment._did_retrieve_version@self", "RunExperiment._most_relevant_version@self",
                       "VersionIndex._last_timestamp@ctx._version_index"],
             requires=[C("index_is_not_the_task", "True")],
             ensures=[C("memo_points_to_new_version", "self._did_retrieve_version and self._most_relevant_version is not None"),
                      C("new_version_above_all_handed_out", "some(self._most_relevant_version)._timestamp > old(ctx._version_index._last_timestamp)", "C08"),
                      C("generator_advanced", "ctx._version_index._last_timestamp >= some(self._most_relevant_version)._timestamp", "C08"),
                      C("records_head_commit", "some(self._most_relevant_version)._commit_hash == (some(Head(ctx))._hash if Head(ctx) is not None else None)", "C06"),
                      C("records_dirty_flag", "some(self._most_relevant_version)._has_uncommitted_changes == (some(Head(ctx))._has_changes if Head(ctx) is not None else False)", "C06")],
             raises={"RuntimeError": []}),

    Contract(F + "::RunExperiment.create_new_version", params={"ctx": "Context"}, returns="Version", props=["C08", "C02", "C06"],
             modifies=["RunExperiment._did_retrieve_version@self", "RunExperiment._most_relevant_version@self",
                       "VersionIndex._last_timestamp@ctx._version_index"],
             ensures=[C("returns_the_memo", "self._most_relevant_version is not None and result == some(self._most_relevant_version) and self._did_retrieve_version"),
                      C("strictly_above_last", "result._timestamp > old(ctx._version_index._last_timestamp)", "C08"),
                      C("records_head_commit", "result._commit_hash == (some(Head(ctx))._hash if Head(ctx) is not None else None)", "C06"),
                      C("records_dirty_flag", "result._has_uncommitted_changes == (some(Head(ctx))._has_changes if Head(ctx) is not None else False)", "C06")],
             raises={"RuntimeError": []}),
]
