"""parsing/task_index.py -- C14: dependency graphs are validated soundly before anything runs.

Graph as the loader sees it: Defined(t) (a definition of t exists / materialises), Deps(t) its dependency list.
  * normal return of load_transitive_closure(T)  =>  every task reachable from T is loaded (closed-set argument)
    and the reachable graph is acyclic: the ghost finish time g_fin is a rank (fin(dep) < fin(t)).
  * `Reach` is an arbitrary predicate containing T and closed under Deps of defined tasks: everything the
    function ever loads / stacks satisfies it, hence lies in the real closure.
"""
from pyvc.contract import ClassDecl, Contract, Logic, Lemma, C, Loop, Ghost

F = "parsing/task_index.py"
ID_FLAG = "Tuple[TaskIdentifier,int]"

CLASSES = [
    ClassDecl("TaskIndex", file=F, fields={"_project_root": "Val[Path]", "_loaded_tasks": "Dict[TaskIdentifier,TaskType]#loaded"}),
    ClassDecl("CyclicDependency", exception=True, bases=["ConductorError"]),
    ClassDecl("TaskNotFound", exception=True, bases=["ConductorError"]),
    ClassDecl("DuplicateDependency", exception=True, bases=["ConductorError"]),
]

LOGIC = Logic(
    funcs={"Defined": (["TaskIdentifier"], "bool"),
           # TC is constrained ONLY by introduction rules (edge, transitivity): whatever is derived about it holds in the
           # least such relation, i.e. for real paths in the dependency graph
           "TC": (["TaskIdentifier", "TaskIdentifier"], "bool")},
    axioms=[C("tc_edge", "forall(a, 'TaskIdentifier', forall(k, 'int', implies(0 <= k and k < seq_len(Deps(a)), TC(a, select(Deps(a), k)))))"),
            C("tc_trans", "forall(a, 'TaskIdentifier', forall(b, 'TaskIdentifier', forall(c, 'TaskIdentifier', implies(TC(a, b) and TC(b, c), TC(a, c)))))")],
    globals={"g_fin": "Dict[TaskIdentifier,int]#fin", "g_clock": "int", "g_witness": "TaskIdentifier",
             "g_par": "Arr[int,int]", "g_openpos": "int"},
    macros={
        "on_stack(st, x)": "exists(q, 'int', 0 <= q and q < seq_len(st) and select(st, q)[0] == x)",
    },
)

CONTRACTS = [
    Contract("utils/user_code.py::prevent_module_caching", returns="any", extern=True, trusted_reason="context manager restoring sys.modules (no effect on the index)"),
    Contract(F + "::TaskIndex.load_single_task", params={"identifier": "TaskIdentifier"}, extern=True,
             modifies=["dict@self._loaded_tasks", "$alloc", "ConductorError.file_context_set"],
             ensures=["Defined(identifier)", "identifier in self._loaded_tasks", "self._loaded_tasks[identifier]._identifier == identifier",
                      "self._loaded_tasks[identifier]._deps == Deps(identifier)",
                      "forall(t, 'TaskIdentifier', implies(t != identifier, (t in self._loaded_tasks) == old(t in self._loaded_tasks)"
                      " and implies(t in self._loaded_tasks, self._loaded_tasks[t] == old(self._loaded_tasks[t]))))"],
             raises={"TaskNotFound": ["not Defined(identifier)", "unchanged('region:loaded')"], "ConductorError+": []},
             trusted_reason="parses the COND file of the identifier (C15) and materialises the task: present afterwards with its declared deps, "
                            "TaskNotFound iff no such definition; other ConductorErrors for malformed definitions"),

    # ------------------------------------------------------------------ _materialize_raw_task (C02: deps listed once; C20: relative deps)
    Contract("ext::TaskType.from_raw_task", params={"identifier": "TaskIdentifier", "raw_task": "Dict[str,Seq[str]]#rawin", "deps": "List[TaskIdentifier]#mdeps"},
             returns="TaskType", fresh_result=True,
             ensures=["result._identifier == identifier", "seq_len(result._deps) == seq_len(deps)",
                      "forall(k, 'int', implies(0 <= k and k < seq_len(deps), select(result._deps, k) == select(deps, k)))"],
             raises={"ConductorError+": []},
             trusted_reason="TaskType.from_raw_task dispatches on the task type and builds the task with exactly this identifier and this dependency list (constructor field assignments)"),
    Contract(F + "::TaskIndex._materialize_raw_task", params={"identifier": "TaskIdentifier", "raw_task": "Dict[str,Seq[str]]#rawin"},
             returns="TaskType", props=["C02", "C20", "C14", "C09"],
             locals={"task_deps": "List[TaskIdentifier]#mdeps", "task_deps_set": "Set[TaskIdentifier]#mdset"},
             modifies=["$alloc", "ConductorError.file_context_set", "ConductorError.extra_context_set", "new@rawin"],
             ensures=[
                 C("identifier_kept", "result._identifier == identifier", "C20"),
                 C("caller_dict_untouched", "forall(key, 'str', (key in raw_task) == old(key in raw_task) and implies(key in raw_task, raw_task[key] == old(raw_task[key])))", "C15"),
                 C("one_dependency_per_listed_string_in_order",
                   "implies('deps' in raw_task, seq_len(result._deps) == seq_len(raw_task['deps'])) and implies(not ('deps' in raw_task), seq_len(result._deps) == 0)", "C02"),
                 C("dependencies_listed_once",
                   "forall(i, 'int', forall(k, 'int', implies(0 <= i and i < k and k < seq_len(result._deps), select(result._deps, i) != select(result._deps, k))))", "C02"),
                 C("relative_dependency_resolves_against_the_listing_directory",
                   "implies('deps' in raw_task, forall(k, 'int', implies(0 <= k and k < seq_len(raw_task['deps']) and select(raw_task['deps'], k).startswith(':'),"
                   " select(result._deps, k)._path == identifier._path and select(raw_task['deps'], k) == ':' + select(result._deps, k)._name)))", "C20"),
                 C("absolute_dependency_is_a_prefixed_identifier_of_the_grammar",
                   "implies('deps' in raw_task, forall(k, 'int', implies(0 <= k and k < seq_len(raw_task['deps']) and not select(raw_task['deps'], k).startswith(':'),"
                   " in_re(select(raw_task['deps'], k), 'ident') and select(raw_task['deps'], k).startswith('//')"
                   " and select(raw_task['deps'], k).endswith(':' + select(result._deps, k)._name))))", "C20"),
             ],
             raises={"ConductorError+": []},
             loops={0: Loop(header="for dep in raw_task['deps']:", index="n",
                            modifies=["list@task_deps", "set@task_deps_set", "$alloc"],
                            invariant=[
                                C("one_per_string", "seq_len(task_deps) == n"),
                                C("set_is_the_list", "forall(x, 'TaskIdentifier', (x in task_deps_set) == exists(i, 'int', 0 <= i and i < n and select(task_deps, i) == x))"),
                                C("distinct_so_far", "forall(i, 'int', forall(k, 'int', implies(0 <= i and i < k and k < n, select(task_deps, i) != select(task_deps, k))))"),
                                C("relative_resolved", "forall(k, 'int', implies(0 <= k and k < n and select(raw_task['deps'], k).startswith(':'),"
                                                       " select(task_deps, k)._path == identifier._path and select(raw_task['deps'], k) == ':' + select(task_deps, k)._name))"),
                                C("absolute_parsed", "forall(k, 'int', implies(0 <= k and k < n and not select(raw_task['deps'], k).startswith(':'),"
                                                     " in_re(select(raw_task['deps'], k), 'ident') and select(raw_task['deps'], k).startswith('//') and select(raw_task['deps'], k).endswith(':' + select(task_deps, k)._name)))"),
                            ])}),

    Contract(F + "::TaskIndex.load_transitive_closure", params={"task_identifier": "TaskIdentifier"}, props=["C14", "C02"],
             locals={"identifiers_to_load": "List[%s]#tostk" % ID_FLAG, "visited_identifiers": "Set[TaskIdentifier]#visid", "curr_path": "Set[TaskIdentifier]#cpath"},
             requires=[C("closure_predicate", "Reach(task_identifier) and forall(t, 'TaskIdentifier', implies(Reach(t) and Defined(t),"
                                              " forall(j, 'int', implies(0 <= j and j < seq_len(Deps(t)), Reach(select(Deps(t), j))))))"),
                       C("ghost_clock", "g_clock == 0 and forall(t, 'TaskIdentifier', not (t in g_fin))")],
             modifies=["dict@self._loaded_tasks", "$alloc", "ConductorError.file_context_set", "ConductorError.extra_context_set", "g_fin", "g_clock", "dict@g_fin", "g_witness", "g_par", "g_openpos"],
             ensures=[
                 C("root_loaded", "task_identifier in self._loaded_tasks and task_identifier in g_fin", "C14"),
                 C("closure_complete_and_acyclic",
                   "forall(t, 'TaskIdentifier', implies(t in g_fin, (t in self._loaded_tasks) and Defined(t) and self._loaded_tasks[t]._deps == Deps(t) and"
                   " forall(j, 'int', implies(0 <= j and j < seq_len(Deps(t)), (select(Deps(t), j) in g_fin) and g_fin[select(Deps(t), j)] < g_fin[t]))))", "C14"),
                 C("nothing_outside_the_closure_touched", "forall(t, 'TaskIdentifier', implies(t in g_fin, Reach(t)))", "C14"),
             ],
             uses=["tc_edge", "tc_trans"],
             raises={"CyclicDependency": [C("a_cycle_is_reachable", "Reach(g_witness) and TC(g_witness, g_witness)", "C14")], "TaskNotFound": [C("an_undefined_task_is_reachable", "Reach(g_witness) and not Defined(g_witness)", "C14")],
                     "ConductorError+": []},
             loops={
                 0: Loop(header="while len(identifiers_to_load) > 0:",
                         modifies=["list@identifiers_to_load", "set@visited_identifiers", "set@curr_path", "dict@self._loaded_tasks", "$alloc",
                                   "ConductorError.file_context_set", "g_clock", "dict@g_fin", "g_witness", "g_par", "g_openpos"],
                         invariant=[
                             C("flags", "all(e[1] == 0 or e[1] == 1 for e in identifiers_to_load)"),
                             C("visited_is_finished", "forall(t, 'TaskIdentifier', (t in visited_identifiers) == (t in g_fin))"),
                             C("visited_closed_with_rank",
                               "forall(t, 'TaskIdentifier', implies(t in g_fin, (t in self._loaded_tasks) and Defined(t) and self._loaded_tasks[t]._deps == Deps(t) and g_fin[t] < g_clock and"
                               " forall(j, 'int', implies(0 <= j and j < seq_len(Deps(t)), (select(Deps(t), j) in g_fin) and g_fin[select(Deps(t), j)] < g_fin[t]))))"),
                             C("path_is_the_open_entries", "forall(t, 'TaskIdentifier', (t in curr_path) == exists(q, 'int', 0 <= q and q < seq_len(identifiers_to_load)"
                                                           " and select(identifiers_to_load, q)[0] == t and select(identifiers_to_load, q)[1] == 1))"),
                             C("open_entries_distinct", "forall(p, 'int', forall(q, 'int', implies(0 <= p and p < q and q < seq_len(identifiers_to_load)"
                                                        " and select(identifiers_to_load, p)[1] == 1 and select(identifiers_to_load, q)[1] == 1,"
                                                        " select(identifiers_to_load, p)[0] != select(identifiers_to_load, q)[0])))"),
                             C("open_entries_loaded_and_their_deps_finished_or_above",
                               "forall(p, 'int', implies(0 <= p and p < seq_len(identifiers_to_load) and select(identifiers_to_load, p)[1] == 1,"
                               " (select(identifiers_to_load, p)[0] in self._loaded_tasks) and Defined(select(identifiers_to_load, p)[0])"
                               " and self._loaded_tasks[select(identifiers_to_load, p)[0]]._deps == Deps(select(identifiers_to_load, p)[0]) and"
                               " forall(j, 'int', implies(0 <= j and j < seq_len(Deps(select(identifiers_to_load, p)[0])),"
                               "   (select(Deps(select(identifiers_to_load, p)[0]), j) in g_fin) or"
                               "   exists(q, 'int', p < q and q < seq_len(identifiers_to_load) and select(identifiers_to_load, q)[0] == select(Deps(select(identifiers_to_load, p)[0]), j))))))"),
                             C("parents", "forall(j, 'int', implies(0 < j and j < seq_len(identifiers_to_load),"
                                          " 0 <= select(g_par, j) and select(g_par, j) < j and select(identifiers_to_load, select(g_par, j))[1] == 1"
                                          " and TC(select(identifiers_to_load, select(g_par, j))[0], select(identifiers_to_load, j)[0])"
                                          " and forall(m, 'int', implies(select(g_par, j) < m and m < j, select(identifiers_to_load, m)[1] == 0))))"),
                             C("open_entries_form_a_path", "forall(p, 'int', forall(q, 'int', implies(0 <= p and p < q and q < seq_len(identifiers_to_load)"
                                                           " and select(identifiers_to_load, p)[1] == 1 and select(identifiers_to_load, q)[1] == 1,"
                                                           " TC(select(identifiers_to_load, p)[0], select(identifiers_to_load, q)[0]))))"),
                             C("everything_in_closure", "all(Reach(e[0]) for e in identifiers_to_load) and forall(t, 'TaskIdentifier', implies(t in g_fin, Reach(t)))"),
                             C("root_finished_or_pending", "(task_identifier in g_fin) or on_stack(identifiers_to_load, task_identifier)"),
                             C("clock", "g_clock >= 0"),
                         ]),
                 1: Loop(header="for dep in self._loaded_tasks[identifier].deps:", index="j2", modifies=["list@identifiers_to_load", "g_par"],
                         invariant=[
                             C("flags", "all(e[1] == 0 or e[1] == 1 for e in identifiers_to_load)"),
                             C("stack_only_grows_with_unopened", "seq_len(identifiers_to_load) >= at_loop(seq_len(identifiers_to_load)) and"
                                                                 " forall(k, 'int', implies(0 <= k and k < at_loop(seq_len(identifiers_to_load)), select(identifiers_to_load, k) == at_loop(select(identifiers_to_load, k)))) and"
                                                                 " forall(k, 'int', implies(at_loop(seq_len(identifiers_to_load)) <= k and k < seq_len(identifiers_to_load), select(identifiers_to_load, k)[1] == 0 and Reach(select(identifiers_to_load, k)[0])))"),
                             C("new_entries_hang_below_the_open_entry",
                               "g_openpos == at_loop(seq_len(identifiers_to_load)) - 1 and"
                               " forall(k, 'int', implies(at_loop(seq_len(identifiers_to_load)) <= k and k < seq_len(identifiers_to_load),"
                               "   select(g_par, k) == g_openpos and TC(identifier, select(identifiers_to_load, k)[0]))) and"
                               " forall(k, 'int', implies(0 <= k and k < at_loop(seq_len(identifiers_to_load)), select(g_par, k) == at_loop(select(g_par, k))))"),
                             C("processed_deps_finished_or_above",
                               "forall(m, 'int', implies(0 <= m and m < j2, (select(Deps(identifier), m) in g_fin) or"
                               " exists(q, 'int', at_loop(seq_len(identifiers_to_load)) <= q and q < seq_len(identifiers_to_load) and select(identifiers_to_load, q)[0] == select(Deps(identifier), m))))"),
                         ]),
             },
             ghost=[Ghost("assert Reach(identifier)\ng_witness = identifier", after="identifier, visit_count = identifiers_to_load.pop()"),
                    Ghost("p0 = witness(p, 'int', 0 <= p and p < seq_len(identifiers_to_load) and select(identifiers_to_load, p)[0] == identifier and select(identifiers_to_load, p)[1] == 1)\n"
                          "r0 = select(g_par, seq_len(identifiers_to_load))\n"
                          "assert seq_len(identifiers_to_load) > 0\n"
                          "assert 0 <= r0 and r0 < seq_len(identifiers_to_load) and select(identifiers_to_load, r0)[1] == 1\n"
                          "assert TC(select(identifiers_to_load, r0)[0], identifier)\n"
                          "assert p0 <= r0\n"
                          "assert TC(identifier, identifier)",
                          before="raise CyclicDependency(...", optional=True),
                    Ghost("g_openpos = seq_len(identifiers_to_load) - 1", after="identifiers_to_load.append((identifier, 1))"),
                    Ghost("g_par = store(g_par, seq_len(identifiers_to_load) - 1, g_openpos)", after="identifiers_to_load.append((dep, 0))"),
                    Ghost("if not (identifier in g_fin):\n    g_fin[identifier] = g_clock\n    g_clock = g_clock + 1", after="visited_identifiers.add(identifier)")]),
]
