"""execution/ops/run_task_executable.py -- C07 (environment contract at the spawn), C04 (COND_SLOT), C10 (record
type), C06 (a version is recorded only after exit 0, finished logs and written args/options), C09 (the Popen
object stays owned by the handle), C16 (abort points), C01/C03 (refines the Operation base contracts).

The spawn is observed through the assumed contract of subprocess.Popen, which copies its arguments into ghost
globals g_sp_*; the postcondition of start_execution states the property over those.
"""
from pyvc.contract import ClassDecl, Contract, Logic, Lemma, C, Loop, Ghost

F = "execution/ops/run_task_executable.py"

CLASSES = [
    ClassDecl("RunTaskExecutable", file=F,
              fields={"_identifier": "TaskIdentifier", "_task": "TaskType", "_args": "RunArguments", "_options": "RunOptions",
                      "_run": "str", "_working_path": "Val[Path]", "_output_path": "Val[Path]",
                      "_deps_output_paths": "Seq[Val[Path]]", "_record_output": "bool", "_version_to_record": "Opt[Version]",
                      "_serialize_args_options": "bool", "_parallelizable": "bool"}),
    ClassDecl("PopenObj", fields={"pid": "int", "stdout": "Opt[PipeReader]", "stderr": "Opt[PipeReader]"}),
    ClassDecl("TaskFailed", exception=True, bases=["ConductorError"]),
    ClassDecl("TaskNonZeroExit", exception=True, bases=["ConductorError"]),
]

LOGIC = Logic(
    funcs={"ArgsEmpty": (["RunArguments"], "bool"), "OptionsEmpty": (["RunOptions"], "bool")},
    globals={
        "ext_os_environ": "Dict[str,str]#osenv", "ext_sys_stdout": "TextStream", "ext_sys_stderr": "TextStream",
        "g_dirs": "Set[Val[Path]]#dirs",
        "g_sp_count": "int", "g_sp_cmd": "str", "g_sp_env": "Dict[str,str]#envd", "g_sp_cwd": "Val[Path]", "g_sp_exe": "str",
        "g_sp_shell": "bool", "g_sp_session": "bool", "g_sp_stdout": "Opt[File]", "g_sp_stderr": "Opt[File]",
        "g_sp_last": "Opt[PopenObj]", "g_spawned": "Set[int]#spawned",
        "g_json_written": "Set[Val[Path]]#jsonw",
        "g_ready_to_record": "bool", "g_row_pending": "bool", "g_row_committed": "bool",
        "g_row_ident": "TaskIdentifier", "g_row_version": "Opt[Version]",
    },
    axioms=[C("path_join_injective", "forall(p, 'Val[Path]', forall(q, 'Val[Path]', forall(a, 'str', forall(b, 'str',"
                                     " implies(Path_join(p, a) == Path_join(q, b), p == q and a == b)))))")],
    macros={
        "handler_finished(h)": "(h._type != RecordType.Teed or h._tee_future is None) and (h._type != RecordType.OnlyLogged or h._file is None)",
    },
)

SPAWN_MODS = ["g_sp_count", "g_sp_cmd", "g_sp_env", "g_sp_cwd", "g_sp_exe", "g_sp_shell", "g_sp_session", "g_sp_stdout", "g_sp_stderr",
              "g_sp_last", "g_spawned"]

CONTRACTS = [
    # ------------------------------------------------------------------ assumed: OS / library
    Contract("ext::Path.mkdir", varargs=True, modifies=["g_dirs"],
             ensures=["self in g_dirs", "forall(d, 'Val[Path]', implies(old(d in g_dirs), d in g_dirs))"],
             raises={"OSError+": ["forall(d, 'Val[Path]', implies(old(d in g_dirs), d in g_dirs))"]},
             trusted_reason="A-LIB: mkdir(parents=True, exist_ok=True) leaves an existing directory or raises OSError; never removes anything"),
    Contract("ext::subprocess.Popen",
             params={"args": "List[str]", "shell": "bool", "cwd": "Val[Path]", "executable": "str", "stdout": "Opt[File]", "stderr": "Opt[File]",
                     "env": "Dict[str,str]#envd", "start_new_session": "bool"},
             returns="PopenObj", fresh_result=True, modifies=SPAWN_MODS,
             ensures=["g_sp_count == old(g_sp_count) + 1", "seq_len(args) >= 1 and g_sp_cmd == select(args, 0)", "g_sp_env == env", "g_sp_cwd == cwd",
                      "g_sp_exe == executable", "g_sp_shell == shell", "g_sp_session == start_new_session", "g_sp_stdout == stdout",
                      "g_sp_stderr == stderr", "g_sp_last == result",
                      "result.pid in g_spawned and not old(result.pid in g_spawned) and forall(p, 'int', implies(old(p in g_spawned), p in g_spawned))",
                      "result.pid > 0", "implies(start_new_session, Pgid(result.pid) == result.pid)",
                      "(result.stdout is not None) == (stdout is not None and some(stdout) == ext_subprocess_PIPE)",
                      "(result.stderr is not None) == (stderr is not None and some(stderr) == ext_subprocess_PIPE)"],
             raises={"OSError+": ["g_sp_count == old(g_sp_count) and unchanged('region:spawned')"]},
             trusted_reason="A-OS: subprocess.Popen spawns exactly the described process (or raises OSError); a pipe end exists iff PIPE was passed; "
                            "start_new_session makes the child leader of its own process group"),
    Contract("utils/tee.py::TeeProcessor.shutdown", extern=True, trusted_reason="waits for the tee workers"),
    Contract("utils/run_arguments.py::RunArguments.empty", returns="bool", extern=True, ensures=["result == ArgsEmpty(self)"], trusted_reason="len(self._args) == 0"),
    Contract("utils/run_options.py::RunOptions.empty", returns="bool", extern=True, ensures=["result == OptionsEmpty(self)"], trusted_reason="len(self._options) == 0"),
    Contract("ext::RunArguments.serialize_json", params={"file_path": "Val[Path]"}, modifies=["g_json_written"],
             ensures=["forall(p, 'Val[Path]', (p in g_json_written) == (old(p in g_json_written) or p == file_path))"],
             raises={"OSError+": []}, trusted_reason="call-site view of RunArguments.serialize_json (verified in contracts/run_args.py): the file at file_path is written"),
    Contract("ext::RunOptions.serialize_json", params={"file_path": "Val[Path]"}, modifies=["g_json_written"],
             ensures=["forall(p, 'Val[Path]', (p in g_json_written) == (old(p in g_json_written) or p == file_path))"],
             raises={"OSError+": []}, trusted_reason="call-site view of RunOptions.serialize_json (verified in contracts/run_args.py)"),
    Contract("execution/version_index.py::VersionIndex.insert_output_version", params={"task_identifier": "TaskIdentifier", "version": "Version"}, extern=True,
             requires=[C("only_a_finished_successful_run_is_recorded", "g_ready_to_record", "C06")],
             modifies=["g_row_pending", "g_row_ident", "g_row_version"],
             ensures=["g_row_pending", "g_row_ident == task_identifier", "g_row_version == version"],
             trusted_reason="A-SQL: INSERT inside an implicit transaction (invisible until commit)"),
    Contract("ext::VersionIndex.commit_changes(finish)",
             requires=[C("commit_only_what_is_ready", "implies(g_row_pending, g_ready_to_record)", "C06")],
             modifies=["g_row_pending", "g_row_committed"],
             ensures=["g_row_committed == (old(g_row_committed) or old(g_row_pending))", "not g_row_pending"],
             trusted_reason="A-SQL: commit is atomic"),

    # ------------------------------------------------------------------ start_execution
    Contract(F + "::RunTaskExecutable.start_execution", params={"ctx": "Context", "slot": "Opt[int]"}, returns="OperationExecutionHandle",
             props=["C07", "C04", "C10", "C09", "C16", "C03", "C01"], abortable=True, fresh_result=True,
             locals={"env_vars": "Dict[str,str]#envd", "process": "Opt[PopenObj]"},
             requires=[C("started_once", "not self.g_started")],
             modifies=SPAWN_MODS + ["g_dirs", "g_killed", "Operation.g_started@self", "$alloc", "OutputHandler._file", "OutputHandler._tee_future",
                                    "ConductorError.extra_context_set"],
             ensures=[
                 C("spawned_exactly_one_process", "g_sp_count == old(g_sp_count) + 1 and result.pid is not None and g_sp_last is not None and some(result.pid) == some(g_sp_last).pid", "C07", "C09"),
                 C("bash_in_the_cond_file_directory", "g_sp_exe == '/bin/bash' and g_sp_shell and g_sp_session and g_sp_cwd == self._working_path and g_sp_cmd == self._run", "C07"),
                 C("name_and_output_dir_exported", "g_sp_env['COND_NAME'] == self._identifier._name and g_sp_env['COND_OUT'] == Path_str(self._output_path)"
                                                   " and (self._output_path in g_dirs)", "C07", "C08"),
                 C("deps_exported_in_declared_order", "g_sp_env['COND_DEPS'] == join_strs(':', self._deps_output_paths)", "C07"),
                 C("slot_exported_iff_assigned", "('COND_SLOT' in g_sp_env) == (slot is not None) and implies(slot is not None, g_sp_env['COND_SLOT'] == int_str(some(slot)))", "C04"),
                 C("teed_iff_recorded_and_sequential", "(g_sp_stdout is not None and some(g_sp_stdout) == ext_subprocess_PIPE) == (self._record_output and slot is None)", "C10"),
                 C("logged_to_the_version_directory", "implies(self._record_output and slot is not None, g_sp_stdout is not None and some(g_sp_stdout).g_path == Path_join(self._output_path, 'stdout.log')"
                                                      " and some(g_sp_stdout).g_mode == 'wb' and g_sp_stderr is not None and some(g_sp_stderr).g_path == Path_join(self._output_path, 'stderr.log'))", "C10"),
                 C("not_recorded_inherits", "implies(not self._record_output, g_sp_stdout is None and g_sp_stderr is None)", "C10"),
                 C("handle_owns_the_popen_object", "result.process == g_sp_last", "C09"),
                 C("handlers_attached", "result.stdout is not None and result.stderr is not None and result.returncode is None and result.slot is None"),
                 C("marks_started", "self.g_started"),
             ],
             raises={
                 "TaskFailed": [C("launch_failure_is_a_task_failure", "True", "C03")],
                 "ConductorAbort": [C("a_spawned_child_is_signalled", "implies(g_sp_count != old(g_sp_count), g_sp_last is not None and"
                                      " (some(g_sp_last).pid in g_killed or Gone(some(g_sp_last).pid)))", "C16"),
                                    ],
                 # only an unexpected failure of getpgid/killpg (not 'no such process') may replace the abort
                 "OSError+": [C("not_a_vanished_process", "exc.errno != ext_errno_ESRCH and exc.errno != ext_errno_ECHILD", "C16"),
                              # without an abort every failure to launch is reported as a failure of THIS task (TaskFailed), so that
                              # the executor can skip its dependents and go on with the independent tasks
                              C("a_launch_failure_never_escapes_as_a_raw_oserror", "abort_pending()", "C03", "C16")],
             },
             ghost=[Ghost("self.g_started = True", before="process = None")]),

    # ------------------------------------------------------------------ finish_execution
    Contract(F + "::RunTaskExecutable.finish_execution", params={"handle": "OperationExecutionHandle", "ctx": "Context"},
             props=["C06", "C10", "C01", "C03", "C16"], abortable=True,
             prefer_ext={"RunArguments.serialize_json": "RunArguments.serialize_json", "RunOptions.serialize_json": "RunOptions.serialize_json",
                         "VersionIndex.commit_changes": "VersionIndex.commit_changes(finish)"},
             uses=["path_join_injective"],
             requires=[C("nothing_pending", "not g_row_pending and not g_ready_to_record"),
                       C("handle_of_a_reaped_process", "handle.stdout is not None and handle.stderr is not None and handle.returncode is not None"),
                       C("handlers_are_distinct_objects", "implies(handle.stdout is not None and handle.stderr is not None, handle.stdout != handle.stderr)")],
             modifies=["OutputHandler._tee_future", "OutputHandler._file", "Future.g_joined", "File.g_closed", "g_json_written",
                       "g_ready_to_record", "g_row_pending", "g_row_committed", "g_row_ident", "g_row_version", "Operation.g_finished_ok@self"],
             ensures=[C("exit_status_was_zero", "handle.returncode is not None and some(handle.returncode) == 0", "C01", "C03", "C06"),
                      C("logs_finished", "handler_finished(some(handle.stdout)) and handler_finished(some(handle.stderr))", "C10", "C06"),
                      C("args_and_options_recorded_exactly_when_non_empty",
                        "implies(self._serialize_args_options, (ArgsEmpty(self._args) or Path_join(self._output_path, 'args.json') in g_json_written) and"
                        " (OptionsEmpty(self._options) or Path_join(self._output_path, 'options.json') in g_json_written))", "C10", "C06"),
                      C("no_record_written_for_empty_args_or_options",
                        "implies(ArgsEmpty(self._args) and not old(Path_join(self._output_path, 'args.json') in g_json_written), not (Path_join(self._output_path, 'args.json') in g_json_written))", "C10"),
                      C("version_recorded_as_given", "implies(self._version_to_record is not None, g_row_committed and not g_row_pending and g_row_ident == self._identifier"
                                                     " and g_row_version == self._version_to_record)", "C06"),
                      C("nothing_recorded_for_unversioned_tasks", "implies(self._version_to_record is None, g_row_committed == old(g_row_committed) and not g_row_pending)", "C06"),
                      C("marks_finished", "self.g_finished_ok")],
             raises={
                 "TaskNonZeroExit": [C("non_zero_exit_is_a_failure", "handle.returncode is not None and some(handle.returncode) != 0", "C03"),
                                     C("nothing_recorded", "not g_row_pending and g_row_committed == old(g_row_committed)", "C06")],
                 "ConductorAbort": [C("nothing_half_recorded", "implies(g_row_committed and not old(g_row_committed), handle.returncode is not None and some(handle.returncode) == 0)", "C16", "C06")],
                 "Exception+": [C("nothing_recorded_unless_ready", "implies(g_row_committed and not old(g_row_committed), handle.returncode is not None and some(handle.returncode) == 0)", "C06")],
             },
             # crash points: whatever has been committed so far was committed only when ready (process death at any statement)
             ppi=[C("committed_only_after_success_and_complete_outputs",
                    "implies(g_row_committed and not old(g_row_committed), handle.returncode is not None and some(handle.returncode) == 0"
                    " and handler_finished(some(handle.stdout)) and handler_finished(some(handle.stderr)))", "C06")],
             ghost=[
                 # computed from REAL state right before the insert: the record may be written only in this state
                 Ghost("g_ready_to_record = (handle.returncode is not None and some(handle.returncode) == 0"
                       " and handler_finished(some(handle.stdout)) and handler_finished(some(handle.stderr))"
                       " and (not self._serialize_args_options or ((ArgsEmpty(self._args) or Path_join(self._output_path, 'args.json') in g_json_written)"
                       "      and (OptionsEmpty(self._options) or Path_join(self._output_path, 'options.json') in g_json_written))))",
                       before="call:insert_output_version", optional=True),
                 Ghost("self.g_finished_ok = True", at_exit=True),
             ]),
]
