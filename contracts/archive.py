"""cli/archive.py -- C11, last sentence: "Archiving never changes the source project's recorded versions or outputs".

What archive.main may touch, by contract:
  * the project's own version index is only READ: no commit on its connection, no open transaction left behind
    (copy_entries_to writes into the *archive* index);
  * the only file-system entries it removes are the temporary archive index (cond-out/<ARCHIVE_VERSION_INDEX>) and
    the archive file it was asked to produce (on failure): call-site precondition of every `unlink`;
  * it never calls rmtree / copytree / move / mkdir on anything (there is no contract for them in this view, so a
    call would leave the function undecided).
"""
from pyvc.contract import ClassDecl, Contract, Logic, C, Loop, Ghost

F = "cli/archive.py"

CLASSES = [
    ClassDecl("Namespace", fields={"task_identifier": "Opt[str]", "output": "Opt[str]", "latest": "bool"}),
    ClassDecl("NoTaskOutputsToArchive", exception=True, bases=["ConductorError"]),
    ClassDecl("OutputFileExists", exception=True, bases=["ConductorError"]),
    ClassDecl("OutputPathDoesNotExist", exception=True, bases=["ConductorError"]),
    ClassDecl("CreateArchiveFailed", exception=True, bases=["ConductorError"]),
]

LOGIC = Logic(globals={"g_arch_index_path": "Val[Path]", "g_arch_out_path": "Val[Path]", "g_arch_paths_known": "bool"})

CONTRACTS = [
    Contract("ext::Path.unlink(archive)", varargs=True, modifies=["g_entries"],
             requires=[C("only_the_temporary_index_and_the_new_archive_are_ever_removed",
                         "g_arch_paths_known and (self == g_arch_index_path or self == g_arch_out_path)", "C11")],
             ensures=["not (self in g_entries)", "forall(p, 'Val[Path]', implies(p != self, (p in g_entries) == old(p in g_entries)))"],
             trusted_reason="pathlib unlink(missing_ok=True) removes that one file if present"),
    Contract("ext::handle_output_path", params={"ctx": "Context", "raw_output_path": "Opt[str]"}, returns="Val[Path]",
             raises={"ConductorError+": []}, trusted_reason="cli/archive.py::handle_output_path: an archive file name that does not exist yet, or OutputFileExists / OutputPathDoesNotExist"),
    Contract("ext::compute_tasks_to_archive", params={"ctx": "Context", "raw_task_identifier": "Opt[str]"}, returns="Opt[List[TaskIdentifier]#toarch]",
             raises={"ConductorError+": []}, trusted_reason="cli/archive.py::compute_tasks_to_archive (bounded: C11.archive.task_selection)"),
    Contract("ext::create_archive", params={"ctx": "Context", "archive_index": "VersionIndex", "output_archive_path": "Val[Path]", "archive_index_path": "Val[Path]"},
             raises={"ConductorError+": []}, trusted_reason="cli/archive.py::create_archive: runs tar (reads the output directories, writes the archive file)"),
    Contract("ext::VersionIndex.copy_entries_to(archive)", params={"dest": "VersionIndex", "tasks": "Opt[List[TaskIdentifier]#toarch]", "latest_only": "bool"}, returns="int",
             requires=[C("copies_into_another_index", "dest != self and dest._conn != self._conn")],
             modifies=["SqliteConnection.in_transaction@dest._conn"],
             ensures=["dest._conn.g_commits == old(dest._conn.g_commits)"],
             raises={"Exception+": []},
             trusted_reason="A-SQL: SELECTs on the source connection (no transaction is opened by a SELECT), INSERTs into dest (VersionIndex.bulk_load, verified in contracts/version_index_tx.py)"),
    Contract("ext::VersionIndex.create_or_load(archive)", params={"path": "Val[Path]"}, returns="VersionIndex", fresh_result=True,
             # a left-over index of a killed `cond archive` would be LOADED (create_or_load) and its rows would end up in this archive
             requires=[C("the_archive_index_starts_from_scratch", "not (path in g_entries)", "C11")],
             modifies=["g_entries"],
             ensures=["fresh(result._conn)", "allocated(result._conn)", "forall(p, 'Val[Path]', implies(p != path, (p in g_entries) == old(p in g_entries)))"], raises={"Exception+": []},
             trusted_reason="A-SQL: a new connection to a (new) database file"),
    Contract("ext::Path.relative_to(archive)", params={"other": "Val[Path]"}, returns="Val[Path]", raises={"ValueError": []}, trusted_reason="pathlib"),

    Contract(F + "::main", params={"args": "Namespace"}, props=["C11"],
             prefer_ext={"Path.unlink": "Path.unlink(archive)", "handle_output_path": "handle_output_path", "compute_tasks_to_archive": "compute_tasks_to_archive",
                         "create_archive": "create_archive", "VersionIndex.copy_entries_to": "VersionIndex.copy_entries_to(archive)",
                         "VersionIndex.create_or_load": "VersionIndex.create_or_load(archive)", "Path.relative_to": "Path.relative_to(archive)"},
             locals={"tasks_to_archive": "Opt[List[TaskIdentifier]#toarch]"},
             requires=[C("paths_not_chosen_yet", "not g_arch_paths_known")],
             modifies=["g_root_found", "g_arch_index_path", "g_arch_out_path", "g_arch_paths_known", "g_entries", "$alloc", "SqliteConnection.in_transaction", "SqliteConnection.g_commits",
                       "ConductorError.extra_context_set", "ConductorError.file_context_set"],
             ensures=[C("project_index_only_read", "forall(v, 'VersionIndex', implies(allocated(v) and old(allocated(v._conn)), v._conn.g_commits == old(v._conn.g_commits)"
                                                   " and v._conn.in_transaction == old(v._conn.in_transaction)))", "C11")],
             raises={"BaseException+": [C("project_index_only_read", "forall(v, 'VersionIndex', implies(old(allocated(v)) and old(allocated(v._conn)), v._conn.g_commits == old(v._conn.g_commits)"
                                                                      " and v._conn.in_transaction == old(v._conn.in_transaction)))", "C11")]},
             ghost=[Ghost("assert allocated(ctx._version_index) and allocated(ctx._version_index._conn), 'hint_the_project_index_exists_before_the_archive_index'",
                          after="ctx = Context.from_cwd()"),
                    Ghost("g_arch_out_path = output_archive_path", after="output_archive_path = handle_output_path(ctx, args.output)"),
                    Ghost("g_arch_index_path = archive_index_path\ng_arch_paths_known = True", after="archive_index_path = pathlib.Path(ctx.output_path, ARCHIVE_VERSION_INDEX)"),
                    # a named task whose closure has nothing archivable must not fall through to "archive everything"
                    Ghost("assert tasks_to_archive is None or seq_len(some(tasks_to_archive)) > 0, 'an_empty_selection_is_never_handed_on_as_no_selection'",
                          before="total_entry_count = ctx.version_index.copy_entries_to(...")]),
]
