"""python3-vt -m pyvc.cli <substring of contract target> : verify one function, print every obligation."""
import sys, time
sys.path.insert(0, "/verif")
from pyvc.source import Repo, SourceError
from pyvc.contract import Registry
from pyvc.stmts import Exec
from pyvc.engine import Unsupported
from pyvc import solve


def main():
    pat = sys.argv[1] if len(sys.argv) > 1 else ""
    verbose = "-v" in sys.argv
    only = None
    if "-k" in sys.argv:
        only = [sys.argv[i + 1] for i, a in enumerate(sys.argv) if a == "-k"]
    reg = Registry().load_package("contracts")
    repo = Repo()
    bad = 0
    for tgt, con in reg.contracts.items():
        if con.extern or pat not in tgt:
            continue
        eng = Exec(repo, reg)
        t0 = time.time()
        try:
            res = eng.verify(con)
        except (Unsupported, SourceError) as ex:
            print("UNDECIDED %s: %s: %s" % (tgt, type(ex).__name__, ex))
            bad += 1
            continue
        obls = res["obligations"]
        if len(obls) + res["trivial"] == 0:
            print("ERROR %s: no obligation was generated (%d path(s)): the contract did not attach" % (tgt, res["paths"]))
            bad += 1
            continue
        print("   symbolic execution: %.1fs, %d paths, %d obligations" % (time.time() - t0, res["paths"], len(obls)))
        if only is not None:
            obls = [o for o in obls if any(x in o.name for x in only)]
            res["probes"] = []
        rs, texts = solve.discharge(obls, timeout_s=10)
        vac = solve.probe(res["probes"]) if all(r["status"] == "unsat" for r in rs) else []
        print("== %s: %d paths, %d obligations (+%d trivial), %.1fs" % (tgt, res["paths"], len(obls), res["trivial"], time.time() - t0))
        for o, r in zip(obls, rs):
            ok = r["status"] == "unsat"
            if not ok:
                bad += 1
            if verbose or not ok:
                print("  [%s] %-7s %s (%s, %.2fs) @ %s" % ("ok" if ok else "FAIL", o.kind, o.name, r["solver"], r["time"], o.where[:60]))
                if not ok:
                    print("        ", r["detail"][:600].replace("\n", " "))
        for nme in vac:
            bad += 1
            print("  [VACUOUS] %s" % nme)
        if res["ghost_assumes"]:
            print("  ghost assumes:", res["ghost_assumes"])
    from pyvc.stmts import verify_lemma
    for lem in reg.logic.lemmas:
        if pat not in "lemma." + lem.name:
            continue
        eng = Exec(repo, reg)
        obls, probes = verify_lemma(eng, lem)
        rs, texts = solve.discharge(obls, timeout_s=20)
        for o, r in zip(obls, rs):
            ok = r["status"] == "unsat"
            bad += 0 if ok else 1
            print("  [%s] %s (%s, %.2fs) %s" % ("ok" if ok else "FAIL", o.name, r["solver"], r["time"], "" if ok else r["detail"][:300].replace("\n", " ")))
    print("bad =", bad)
    return 1 if bad else 0


if __name__ == "__main__":
    sys.exit(main())
