"""Discharge verification conditions with a portfolio of SMT solvers (CLI subprocesses, hard time-outs)."""
import concurrent.futures as cf
import os
import re
import subprocess
import tempfile
import time

import z3

Z3_NEW = os.environ.get("PYVC_Z3", "z3-new")
Z3_OLD = "/usr/bin/z3"
CVC5 = "/usr/bin/cvc5"
NPROC = int(os.environ.get("PYVC_JOBS", "16"))
REC_NAMES = {"str_join"}


def to_smt2(pc, goal=None, get_model=False):
    s = z3.Solver()
    for p in pc:
        s.add(p)
    if goal is not None:
        s.add(z3.Not(goal))
    txt = s.to_smt2()
    if get_model:
        txt += "\n(get-model)\n"
    return txt


def core_text(full, nglob):
    """The VC without its first `nglob` assertions (the global well-typedness facts), cut out of the full SMT-LIB text
    (z3 prints one self-contained `(assert ...)` per formula, in order, each starting at a line start)."""
    if not nglob:
        return None
    idx = [m.start() for m in re.finditer(r"^\(assert", full, re.M)]
    if len(idx) <= nglob:
        return None
    return full[:idx[0]] + full[idx[nglob]:].replace("(get-model)", "")


def _run(cmd, text, timeout_s):
    t0 = time.time()
    try:
        p = subprocess.run(cmd, input=text, capture_output=True, text=True, timeout=timeout_s + 2)
        out = p.stdout
    except subprocess.TimeoutExpired:
        return "unknown", "hard timeout", time.time() - t0
    first = out.strip().splitlines()[0].strip() if out.strip() else ""
    if first in ("sat", "unsat", "unknown"):
        return first, out[len(first):].strip(), time.time() - t0
    if "timeout" in out:
        return "unknown", "timeout", time.time() - t0
    return "error", (out + p.stderr)[:2000], time.time() - t0


def _for_cvc5(text):
    # cvc5 1.0 wants a logic and does not know z3's pattern annotations' :qid / :skolemid attributes
    text = re.sub(r"\(set-info :status [a-z]+\)", "", text)
    text = re.sub(r":qid \S+?(?=[\s)])", "", text)
    text = re.sub(r":skolemid \S+?(?=[\s)])", "", text)
    text = re.sub(r"\(!\s*(\(.*?\))\s*\)", r"\1", text) if False else text
    for nme in REC_NAMES:
        text = text.replace("(_ %s 0)" % nme, nme)
    return "(set-logic ALL)\n" + text


def _cmd(sv, timeout_s):
    if sv == "z3new":
        return [Z3_NEW, "-smt2", "-in", "-T:%d" % timeout_s]
    if sv == "z3old":
        return [Z3_OLD, "-smt2", "-in", "-T:%d" % timeout_s]
    return [CVC5, "--lang=smt2", "--tlimit=%d" % (timeout_s * 1000), "--strings-exp", "--produce-models"]


def _parse(out, err=""):
    first = out.strip().splitlines()[0].strip() if out.strip() else ""
    if first in ("sat", "unsat", "unknown"):
        return first, out[len(first):].strip()
    if "timeout" in out:
        return "unknown", "timeout"
    return "error", (out + err)[:1500]


def solve_text(text, timeout_s=10, strings=None, solvers=None):
    """Run the portfolio concurrently; the first sat/unsat answer wins. -> dict(status, solver, time, detail)."""
    order = solvers or ["z3new", "cvc5", "z3old"]
    t0 = time.time()
    procs = []
    for sv in order:
        inp = _for_cvc5(text) if sv == "cvc5" else text
        try:
            p = subprocess.Popen(_cmd(sv, timeout_s), stdin=subprocess.PIPE, stdout=subprocess.PIPE, stderr=subprocess.PIPE, text=True)
            p.stdin.write(inp)
            p.stdin.close()
            procs.append((sv, p))
        except OSError as ex:
            continue
    tried, result = [], None
    pending = list(procs)
    deadline = t0 + timeout_s + 3
    while pending and result is None:
        for sv, p in list(pending):
            if p.poll() is not None:
                pending.remove((sv, p))
                out, err = p.stdout.read(), p.stderr.read()
                st, detail = _parse(out, err)
                tried.append("%s:%s:%.2fs" % (sv, st, time.time() - t0))
                if st in ("sat", "unsat"):
                    result = {"status": st, "solver": sv, "time": round(time.time() - t0, 3), "detail": detail[:4000]}
                    break
        if result is None and pending:
            if time.time() > deadline:
                break
            time.sleep(0.01)
    for sv, p in pending:
        try:
            p.kill()
        except OSError:
            pass
        try:
            p.stdout.close(); p.stderr.close()
        except Exception:  # noqa
            pass
        p.wait()
    if result is None:
        result = {"status": "unknown", "solver": "-", "time": round(time.time() - t0, 3), "detail": "; ".join(tried) or "all solvers timed out"}
    result["tried"] = tried
    return result


PHASE2_BUDGET_S = int(os.environ.get("PYVC_PHASE2_BUDGET", "0"))


def _phase2(rest, texts, results, timeout_s, jobs):
    """Second phase: the VCs z3 did not decide quickly go to the whole portfolio, a few at a time.  A wall-clock
    budget (default 20 x the per-VC time-out) bounds the phase: on a tree where hundreds of VCs no longer
    discharge (a changed function whose contract no longer fits) the remaining ones stay 'unknown' -- they are
    reported as undecided, never as violations -- instead of costing a quarter of an hour."""
    if not rest:
        return
    workers = max(2, (jobs or NPROC) // 3)
    budget = PHASE2_BUDGET_S or 20 * timeout_s
    t0 = time.time()
    for k in range(0, len(rest), workers):
        chunk = rest[k:k + workers]
        if time.time() - t0 > budget:
            for i in rest[k:]:
                results[i] = dict(results[i], status="unknown", solver="-",
                                  detail="second-phase budget (%d s) exhausted after %d of %d open VCs" % (budget, k, len(rest)))
            return
        with cf.ThreadPoolExecutor(max_workers=workers) as ex:
            futs = {ex.submit(solve_text, texts[i], timeout_s): i for i in chunk}
            for f in cf.as_completed(futs):
                i = futs[f]
                r = f.result()
                r["time"] = round(r["time"] + results[i]["time"], 3)
                results[i] = r


def _only_unsat(r, variant):
    """A verdict on the VC WITHOUT the global well-typedness facts: fewer hypotheses, so only `unsat` carries over."""
    if r["status"] == "unsat":
        return dict(r, solver=r["solver"] + "/" + variant)
    return dict(r, status="unknown", solver="-", detail="(%s VC) %s" % (variant, r.get("detail", ""))[:300])


def discharge_texts(texts, timeout_s=10, jobs=None, cores=None):
    """Discharge ready-made SMT-LIB texts.  cores[i] (optional) is VC i without the global well-typedness facts of
    the heap: it is tried first (a proof from fewer hypotheses is a proof; any other answer is ignored)."""
    results = [None] * len(texts)
    quick = max(2, min(4, timeout_s // 2))
    todo = list(range(len(texts)))
    if cores is not None:
        with cf.ThreadPoolExecutor(max_workers=jobs or max(2, NPROC - 2)) as ex:
            futs = {ex.submit(solve_text, cores[i], min(quick, 2), None, ["z3new"]): i for i in todo if cores[i]}
            for f in cf.as_completed(futs):
                r = _only_unsat(f.result(), "core")
                if r["status"] == "unsat":
                    results[futs[f]] = r
        todo = [i for i in todo if results[i] is None]
    with cf.ThreadPoolExecutor(max_workers=jobs or max(2, NPROC - 2)) as ex:
        futs = {ex.submit(solve_text, texts[i], quick, None, ["z3new"]): i for i in todo}
        for f in cf.as_completed(futs):
            results[futs[f]] = f.result()
    rest = [i for i, r in enumerate(results) if r["status"] not in ("sat", "unsat")]
    if cores is not None and rest:
        # the portfolio on the small VC first
        tmp = {i: dict(results[i]) for i in rest}
        _phase2([i for i in rest if cores[i]], cores, tmp, timeout_s, jobs)
        for i in rest:
            r = _only_unsat(tmp[i], "core") if tmp[i].get("status") == "unsat" else None
            if r is not None:
                r["time"] = round(r["time"], 3)
                results[i] = r
        rest = [i for i in rest if results[i]["status"] not in ("sat", "unsat")]
    _phase2(rest, texts, results, timeout_s, jobs)
    return results


def probe_texts(probes, timeout_s=3, jobs=None):
    """probes: dicts {name, pc, base} of SMT-LIB texts -> list of vacuous names (see probe())."""
    out = {}
    with cf.ThreadPoolExecutor(max_workers=jobs or max(2, NPROC - 2)) as ex:
        futs = {ex.submit(solve_text, p["pc"], timeout_s, None, ["z3new"]): k for k, p in enumerate(probes)}
        for f in cf.as_completed(futs):
            out[(futs[f], "pc")] = f.result()["status"]
    need = [k for k, p in enumerate(probes) if out[(k, "pc")] == "unsat" and p.get("base")]
    with cf.ThreadPoolExecutor(max_workers=jobs or max(2, NPROC - 2)) as ex:
        futs = {ex.submit(solve_text, probes[k]["base"], timeout_s, None, ["z3new"]): k for k in need}
        for f in cf.as_completed(futs):
            out[(futs[f], "base")] = f.result()["status"]
    vacuous, exits = [], {}
    for k, p in enumerate(probes):
        name, st = p["name"], out[(k, "pc")]
        if "normal exit reachable" in name:
            fn = name.split("::")[0]
            exits[fn] = exits.get(fn, False) or st != "unsat"
            continue
        if st == "unsat":
            if p.get("base"):
                if out.get((k, "base")) != "unsat":
                    vacuous.append(name)
            elif "body reachable" in name:
                continue
            else:
                vacuous.append(name)
    for fn, ok in exits.items():
        if not ok:
            vacuous.append(fn + "::no normal exit is reachable under the contract")
    return vacuous


def discharge(obligations, timeout_s=10, jobs=None, progress=None):
    """obligations: list of engine.Obligation -> (list of result dicts (same order), smt2 texts).

    Phase 1: every VC on z3 alone with a short budget (most are immediate), one process per core.
    Phase 2: what is left on the whole portfolio concurrently (z3 5.1, cvc5, z3 4.8), fewer VCs at a time so
    that the budget is not eaten by contention."""
    texts = [to_smt2(o.pc, o.goal, get_model=True) for o in obligations]
    cores = [core_text(t, getattr(o, "nglob", 0)) for t, o in zip(texts, obligations)]
    results = discharge_texts(texts, timeout_s, jobs, cores)
    for i, r in enumerate(results):
        r["smt2_len"] = len(texts[i])
    return results, texts


def probe(probes, timeout_s=3, jobs=None):
    """Vacuity probes. probes: tuples (name, pc[, pc_before]). Returns the list of names that are vacuous:
    pc unsatisfiable although pc_before (when given) is not -- i.e. the step itself introduced a contradiction.
    Probes named '...normal exit reachable' are aggregated per function: at least one must be satisfiable."""
    jobs_ = []
    for k, pr in enumerate(probes):
        jobs_.append((k, "pc", to_smt2(pr[1])))
    out = {}
    with cf.ThreadPoolExecutor(max_workers=jobs or max(2, NPROC - 2)) as ex:
        futs = {ex.submit(solve_text, t, timeout_s, None, ["z3new"]): (k, w) for k, w, t in jobs_}
        for f in cf.as_completed(futs):
            out[futs[f]] = f.result()["status"]
    # second round: for unsat ones with a base, is the base unsat as well (dead path)?
    need = [k for k, pr in enumerate(probes) if out[(k, "pc")] == "unsat" and len(pr) > 2 and pr[2] is not None]
    with cf.ThreadPoolExecutor(max_workers=jobs or max(2, NPROC - 2)) as ex:
        futs = {ex.submit(solve_text, to_smt2(probes[k][2]), timeout_s, None, ["z3new"]): k for k in need}
        for f in cf.as_completed(futs):
            out[(futs[f], "base")] = f.result()["status"]
    vacuous = []
    exits = {}
    for k, pr in enumerate(probes):
        name = pr[0]
        st = out[(k, "pc")]
        if "normal exit reachable" in name:
            fn = name.split("::")[0]
            exits[fn] = exits.get(fn, False) or st != "unsat"
            continue
        if st == "unsat":
            if len(pr) > 2 and pr[2] is not None:
                if out.get((k, "base")) != "unsat":
                    vacuous.append(name)
            elif "body reachable" in name:
                continue       # a loop body that is dead on one path is not vacuity; entry probes guard the contract
            else:
                vacuous.append(name)
    for fn, ok in exits.items():
        if not ok:
            vacuous.append(fn + "::no normal exit is reachable under the contract")
    return vacuous
