"""Discharge verification conditions with a portfolio of SMT solvers (CLI subprocesses, hard time-outs)."""
import concurrent.futures as cf
import os
import re
import subprocess
import tempfile
import time

import z3

Z3_NEW = os.environ.get("PYVC_Z3", "z3-new")
Z3_OLD = "/usr/bin/z3"
CVC5 = "/usr/bin/cvc5"
NPROC = int(os.environ.get("PYVC_JOBS", "16"))
REC_NAMES = {"str_join"}


def to_smt2(pc, goal=None, get_model=False):
    s = z3.Solver()
    for p in pc:
        s.add(p)
    if goal is not None:
        s.add(z3.Not(goal))
    txt = s.to_smt2()
    if get_model:
        txt += "\n(get-model)\n"
    return txt


def _run(cmd, text, timeout_s):
    t0 = time.time()
    try:
        p = subprocess.run(cmd, input=text, capture_output=True, text=True, timeout=timeout_s + 2)
        out = p.stdout
    except subprocess.TimeoutExpired:
        return "unknown", "hard timeout", time.time() - t0
    first = out.strip().splitlines()[0].strip() if out.strip() else ""
    if first in ("sat", "unsat", "unknown"):
        return first, out[len(first):].strip(), time.time() - t0
    if "timeout" in out:
        return "unknown", "timeout", time.time() - t0
    return "error", (out + p.stderr)[:2000], time.time() - t0


def _for_cvc5(text):
    # cvc5 1.0 wants a logic and does not know z3's pattern annotations' :qid / :skolemid attributes
    text = re.sub(r"\(set-info :status [a-z]+\)", "", text)
    text = re.sub(r":qid \S+?(?=[\s)])", "", text)
    text = re.sub(r":skolemid \S+?(?=[\s)])", "", text)
    text = re.sub(r"\(!\s*(\(.*?\))\s*\)", r"\1", text) if False else text
    for nme in REC_NAMES:
        text = text.replace("(_ %s 0)" % nme, nme)
    return "(set-logic ALL)\n" + text


def _cmd(sv, timeout_s):
    if sv == "z3new":
        return [Z3_NEW, "-smt2", "-in", "-T:%d" % timeout_s]
    if sv == "z3old":
        return [Z3_OLD, "-smt2", "-in", "-T:%d" % timeout_s]
    return [CVC5, "--lang=smt2", "--tlimit=%d" % (timeout_s * 1000), "--strings-exp", "--produce-models"]


def _parse(out, err=""):
    first = out.strip().splitlines()[0].strip() if out.strip() else ""
    if first in ("sat", "unsat", "unknown"):
        return first, out[len(first):].strip()
    if "timeout" in out:
        return "unknown", "timeout"
    return "error", (out + err)[:1500]


def solve_text(text, timeout_s=10, strings=None, solvers=None):
    """Run the portfolio concurrently; the first sat/unsat answer wins. -> dict(status, solver, time, detail)."""
    order = solvers or ["z3new", "cvc5", "z3old"]
    t0 = time.time()
    procs = []
    for sv in order:
        inp = _for_cvc5(text) if sv == "cvc5" else text
        try:
            p = subprocess.Popen(_cmd(sv, timeout_s), stdin=subprocess.PIPE, stdout=subprocess.PIPE, stderr=subprocess.PIPE, text=True)
            p.stdin.write(inp)
            p.stdin.close()
            procs.append((sv, p))
        except OSError as ex:
            continue
    tried, result = [], None
    pending = list(procs)
    deadline = t0 + timeout_s + 3
    while pending and result is None:
        for sv, p in list(pending):
            if p.poll() is not None:
                pending.remove((sv, p))
                out, err = p.stdout.read(), p.stderr.read()
                st, detail = _parse(out, err)
                tried.append("%s:%s:%.2fs" % (sv, st, time.time() - t0))
                if st in ("sat", "unsat"):
                    result = {"status": st, "solver": sv, "time": round(time.time() - t0, 3), "detail": detail[:4000]}
                    break
        if result is None and pending:
            if time.time() > deadline:
                break
            time.sleep(0.01)
    for sv, p in pending:
        try:
            p.kill()
        except OSError:
            pass
        try:
            p.stdout.close(); p.stderr.close()
        except Exception:  # noqa
            pass
        p.wait()
    if result is None:
        result = {"status": "unknown", "solver": "-", "time": round(time.time() - t0, 3), "detail": "; ".join(tried) or "all solvers timed out"}
    result["tried"] = tried
    return result


def discharge(obligations, timeout_s=10, jobs=None, progress=None):
    """obligations: list of engine.Obligation -> list of result dicts (same order)."""
    texts = [to_smt2(o.pc, o.goal, get_model=True) for o in obligations]
    results = [None] * len(texts)
    with cf.ThreadPoolExecutor(max_workers=jobs or max(4, NPROC // 2)) as ex:
        futs = {ex.submit(solve_text, t, timeout_s): i for i, t in enumerate(texts)}
        for f in cf.as_completed(futs):
            i = futs[f]
            results[i] = f.result()
            results[i]["smt2_len"] = len(texts[i])
    return results, texts


def probe(pcs, timeout_s=3, jobs=None):
    """Vacuity probes: each path condition must NOT be unsatisfiable."""
    texts = [to_smt2(pc) for pc in pcs]
    out = [None] * len(texts)
    with cf.ThreadPoolExecutor(max_workers=jobs or NPROC) as ex:
        futs = {ex.submit(solve_text, t, timeout_s, None, ["z3new"]): i for i, t in enumerate(texts)}
        for f in cf.as_completed(futs):
            out[futs[f]] = f.result()
    return out
