"""pyvc engine: symbolic execution of real Python function bodies against sidecar contracts.

Direct-style interpreter with *choice replay*: every fork point (branch on a
symbolic condition, exceptional outcome of a callee, asynchronous abort point)
asks `choose(n)`; the driver re-runs the function once per choice sequence.
Fresh-name counters are reset per run, so shared prefixes produce identical
terms and obligations are de-duplicated structurally.
"""
import ast
import builtins as _bi
import re as _re

import z3

from . import types as T
from .types import AND, OR, Ty, Ref, NONE, sort_of, parse as ty
from .source import SourceError, header_text, strip_docstring
from .contract import Clause, Contract, Loop


# --------------------------------------------------------------------------- signals
class Signal(Exception):
    pass


class ReturnSig(Signal):
    def __init__(self, value):
        self.value = value


class BreakSig(Signal):
    pass


class ContinueSig(Signal):
    pass


class PathEnd(Signal):
    """Path finished (loop iteration closed) or pruned as infeasible."""


class RaiseSig(Signal):
    def __init__(self, exc):
        self.exc = exc


class Unsupported(Exception):
    """The function left the supported subset / a contract is missing => undecided, never a violation."""


class SymExc:
    def __init__(self, cls, exact=True, excluded=(), val=None, origin=""):
        self.cls = cls
        self.exact = exact
        self.excluded = tuple(excluded)
        self.val = val
        self.origin = origin

    def __repr__(self):
        return "%s%s" % (self.cls, "" if self.exact else "+")


# --------------------------------------------------------------------------- values
class V:
    __slots__ = ("ty", "t")

    def __init__(self, ty_, t):
        self.ty = ty(ty_)
        self.t = t

    def __repr__(self):
        return "V(%r, %s)" % (self.ty, self.t)


class Py:
    """Python-level (non-symbolic) value: module, class, function, bound method, lambda, regex, type ..."""
    __slots__ = ("kind", "p")

    def __init__(self, kind, p):
        self.kind = kind
        self.p = p

    def __repr__(self):
        return "Py(%s, %r)" % (self.kind, self.p)


NONE_V = V(T.NONE_T, NONE)


def mk_bool(b):
    return V(T.BOOL, z3.BoolVal(bool(b)))


def mk_int(i):
    return V(T.INT, z3.IntVal(int(i)))


def mk_str(s):
    return V(T.STR, z3.StringVal(s))


class Obligation:
    __slots__ = ("name", "kind", "pc", "goal", "props", "func", "where", "text", "nglob")

    def __init__(self, name, kind, pc, goal, props, func, where, text, nglob=0):
        self.name, self.kind, self.pc, self.goal = name, kind, pc, goal
        self.props, self.func, self.where, self.text = tuple(props), func, where, text
        self.nglob = nglob      # pc[:nglob] are the global well-typedness facts (a VC without them is tried first)

    def key(self):
        return (self.name, tuple(p.get_id() for p in self.pc), self.goal.get_id())


class ExcHierarchy:
    def __init__(self, repo):
        self.parents = {}
        try:
            mod = repo.module("errors/generated.py")
            for n in mod.body:
                if isinstance(n, ast.ClassDef):
                    self.parents[n.name] = [ast.unparse(b) for b in n.bases]
        except SourceError:
            pass
        self.parents["ConductorError"] = ["RuntimeError"]

    def mro(self, name):
        out, todo = [], [name]
        while todo:
            n = todo.pop(0)
            if n in out:
                continue
            out.append(n)
            if n in self.parents:
                todo.extend(self.parents[n])
            else:
                c = getattr(_bi, n, None)
                if isinstance(c, type) and issubclass(c, BaseException):
                    todo.extend(b.__name__ for b in c.__bases__ if b is not object)
                elif n.endswith("IntegrityError") or n.endswith("sqlite3.Error"):
                    todo.append("Exception")
                elif n not in ("BaseException",):
                    todo.append("Exception")
        return out

    def issub(self, a, b):
        return b.split(".")[-1] in [x.split(".")[-1] for x in self.mro(a)]


_REC_CACHE = {}


def _const_ids(f):
    """ids of the uninterpreted constants occurring in f."""
    out, seen, todo = set(), set(), [f]
    while todo:
        t = todo.pop()
        i = t.get_id()
        if i in seen:
            continue
        seen.add(i)
        if z3.is_quantifier(t):
            todo.append(t.body())
        elif z3.is_app(t):
            if t.num_args() == 0 and t.decl().kind() == z3.Z3_OP_UNINTERPRETED:
                out.add(i)
            for k in range(t.num_args()):
                todo.append(t.arg(k))
    return out


def split_goal(g):
    """Split a goal into independently provable parts: conjunctions under (nested) foralls / implications."""
    if z3.is_and(g):
        out = []
        for i in range(g.num_args()):
            out += split_goal(g.arg(i))
        return out
    if z3.is_quantifier(g) and g.is_forall():
        vs = [z3.Const("%s!s" % g.var_name(i), g.var_sort(i)) for i in range(g.num_vars())]
        body = z3.substitute_vars(g.body(), *reversed(vs))
        parts = split_goal(body)
        if len(parts) <= 1:
            return [g]
        return [z3.ForAll(vs, p) for p in parts]
    if z3.is_implies(g):
        parts = split_goal(g.arg(1))
        if len(parts) <= 1:
            return [g]
        return [z3.Implies(g.arg(0), p) for p in parts]
    return [g]


_QCACHE = {}


def _has_quant(f):
    i = f.get_id()
    if i not in _QCACHE:
        found, seen, todo = False, set(), [f]
        while todo and not found:
            t = todo.pop()
            j = t.get_id()
            if j in seen:
                continue
            seen.add(j)
            if z3.is_quantifier(t):
                found = True
            elif z3.is_app(t):
                todo.extend(t.arg(k) for k in range(t.num_args()))
        _QCACHE[i] = found
    return _QCACHE[i]


def _alpha_key(f):
    """A key that identifies quantified facts up to the names of their bound variables."""
    if z3.is_quantifier(f):
        return ("q", f.is_forall(), f.num_vars(), tuple(str(f.var_sort(i)) for i in range(f.num_vars())), f.body().sexpr())
    return ("g", f.get_id())


# --------------------------------------------------------------------------- engine
class State:
    def __init__(self):
        self.loc = {}
        self.heap = {}
        self.pc = []
        self.glob = []          # global facts (well-typedness of the heap), never captured as guards
        self.glob_keys = set()
        self.glob_seen = set()
        self.typed_seen = set()
        self.handling = []      # stack of exceptions currently being handled (for bare `raise`)


class Engine:
    FEAS_TIMEOUT_MS = 150

    def __init__(self, repo, registry, prune=True):
        self.repo = repo
        self.reg = registry
        self.exc = ExcHierarchy(repo)
        self.prune = prune
        self.typeof = z3.Function("typeof", Ref, z3.IntSort())
        self.class_ids = {}
        self._init_heap = {}
        self._funcs = {}
        self._consts_cache = {}
        self.warnings = []
        # register every repo exception class up front so that subclass sets (and class ids) are static
        from .contract import ClassDecl
        for cname in sorted(self.exc.parents):
            if cname not in self.reg.classes:
                bases = [b.split(".")[-1] for b in self.exc.parents[cname]]
                bases = [b for b in bases if b in self.exc.parents or b in self.reg.classes]
                self.reg.classes[cname] = ClassDecl(cname, bases=bases or ["BaseException"], exception=True)
        for cname in sorted(self.reg.classes):
            self.class_id(cname)

    # ----------------------------------------------------------------- classes
    def class_id(self, name):
        if name not in self.class_ids:
            self.class_ids[name] = len(self.class_ids) + 1
        return self.class_ids[name]

    def class_bases(self, name):
        cd = self.reg.classes.get(name)
        if cd is None:
            return []
        if cd.bases is not None:
            return list(cd.bases)
        if cd.file:
            try:
                bs = self.repo.class_bases(cd.file, cd.qual)
            except SourceError:
                return []
            return [b.split(".")[-1] for b in bs if b.split(".")[-1] in self.reg.classes]
        return []

    def class_mro(self, name):
        out, todo = [], [name]
        while todo:
            n = todo.pop(0)
            if n in out:
                continue
            out.append(n)
            todo.extend(self.class_bases(n))
        return out

    def subclasses(self, name):
        return [c for c in self.reg.classes if name in self.class_mro(c)]

    def field_decl(self, clsname, attr):
        for c in self.class_mro(clsname):
            cd = self.reg.classes.get(c)
            if cd is None:
                continue
            for kind, table in (("field", cd.fields), ("virtual", cd.virtual), ("ghost", cd.ghost)):
                if attr in table:
                    return c, ty(table[attr]), kind
        return None

    def member(self, clsname, name):
        """Real-source member lookup along the MRO -> (rel, Cls, FunctionDef, decorators)."""
        for c in self.class_mro(clsname):
            cd = self.reg.classes.get(c)
            if cd is None or not cd.file:
                continue
            try:
                mem = self.repo.class_members(cd.file, cd.qual)
            except SourceError:
                continue
            if name in mem:
                return cd.file, cd.qual, mem[name][0], mem[name][1]
        return None

    def isinstance_term(self, term, clsname):
        subs = self.subclasses(clsname) or [clsname]
        return OR([self.typeof(term) == self.class_id(s) for s in subs])

    # ----------------------------------------------------------------- run control
    def reset_run(self, choices):
        self.st = State()
        self.choices = list(choices)
        self.arity = []
        self.pos = 0
        self.counter = 0
        self.spec_depth = 0
        self.quant_depth = 0
        self.bound_stack = []
        self.old_heap = None
        self.loop_heap = None
        self.call_depth = 0
        self.cur_stmt = None

    def fresh(self, base, srt):
        self.counter += 1
        return z3.Const("%s!%d" % (base, self.counter), srt)

    def choose(self, n, tag=""):
        if n <= 1:
            return 0
        if self.spec_depth or self.quant_depth:
            raise Unsupported("fork inside a specification / quantifier (%s)" % tag)
        if self.pos < len(self.choices):
            c = self.choices[self.pos]
        else:
            c = 0
            self.choices.append(0)
        if self.pos < len(self.arity):
            self.arity[self.pos] = n
        else:
            self.arity.append(n)
        self.pos += 1
        return c

    def feasible(self, extra):
        if not self.prune:
            return True
        # cheap pruning only: the quantifier-free part of the path condition
        s = z3.Solver()
        s.set("timeout", self.FEAS_TIMEOUT_MS)
        for p in self.st.pc:
            if not _has_quant(p):
                s.add(p)
        s.add(extra)
        return s.check() != z3.unsat

    def branch(self, cond, tag="if"):
        """Fork on a symbolic boolean; returns the Python truth value for this path."""
        c = z3.simplify(cond)
        if z3.is_true(c):
            return True
        if z3.is_false(c):
            return False
        if self.spec_depth or self.quant_depth:
            raise Unsupported("branch inside specification")
        k = self.choose(2, tag)
        lit = cond if k == 0 else z3.Not(cond)
        if not self.feasible(lit):
            raise PathEnd()
        self.st.pc.append(lit)
        return k == 0

    def assume(self, f):
        self.st.pc.append(f)

    def assume_global(self, f):
        """A fact about the well-typedness of the heap: universally closed over the bound variables in scope and
        kept outside the path condition proper, so that it never ends up as the guard of an implication."""
        fid = (f.get_id(), tuple(b.get_id() for b in self.bound_stack))
        if fid in self.st.glob_seen:
            return
        self.st.glob_seen.add(fid)
        if z3.is_true(z3.simplify(f)):
            return
        if self.bound_stack:
            ids = _const_ids(f)
            bv = [b for b in self.bound_stack if b.get_id() in ids]
            if bv:
                f = z3.ForAll(bv, f)
        key = _alpha_key(f)
        if key not in self.st.glob_keys:
            self.st.glob_keys.add(key)
            self.st.glob.append(f)

    # ----------------------------------------------------------------- obligations
    def oblige(self, label, kind, goal, props=(), text="", needs=None, own=None, nosplit=False):
        if self.spec_depth and kind == "safety":
            return
        g = z3.simplify(goal)
        name = "%s::%s" % (self.cur_func, label)
        if not z3.is_true(g):
            where = header_text(self.cur_stmt) if self.cur_stmt is not None else ""
            parts = [goal] if nosplit else split_goal(goal)
            if len(parts) > 12:
                parts = [goal]
            pc = self.st.pc
            if needs is not None:
                tags = getattr(self, "pc_tags", {})
                keep = set(needs) | ({own} if own else set())
                pc = [f for f in pc if tags.get(f.get_id()) is None or tags[f.get_id()] in keep]
            pc_now = list(self.st.glob) + list(pc)
            for k_, part in enumerate(parts):
                if z3.is_true(z3.simplify(part)):
                    continue
                nm = name if len(parts) == 1 else "%s #%d/%d" % (name, k_ + 1, len(parts))
                self.obligations.append(Obligation(nm, kind, pc_now, part, props or self.cur_props, self.cur_func, where, text, len(self.st.glob)))
        else:
            self.trivial += 1
        self.st.pc.append(goal)

    # ----------------------------------------------------------------- heap
    def hsort(self, key):
        if key in self._hsorts:
            return self._hsorts[key]
        raise KeyError(key)

    def hget(self, key, srt=None):
        h = self.st.heap
        if key not in h:
            if key not in self._init_heap:
                assert srt is not None, key
                self._init_heap[key] = z3.Const("H0_" + key, srt)
            h[key] = self._init_heap[key]
        return h[key]

    def hset(self, key, term):
        self.st.heap[key] = term

    @staticmethod
    def tag(srt):
        return T._sort_tag(srt)

    def alloc_map(self):
        return self.hget("$alloc", z3.ArraySort(Ref, z3.BoolSort()))

    def field_key(self, clsname, attr):
        fd = self.field_decl(clsname, attr)
        if fd is None:
            return None
        c, t_, kind = fd
        return "%s.%s" % (c, attr), t_, kind

    def read_field(self, obj, attr):
        fk = self.field_key(obj.ty.args[0], attr)
        key, t_, kind = fk
        arr = self.hget(key, z3.ArraySort(Ref, sort_of(t_)))
        v = V(t_, z3.Select(arr, obj.t))
        self.assume_type(v)
        return v

    def write_field(self, obj, attr, val):
        fk = self.field_key(obj.ty.args[0], attr)
        if fk is None:
            raise Unsupported("assignment to undeclared field %s.%s" % (obj.ty, attr))
        key, t_, kind = fk
        val = self.coerce(val, t_)
        arr = self.hget(key, z3.ArraySort(Ref, sort_of(t_)))
        self.hset(key, z3.Store(arr, obj.t, val.t))

    def assume_type(self, v, depth=0, with_alloc=True):
        """Well-typedness facts about a value just read from the heap / received from outside."""
        t_ = v.ty
        k = t_.kind
        if k in ("int", "bool", "str", "float", "bytes", "none", "val", "tuple", "arr", "any"):
            return
        if (self.spec_depth or self.quant_depth) and not getattr(self, "_collecting", False):
            tk = (v.t.get_id(), t_, tuple(b.get_id() for b in self.bound_stack))
            if tk in self.st.typed_seen:
                return
            self.st.typed_seen.add(tk)
            # inside a specification: type facts are global well-typedness facts, not guards
            with_alloc = False
            self._collecting = True
            mark = len(self.st.pc)
            try:
                self.assume_type(v, depth, False)
                facts = self.st.pc[mark:]
                del self.st.pc[mark:]
            finally:
                self._collecting = False
            for f in facts:
                self.assume_global(f)
            return
        al = z3.Select(self.alloc_map(), v.t) if (with_alloc and t_.is_reflike) else z3.BoolVal(True)
        if k == "ref":
            self.assume(AND(v.t != NONE, al, self.isinstance_term(v.t, t_.args[0])))
        elif k == "opt" and t_.args[0].is_reflike:
            inner = t_.args[0]
            if inner.kind == "ref":
                self.assume(OR(v.t == NONE, AND(al, self.isinstance_term(v.t, inner.args[0]))))
            else:
                self.assume(OR(v.t == NONE, al))
        elif k in ("list", "deque", "set", "dict"):
            # containers are objects of no declared class (class ids start at 1): they never alias an instance
            self.assume(AND(v.t != NONE, al, self.typeof(v.t) == 0))
        elif k == "seq":
            self.assume(AND(v.t != NONE, self.typeof(v.t) == 0))
        elif k == "enum":
            vals = self.enum_values(t_.args[0])
            if vals:
                self.assume(OR([v.t == x for x in sorted(set(vals.values()))]))

    # ---- containers (heap objects; the region of the static type selects the heap maps)
    def IA(self):
        return z3.ArraySort(Ref, z3.IntSort())

    def k_len(self, t_):
        return ("$slen" if t_.kind == "seq" else "$len") + t_.region

    def el_key(self, t_):
        s = sort_of(t_.elem)
        pre = "$sel:" if t_.kind == "seq" else "$el:"
        return pre + self.tag(s) + t_.region, z3.ArraySort(Ref, z3.ArraySort(z3.IntSort(), s))

    def hsel(self, key, ref):
        return z3.Select(self.hget(key, self.IA()), ref)

    def hstore(self, key, ref, val):
        self.hset(key, z3.Store(self.hget(key, self.IA()), ref, val))

    def seq_len(self, v):
        k = v.ty.kind
        rg = v.ty.region
        if k in ("list", "seq"):
            n = self.hsel(self.k_len(v.ty), v.t)
        elif k == "deque":
            n = self.hsel("$dhi" + rg, v.t) - self.hsel("$dlo" + rg, v.t)
        elif k in ("set", "dict"):
            n = self.hsel("$card" + rg, v.t)
        elif k == "str":
            return z3.Length(v.t)
        elif k == "bytes" and "blen" in self.reg.logic.funcs:
            f, _, _ = self.spec_func("blen")
            return f(v.t)
        else:
            raise Unsupported("len of %r" % (v.ty,))
        self.assume_global(n >= 0)
        return n

    def seq_arr(self, v):
        key, srt = self.el_key(v.ty)
        return z3.Select(self.hget(key, srt), v.t)

    def seq_base(self, v):
        if v.ty.kind == "deque":
            return self.hsel("$dlo" + v.ty.region, v.t)
        return z3.IntVal(0)

    def seq_at(self, v, i):
        return V(v.ty.elem, z3.Select(self.seq_arr(v), self.seq_base(v) + i))

    def new_ref(self, t_, base="new"):
        r = self.fresh(base, Ref)
        am = self.alloc_map()
        self.assume(AND(r != NONE, z3.Not(z3.Select(am, r))))
        if getattr(t_, "kind", None) in ("list", "deque", "set", "dict", "seq"):
            self.assume(self.typeof(r) == 0)
        self.hset("$alloc", z3.Store(am, r, z3.BoolVal(True)))
        return r

    def new_list(self, t_, items=()):
        t_ = ty(t_)
        r = self.new_ref(t_, "lst")
        v = V(t_, r)
        key, srt = self.el_key(t_)
        arr = z3.Select(self.hget(key, srt), r)
        for i, it in enumerate(items):
            arr = z3.Store(arr, z3.IntVal(i), self.coerce(it, t_.elem).t)
        self.hset(key, z3.Store(self.hget(key, srt), r, arr))
        if t_.kind == "deque":
            self.hstore("$dlo" + t_.region, r, z3.IntVal(0))
            self.hstore("$dhi" + t_.region, r, z3.IntVal(len(items)))
        else:
            self.hstore(self.k_len(t_), r, z3.IntVal(len(items)))
        return v

    def list_append(self, lst, item):
        item = self.coerce(item, lst.ty.elem)
        key, srt = self.el_key(lst.ty)
        rg = lst.ty.region
        if lst.ty.kind == "deque":
            hi = self.hsel("$dhi" + rg, lst.t)
            arr = z3.Store(self.seq_arr(lst), hi, item.t)
            self.hset(key, z3.Store(self.hget(key, srt), lst.t, arr))
            self.hstore("$dhi" + rg, lst.t, hi + 1)
            return
        n = self.seq_len(lst)
        arr = z3.Store(self.seq_arr(lst), n, item.t)
        self.hset(key, z3.Store(self.hget(key, srt), lst.t, arr))
        self.hstore(self.k_len(lst.ty), lst.t, n + 1)

    def list_pop(self, lst, left=False):
        n = self.seq_len(lst)
        rg = lst.ty.region
        self.oblige("IndexError: pop from an empty %s" % lst.ty.kind, "safety", n > 0)
        if lst.ty.kind == "deque":
            lo, hi = self.hsel("$dlo" + rg, lst.t), self.hsel("$dhi" + rg, lst.t)
            if left:
                res = V(lst.ty.elem, z3.Select(self.seq_arr(lst), lo))
                self.hstore("$dlo" + rg, lst.t, lo + 1)
            else:
                res = V(lst.ty.elem, z3.Select(self.seq_arr(lst), hi - 1))
                self.hstore("$dhi" + rg, lst.t, hi - 1)
        else:
            if left:
                raise Unsupported("list.pop(0)")
            res = V(lst.ty.elem, z3.Select(self.seq_arr(lst), n - 1))
            self.hstore(self.k_len(lst.ty), lst.t, n - 1)
        self.assume_type(res)
        return res

    def list_clear(self, lst):
        rg = lst.ty.region
        if lst.ty.kind == "deque":
            self.hstore("$dhi" + rg, lst.t, self.hsel("$dlo" + rg, lst.t))
        else:
            self.hstore(self.k_len(lst.ty), lst.t, z3.IntVal(0))

    def set_key(self, t_):
        s = sort_of(t_.elem)
        return "$set:" + self.tag(s) + t_.region, z3.ArraySort(Ref, z3.ArraySort(s, z3.BoolSort()))

    def set_mem(self, sv):
        key, srt = self.set_key(sv.ty)
        return z3.Select(self.hget(key, srt), sv.t)

    def card(self, cv):
        return self.hsel("$card" + cv.ty.region, cv.t)

    def set_card(self, cv, n):
        self.hstore("$card" + cv.ty.region, cv.t, n)

    def new_set(self, t_):
        t_ = ty(t_)
        r = self.new_ref(t_, "set")
        key, srt = self.set_key(t_)
        self.hset(key, z3.Store(self.hget(key, srt), r, z3.K(sort_of(t_.elem), z3.BoolVal(False))))
        v = V(t_, r)
        self.set_card(v, z3.IntVal(0))
        return v

    def set_add(self, sv, item):
        item = self.coerce(item, sv.ty.elem)
        key, srt = self.set_key(sv.ty)
        mem = self.set_mem(sv)
        was = z3.Select(mem, item.t)
        self.hset(key, z3.Store(self.hget(key, srt), sv.t, z3.Store(mem, item.t, z3.BoolVal(True))))
        c = self.card(sv)
        self.set_card(sv, z3.If(was, c, c + 1))

    def set_remove(self, sv, item, strict=True):
        item = self.coerce(item, sv.ty.elem)
        key, srt = self.set_key(sv.ty)
        mem = self.set_mem(sv)
        was = z3.Select(mem, item.t)
        if strict:
            self.oblige("KeyError: set.remove of a missing element", "safety", was)
        self.hset(key, z3.Store(self.hget(key, srt), sv.t, z3.Store(mem, item.t, z3.BoolVal(False))))
        c = self.card(sv)
        self.set_card(sv, z3.If(was, c - 1, c))

    def dict_keys(self, t_):
        ks, vs = sort_of(t_.args[0]), sort_of(t_.args[1])
        rg = t_.region
        return ("$dom:" + self.tag(ks) + rg, z3.ArraySort(Ref, z3.ArraySort(ks, z3.BoolSort())),
                "$map:%s:%s%s" % (self.tag(ks), self.tag(vs), rg), z3.ArraySort(Ref, z3.ArraySort(ks, vs)))

    def dict_dom(self, dv):
        dk, ds, mk, ms = self.dict_keys(dv.ty)
        return z3.Select(self.hget(dk, ds), dv.t)

    def dict_map(self, dv):
        dk, ds, mk, ms = self.dict_keys(dv.ty)
        return z3.Select(self.hget(mk, ms), dv.t)

    def new_dict(self, t_):
        t_ = ty(t_)
        r = self.new_ref(t_, "dict")
        dk, ds, mk, ms = self.dict_keys(t_)
        self.hset(dk, z3.Store(self.hget(dk, ds), r, z3.K(sort_of(t_.args[0]), z3.BoolVal(False))))
        self.hget(mk, ms)
        v = V(t_, r)
        self.set_card(v, z3.IntVal(0))
        return v

    def dict_has(self, dv, key):
        key = self.coerce(key, dv.ty.args[0])
        has = z3.Select(self.dict_dom(dv), key.t)
        # finite-set axiom instance: a member implies positive cardinality
        self.assume_global(z3.Implies(has, self.card(dv) > 0))
        return has

    def dict_get(self, dv, key, check=True):
        key = self.coerce(key, dv.ty.args[0])
        if check:
            self.oblige("KeyError: missing dict key", "safety", self.dict_has(dv, key))
        res = V(dv.ty.args[1], z3.Select(self.dict_map(dv), key.t))
        self.assume_type(res)
        return res

    def dict_set(self, dv, key, val):
        key = self.coerce(key, dv.ty.args[0])
        val = self.coerce(val, dv.ty.args[1])
        dk, ds, mk, ms = self.dict_keys(dv.ty)
        dom = self.dict_dom(dv)
        was = z3.Select(dom, key.t)
        self.hset(dk, z3.Store(self.hget(dk, ds), dv.t, z3.Store(dom, key.t, z3.BoolVal(True))))
        self.hset(mk, z3.Store(self.hget(mk, ms), dv.t, z3.Store(self.dict_map(dv), key.t, val.t)))
        c = self.card(dv)
        self.set_card(dv, z3.If(was, c, c + 1))

    def dict_del(self, dv, key, strict=True):
        key = self.coerce(key, dv.ty.args[0])
        dk, ds, mk, ms = self.dict_keys(dv.ty)
        dom = self.dict_dom(dv)
        was = z3.Select(dom, key.t)
        if strict:
            self.oblige("KeyError: del of a missing dict key", "safety", was)
        self.hset(dk, z3.Store(self.hget(dk, ds), dv.t, z3.Store(dom, key.t, z3.BoolVal(False))))
        c = self.card(dv)
        self.set_card(dv, z3.If(was, c - 1, c))

    # ----------------------------------------------------------------- coercion / truthiness
    def coerce(self, v, t_):
        t_ = ty(t_)
        if isinstance(v, Py):
            raise Unsupported("python-level value %r where %r expected" % (v, t_))
        if v.ty == t_ or t_.kind == "any":
            return v
        if t_.kind == "opt":
            inner = t_.args[0]
            if v.ty.kind == "none":
                return V(t_, T.opt_none(t_))
            if v.ty.kind == "opt":
                if sort_of(v.ty) == sort_of(t_):
                    return V(t_, v.t)
            else:
                iv = self.coerce(v, inner)
                return V(t_, T.opt_some(t_, iv.t))
        if v.ty.kind == "opt" and t_.kind != "opt":
            # narrowing Optional[T] -> T : the value must not be None here
            inner = v.ty.args[0]
            self.oblige("None where %r is required" % (t_,), "safety", z3.Not(T.opt_is_none(v.ty, v.t)))
            return self.coerce(V(inner, T.opt_val(v.ty, v.t)), t_)
        if v.ty.kind == "tuple" and t_.kind == "tuple" and len(v.ty.args) == len(t_.args):
            parts = [self.coerce(V(a, T.tuple_get(v.ty, v.t, i)), b) for i, (a, b) in enumerate(zip(v.ty.args, t_.args))]
            return V(t_, T.tuple_mk(t_, [p_.t for p_ in parts]))
        if v.ty.kind == "ref" and t_.kind == "ref":
            return V(t_, v.t)      # static up/down-cast; dynamic class is tracked by typeof
        if v.ty.kind in ("list", "seq") and t_.kind in ("list", "seq") and v.ty.kind == t_.kind and sort_of(v.ty.elem) == sort_of(t_.elem) \
                and v.ty.region == t_.region:
            return V(t_, v.t)
        if v.ty.kind == "any" and t_.is_reflike:
            return V(t_, v.t)
        if v.ty.kind == "bool" and t_.kind == "int":
            return V(t_, z3.If(v.t, z3.IntVal(1), z3.IntVal(0)))
        if v.ty.kind == "enum" and t_.kind in ("enum", "int"):
            return V(t_, v.t)
        if sort_of(v.ty) == sort_of(t_) and v.ty.kind == t_.kind and v.ty.region == t_.region:
            return V(t_, v.t)
        raise Unsupported("cannot coerce %r to %r" % (v.ty, t_))

    def truth(self, v):
        if isinstance(v, Py):
            return z3.BoolVal(True)
        k = v.ty.kind
        if k == "bool":
            return v.t
        if k == "int":
            return v.t != 0
        if k == "str":
            return z3.Length(v.t) > 0
        if k == "none":
            return z3.BoolVal(False)
        if k == "opt":
            return z3.Not(T.opt_is_none(v.ty, v.t))
        if k in ("list", "seq", "deque", "set", "dict"):
            return self.seq_len(v) > 0
        if k == "ref":
            return z3.BoolVal(True)
        raise Unsupported("truth value of %r" % (v.ty,))

    def equal(self, a, b):
        if isinstance(a, Py) or isinstance(b, Py):
            if isinstance(a, Py) and isinstance(b, Py):
                return z3.BoolVal(a.kind == b.kind and a.p == b.p)
            raise Unsupported("comparison with a python-level value")
        if a.ty.kind == "none" and b.ty.kind == "none":
            return z3.BoolVal(True)
        if b.ty.kind == "none":
            a, b = b, a
        if a.ty.kind == "none":
            if b.ty.kind == "opt":
                return T.opt_is_none(b.ty, b.t)
            if b.ty.is_reflike:
                return b.t == NONE
            return z3.BoolVal(False)
        if a.ty.kind == "opt" and b.ty.kind != "opt":
            b = self.coerce(b, a.ty)
        elif b.ty.kind == "opt" and a.ty.kind != "opt":
            a = self.coerce(a, b.ty)
        if a.ty.kind == "bool" and b.ty.kind == "int":
            a = self.coerce(a, T.INT)
        if b.ty.kind == "bool" and a.ty.kind == "int":
            b = self.coerce(b, T.INT)
        if a.t.sort() != b.t.sort():
            return z3.BoolVal(False)
        return a.t == b.t

    # ----------------------------------------------------------------- enums / globals
    def enum_values(self, name):
        key = ("enum", name)
        if key not in self._consts_cache:
            vals = {}
            cd = self.reg.classes.get(name)
            if cd is not None and cd.file:
                try:
                    node = self.repo.find(cd.file, cd.qual)
                    for n in node.body:
                        if isinstance(n, ast.Assign) and isinstance(n.targets[0], ast.Name) and isinstance(n.value, ast.Constant) and isinstance(n.value.value, int):
                            vals[n.targets[0].id] = n.value.value
                except SourceError:
                    pass
            self._consts_cache[key] = vals
        return self._consts_cache[key]

    def resolve_global(self, rel, name, _depth=0):
        """Value of a module-level name of repo module `rel`."""
        if _depth > 6:
            raise Unsupported("import chain too deep for " + name)
        g = self.repo.globals(rel)
        if name not in g:
            if hasattr(_bi, name):
                return Py("builtin", name)
            raise Unsupported("unknown global %s in %s" % (name, rel))
        kind, p = g[name]
        if kind == "module":
            return Py("module", p)
        if kind == "class":
            return Py("class", (rel, name))
        if kind == "func":
            return Py("func", (rel, name))
        if kind == "from":
            module, level, orig = p
            if level:
                base = rel.split("/")[:-1]
                base = base[: len(base) - (level - 1)] if level > 1 else base
                dotted = ".".join(["conductor"] + base + ([module] if module else []))
            else:
                dotted = module
            mrel = self.repo.module_rel_of(dotted)
            if mrel is None:
                # external module
                return Py("ext", "%s.%s" % (dotted, orig))
            # `from conductor.x import y` where y is a submodule
            sub = self.repo.module_rel_of(dotted + "." + orig)
            g2 = self.repo.globals(mrel)
            if orig in g2:
                return self.resolve_global(mrel, orig, _depth + 1)
            if sub is not None:
                return Py("module", dotted + "." + orig)
            # `from .generated import *`
            for n in self.repo.module(mrel).body:
                if isinstance(n, ast.ImportFrom) and any(a.name == "*" for a in n.names):
                    base = mrel.split("/")[:-1]
                    d2 = ".".join(["conductor"] + base + [n.module]) if n.level else n.module
                    r2 = self.repo.module_rel_of(d2)
                    if r2 and orig in self.repo.globals(r2):
                        return self.resolve_global(r2, orig, _depth + 1)
            raise Unsupported("cannot resolve %s from %s" % (orig, dotted))
        if kind == "expr":
            return self.const_expr(rel, p, name)
        raise Unsupported("global %s" % name)

    def const_expr(self, rel, node, name=""):
        """Statically evaluate a module-level initialiser (constants, format(), re.compile)."""
        if isinstance(node, ast.Constant):
            v = node.value
            if isinstance(v, bool):
                return mk_bool(v)
            if isinstance(v, int):
                return mk_int(v)
            if isinstance(v, str):
                return mk_str(v)
            if v is None:
                return NONE_V
        try:
            val = self.static_eval(rel, node)
        except Exception as ex:  # noqa
            raise Unsupported("module-level initialiser of %s not statically evaluable: %s" % (name, ex))
        if isinstance(val, str):
            return mk_str(val)
        if isinstance(val, bool):
            return mk_bool(val)
        if isinstance(val, int):
            return mk_int(val)
        if isinstance(val, _re.Pattern):
            return Py("regex", val.pattern)
        raise Unsupported("module-level value %r" % (val,))

    def static_eval(self, rel, node):
        """Evaluate a constant expression built from literals, known globals, str.format, re.compile."""
        if isinstance(node, ast.Constant):
            return node.value
        if isinstance(node, ast.Name):
            g = self.repo.globals(rel)
            if node.id in g and g[node.id][0] == "expr":
                return self.static_eval(rel, g[node.id][1])
            if node.id in g and g[node.id][0] == "from":
                v = self.resolve_global(rel, node.id)
                if isinstance(v, V) and z3.is_string_value(v.t):
                    return v.t.as_string()
                if isinstance(v, V) and z3.is_int_value(v.t):
                    return v.t.as_long()
            raise ValueError("name " + node.id)
        if isinstance(node, ast.Call):
            fn = ast.unparse(node.func)
            args = [self.static_eval(rel, a) for a in node.args]
            kwargs = {k.arg: self.static_eval(rel, k.value) for k in node.keywords}
            if fn == "re.compile":
                return _re.compile(*args, **kwargs)
            if isinstance(node.func, ast.Attribute) and node.func.attr == "format":
                return self.static_eval(rel, node.func.value).format(*args, **kwargs)
            raise ValueError("call " + fn)
        if isinstance(node, ast.UnaryOp) and isinstance(node.op, ast.USub):
            return -self.static_eval(rel, node.operand)
        if isinstance(node, ast.BinOp) and isinstance(node.op, ast.Add):
            return self.static_eval(rel, node.left) + self.static_eval(rel, node.right)
        raise ValueError(ast.dump(node))

    # ----------------------------------------------------------------- spec functions
    def spec_func(self, name):
        if name not in self._funcs:
            args, ret = self.reg.logic.funcs[name]
            if name in self.reg.logic.defs and getattr(self, "opaque_defs", True):
                # outside lemma proofs a recursive definition is opaque: only its proved lemmas are used
                self._funcs[name] = (z3.Function(name, *[sort_of(a) for a in args], sort_of(ret)), [ty(a) for a in args], ty(ret))
            elif name in self.reg.logic.defs and name in _REC_CACHE:
                self._funcs[name] = _REC_CACHE[name]
            elif name in self.reg.logic.defs:
                params, dret, body = self.reg.logic.defs[name]
                f = z3.RecFunction(name, *[sort_of(a) for a in args], sort_of(ret))
                self._funcs[name] = (f, [ty(a) for a in args], ty(ret))
                _REC_CACHE[name] = self._funcs[name]
                from . import solve
                solve.REC_NAMES.add(name)
                consts = [z3.Const("p_" + pn, sort_of(pt)) for pn, pt in params]
                env = {pn: V(pt, c) for (pn, pt), c in zip(params, consts)}
                bt = self.coerce(self.spec_value(body, env), ret).t
                z3.RecAddDefinition(f, consts, bt)
            else:
                self._funcs[name] = (z3.Function(name, *[sort_of(a) for a in args], sort_of(ret)), [ty(a) for a in args], ty(ret))
        return self._funcs[name]
