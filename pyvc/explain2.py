"""python3-vt -m pyvc.explain2 <contract substring> <obligation substring> [...more substrings]
For every matching obligation that z3 does not discharge in 8 s: skolemise the goal, split it and report the open leaves."""
import sys
sys.path.insert(0, "/verif")
import z3
from pyvc.source import Repo
from pyvc.contract import Registry
from pyvc.stmts import Exec
from pyvc.explain import leaves


def check(pc, extra, goal, ms):
    s = z3.Solver(); s.set("timeout", ms)
    for p in pc:
        s.add(p)
    for a in extra:
        s.add(a)
    s.add(z3.Not(goal))
    return s.check()


def main():
    pat, opats = sys.argv[1], sys.argv[2:]
    reg = Registry().load_package("contracts"); repo = Repo()
    for tgt, con in reg.contracts.items():
        if con.extern or pat not in tgt:
            continue
        eng = Exec(repo, reg)
        res = eng.verify(con)
        for o in res["obligations"]:
            if not any(op in o.name for op in opats):
                continue
            if check(o.pc, [], o.goal, 8000) == z3.unsat:
                continue
            print("OPEN", o.name, "@", o.where, "(pc %d)" % len(o.pc))
            for leaf, asm in leaves(o.goal, []):
                r = check(o.pc, asm, leaf, 6000)
                if r != z3.unsat:
                    print("   %-8s %s" % (str(r).upper(), " ".join(leaf.sexpr().split())[:1500]))
            sys.stdout.flush()


if __name__ == "__main__":
    main()
