"""Access to the real source under /repo/src/conductor (re-read on every run)."""
import ast
import hashlib
import os

REPO_SRC = os.environ.get("PYVC_REPO_SRC", "/repo/src/conductor")


class SourceError(Exception):
    """The real source no longer has the shape a contract attaches to (=> undecided, never a violation)."""


class Repo:
    def __init__(self, root=None):
        self.root = root or REPO_SRC
        self._mods = {}

    def path(self, rel):
        return os.path.join(self.root, rel)

    def text(self, rel):
        with open(self.path(rel), encoding="utf-8") as f:
            return f.read()

    def module(self, rel):
        if rel not in self._mods:
            try:
                txt = self.text(rel)
            except OSError as ex:
                raise SourceError("cannot read %s: %s" % (rel, ex))
            try:
                self._mods[rel] = ast.parse(txt, filename=rel)
            except SyntaxError as ex:
                raise SourceError("cannot parse %s: %s" % (rel, ex))
        return self._mods[rel]

    def find(self, rel, qualname):
        """Find a FunctionDef/ClassDef by dotted qualified name (classes and nested functions)."""
        node = self.module(rel)
        for part in qualname.split("."):
            found = None
            body = node.body
            # search also inside compound statements of a function body (nested defs)
            for n in _walk_defs(body):
                if isinstance(n, (ast.FunctionDef, ast.ClassDef, ast.AsyncFunctionDef)) and n.name == part:
                    found = n
                    break
            if found is None:
                raise SourceError("%s: %s not found" % (rel, qualname))
            node = found
        return node

    def function(self, rel, qualname):
        n = self.find(rel, qualname)
        if not isinstance(n, ast.FunctionDef):
            raise SourceError("%s: %s is not a function" % (rel, qualname))
        return n

    def class_bases(self, rel, cls):
        n = self.find(rel, cls)
        out = []
        for b in n.bases:
            out.append(ast.unparse(b))
        return out

    def class_members(self, rel, cls):
        """name -> FunctionDef (with a flag whether it is a property / staticmethod / classmethod)."""
        n = self.find(rel, cls)
        out = {}
        for m in n.body:
            if isinstance(m, ast.FunctionDef):
                decos = [ast.unparse(d) for d in m.decorator_list]
                out[m.name] = (m, decos)
        return out

    def globals(self, rel):
        """Top-level bindings of a module: name -> (kind, payload)."""
        out = {}
        for n in self.module(rel).body:
            if isinstance(n, ast.Assign) and len(n.targets) == 1 and isinstance(n.targets[0], ast.Name):
                out[n.targets[0].id] = ("expr", n.value)
            elif isinstance(n, ast.AnnAssign) and isinstance(n.target, ast.Name) and n.value is not None:
                out[n.target.id] = ("expr", n.value)
            elif isinstance(n, ast.ImportFrom):
                for a in n.names:
                    out[a.asname or a.name] = ("from", (n.module, n.level, a.name))
            elif isinstance(n, ast.Import):
                for a in n.names:
                    out[a.asname or a.name.split(".")[0]] = ("module", a.name if a.asname else a.name.split(".")[0])
            elif isinstance(n, ast.ClassDef):
                out[n.name] = ("class", n)
            elif isinstance(n, ast.FunctionDef):
                out[n.name] = ("func", n)
            elif isinstance(n, ast.If):
                # `if TYPE_CHECKING:` imports
                for m in n.body:
                    if isinstance(m, ast.Import):
                        for a in m.names:
                            out[a.asname or a.name.split(".")[0]] = ("module", a.name)
        return out

    def module_rel_of(self, dotted):
        """conductor.x.y -> x/y.py (or x/y/__init__.py) if it is a repo module."""
        if not dotted or not dotted.startswith("conductor"):
            return None
        parts = dotted.split(".")[1:]
        cand = os.path.join(*parts) + ".py" if parts else "__init__.py"
        if os.path.exists(self.path(cand)):
            return cand
        cand = os.path.join(*(parts + ["__init__.py"]))
        if os.path.exists(self.path(cand)):
            return cand
        return None


def _walk_defs(body):
    for n in body:
        yield n
        if isinstance(n, (ast.If, ast.For, ast.While, ast.With, ast.Try)):
            for fld in ("body", "orelse", "finalbody"):
                yield from _walk_defs(getattr(n, fld, []) or [])
            for h in getattr(n, "handlers", []) or []:
                yield from _walk_defs(h.body)


def header_text(stmt):
    """Normalised source text of a statement (for compound statements: its header only)."""
    if isinstance(stmt, (ast.If, ast.While)):
        kw = "if" if isinstance(stmt, ast.If) else "while"
        return "%s %s:" % (kw, ast.unparse(stmt.test))
    if isinstance(stmt, ast.For):
        return "for %s in %s:" % (ast.unparse(stmt.target), ast.unparse(stmt.iter))
    if isinstance(stmt, ast.With):
        return "with %s:" % ", ".join(ast.unparse(i) for i in stmt.items)
    if isinstance(stmt, ast.Try):
        return "try:"
    if isinstance(stmt, ast.FunctionDef):
        return "def %s(...):" % stmt.name
    return " ".join(ast.unparse(stmt).split())


def fingerprint(node):
    return hashlib.sha1(ast.dump(node, include_attributes=False).encode()).hexdigest()[:12]


def strip_docstring(body):
    if body and isinstance(body[0], ast.Expr) and isinstance(body[0].value, ast.Constant) and isinstance(body[0].value.value, str):
        return body[1:]
    return body
