"""python3-vt -m pyvc.explain <contract substring> <obligation substring> [k]
Skolemise the goal, strip implications, split conjunctions and report the status of every leaf."""
import sys
sys.path.insert(0, "/verif")
import z3
from pyvc.source import Repo
from pyvc.contract import Registry
from pyvc.stmts import Exec


def leaves(goal, assumptions, depth=0):
    g = goal
    if z3.is_quantifier(g) and g.is_forall():
        vs = [z3.Const("sk%d_%s" % (depth, g.var_name(i)), g.var_sort(i)) for i in range(g.num_vars())]
        body = z3.substitute_vars(g.body(), *reversed(vs))
        yield from leaves(body, assumptions, depth + 1)
    elif z3.is_implies(g):
        yield from leaves(g.arg(1), assumptions + [g.arg(0)], depth + 1)
    elif z3.is_and(g):
        for i in range(g.num_args()):
            yield from leaves(g.arg(i), assumptions, depth + 1)
    else:
        yield g, assumptions


def main():
    pat, opat = sys.argv[1], sys.argv[2]
    which = int(sys.argv[3]) if len(sys.argv) > 3 else 0
    reg = Registry().load_package("contracts"); repo = Repo()
    for tgt, con in reg.contracts.items():
        if con.extern or pat not in tgt:
            continue
        eng = Exec(repo, reg)
        res = eng.verify(con)
        obls = [o for o in res["obligations"] if opat in o.name]
        print(len(obls), "matching obligations")
        o = obls[which]
        print(o.name, "@", o.where)
        for leaf, asm in leaves(o.goal, []):
            s = z3.Solver(); s.set("timeout", 6000)
            for p in o.pc:
                s.add(p)
            for a in asm:
                s.add(a)
            s.add(z3.Not(leaf))
            r = s.check()
            print("%-8s %s" % ("OK" if r == z3.unsat else str(r).upper(), " ".join(leaf.sexpr().split())[:2600]))


if __name__ == "__main__":
    main()
