"""pyvc -- a small deductive verifier for the Python subset used by geoffxy/conductor.

Real source (re-read from /repo/src on every run)  +  sidecar contracts  ->
verification conditions  ->  z3 / cvc5.
"""
