"""Python `re` patterns -> SMT regular expressions (the subset used by conductor), plus the
documented grammars written independently as SMT regexes (the oracles of C20 / C13)."""
import re

import z3

from .types import AND, OR

try:
    from re import _parser as sre_parse, _constants as sre_constants   # Python >= 3.11
except ImportError:  # pragma: no cover
    import sre_parse
    import sre_constants


class RegexUnsupported(Exception):
    pass


def _range(a, b):
    return z3.Range(chr(a), chr(b))


def _char(c):
    return z3.Re(z3.StringVal(chr(c)))


def _in(items):
    alts = []
    neg = False
    for op, av in items:
        op = str(op)
        if op == "NEGATE":
            neg = True
        elif op == "LITERAL":
            alts.append(_char(av))
        elif op == "RANGE":
            alts.append(_range(av[0], av[1]))
        elif op == "CATEGORY":
            cat = str(av)
            if cat == "CATEGORY_DIGIT":
                alts.append(_range(ord("0"), ord("9")))
            elif cat == "CATEGORY_WORD":
                alts += [_range(ord("a"), ord("z")), _range(ord("A"), ord("Z")), _range(ord("0"), ord("9")), _char(ord("_"))]
            else:
                raise RegexUnsupported(cat)
        else:
            raise RegexUnsupported(op)
    r = z3.Union(*alts) if len(alts) > 1 else alts[0]
    if neg:
        r = z3.Intersect(z3.AllChar(z3.ReSort(z3.StringSort())), z3.Complement(r))
    return r


def _seq(items):
    rs = [_item(i) for i in items]
    if not rs:
        return z3.Re(z3.StringVal(""))
    return z3.Concat(*rs) if len(rs) > 1 else rs[0]


def _item(it):
    op, av = it
    op = str(op)
    if op == "LITERAL":
        return _char(av)
    if op == "IN":
        return _in(av)
    if op == "ANY":
        return z3.Intersect(z3.AllChar(z3.ReSort(z3.StringSort())), z3.Complement(z3.Re(z3.StringVal("\n"))))
    if op in ("MAX_REPEAT", "MIN_REPEAT"):
        lo, hi, sub = av
        r = _seq(list(sub))
        if lo == 0 and str(hi) == "MAXREPEAT":
            return z3.Star(r)
        if lo == 1 and str(hi) == "MAXREPEAT":
            return z3.Plus(r)
        if lo == 0 and hi == 1:
            return z3.Option(r)
        if str(hi) == "MAXREPEAT":
            return z3.Concat(*([r] * lo + [z3.Star(r)]))
        return z3.Loop(r, lo, hi)
    if op == "SUBPATTERN":
        return _seq(list(av[3]))
    if op == "BRANCH":
        alts = [_seq(list(b)) for b in av[1]]
        return z3.Union(*alts) if len(alts) > 1 else alts[0]
    raise RegexUnsupported(op)


class Rx:
    def __init__(self, pattern):
        self.pattern = pattern
        try:
            p = sre_parse.parse(pattern)
        except re.error as ex:
            raise RegexUnsupported(str(ex))
        items = list(p)
        self.start_anchor = False
        self.end = "none"
        if items and str(items[0][0]) == "AT" and str(items[0][1]) in ("AT_BEGINNING", "AT_BEGINNING_STRING"):
            self.start_anchor = True
            items = items[1:]
        if items and str(items[-1][0]) == "AT":
            w = str(items[-1][1])
            if w == "AT_END":
                self.end = "dollar"
            elif w == "AT_END_STRING":
                self.end = "Z"
            else:
                raise RegexUnsupported(w)
            items = items[:-1]
        for op, av in items:
            if str(op) == "AT":
                raise RegexUnsupported("inner anchor")
        self.items = items
        self.groupnames = {idx: name for name, idx in p.state.groupdict.items()}

    def core(self):
        return _seq(self.items)

    def matches(self, s):
        """Truth of `compiled.match(s) is not None`."""
        core = self.core()
        nl = z3.Re(z3.StringVal("\n"))
        if self.end == "Z":
            return z3.InRe(s, core)
        if self.end == "dollar":
            return OR(z3.InRe(s, core), z3.InRe(s, z3.Concat(core, nl)))
        return z3.InRe(s, z3.Concat(core, z3.Full(z3.ReSort(z3.StringSort()))))

    def fullmatch_lang(self):
        return self.core()

    def groups(self, s, eng):
        """[(group name, term)] -- terms are fresh strings tied to `s` by an (assumed) decomposition
        that exists whenever the match succeeds; any decomposition the real engine picks is one of them."""
        names = []
        parts = []
        for op, av in self.items:
            r = _item((op, av))
            x = eng.fresh("grp", z3.StringSort())
            parts.append((x, r))
            if str(op) == "SUBPATTERN" and av[0] in self.groupnames:
                names.append((self.groupnames[av[0]], x))
        if not names:
            return []
        tail = eng.fresh("tail", z3.StringSort())
        cat = z3.Concat(*[x for x, _ in parts], tail) if parts else tail
        if self.end == "Z":
            tail_ok = tail == z3.StringVal("")
        elif self.end == "dollar":
            tail_ok = OR(tail == z3.StringVal(""), tail == z3.StringVal("\n"))
        else:
            tail_ok = z3.BoolVal(True)
        eng.assume(z3.Implies(self.matches(s), AND(s == cat, tail_ok, *[z3.InRe(x, r) for x, r in parts])))
        return names


_cache = {}


def translate(pattern):
    if pattern not in _cache:
        _cache[pattern] = Rx(pattern)
    return _cache[pattern]


# ---------------------------------------------------------------- documented grammars (oracles)
def _name_char():
    return z3.Union(z3.Range("a", "z"), z3.Range("A", "Z"), z3.Range("0", "9"), z3.Re("_"), z3.Re("-"))


def grammar(which):
    """Grammars as stated in the documentation: letters, digits, '-' and '_' only; optional leading //;
    slash-separated path segments; ':name'."""
    name = z3.Plus(_name_char())
    if which == "name":
        return name
    if which == "rel":
        return z3.Concat(z3.Re(":"), name)
    if which == "ident":
        path = z3.Concat(z3.Star(z3.Concat(name, z3.Re("/"))), z3.Option(name))
        return z3.Concat(z3.Option(z3.Re("//")), path, z3.Re(":"), name)
    if which == "ident_prefixed":
        path = z3.Concat(z3.Star(z3.Concat(name, z3.Re("/"))), z3.Option(name))
        return z3.Concat(z3.Re("//"), path, z3.Re(":"), name)
    if which == "digits":
        return z3.Plus(z3.Range("0", "9"))
    if which == "posint":
        return z3.Concat(z3.Range("1", "9"), z3.Star(z3.Range("0", "9")))
    if which == "exp_dir":
        return z3.Concat(name, z3.Re(".task."), grammar("posint"))
    if which == "reg_dir":
        return z3.Concat(name, z3.Re(".task"))
    if which == "path":
        return z3.Concat(z3.Star(z3.Concat(name, z3.Re("/"))), z3.Option(name))
    raise KeyError(which)
