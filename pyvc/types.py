"""Type language of the sidecar contracts and its mapping to SMT sorts.

  int bool str float bytes none
  C                 reference to an instance of class C (declared in a sidecar CLASSES table)
  Opt[T]            T or None
  List[T]           mutable list (heap object)
  Deque[T]          collections.deque (heap object)
  Seq[T]            immutable sequence (tuple of unknown length; never modified)
  Set[T]  Dict[K,V] heap objects
  Tuple[T1,..,Tn]   fixed-arity tuple (SMT datatype)
  Enum[E]           enum.Enum subclass E (encoded by its integer `.value`)
  Val[S]            immutable value with structural equality, SMT sort S (e.g. Val[TId], Val[Path])
"""
import z3

Ref = z3.DeclareSort("Ref")
NONE = z3.Const("None!", Ref)

_cache = {}
# immutable value classes with structural equality: class name -> (sort name, [(field, type string), ...])
VALUE_CLASSES = {}


def AND(*xs):
    """z3.And that never produces a nullary / unary connective (cvc5 rejects `(and)`)."""
    flat = []
    for x in xs:
        if isinstance(x, (list, tuple)):
            flat.extend(x)
        else:
            flat.append(x)
    flat = [f for f in flat if not (isinstance(f, bool) and f is True)]
    if not flat:
        return z3.BoolVal(True)
    if len(flat) == 1:
        return flat[0] if not isinstance(flat[0], bool) else z3.BoolVal(flat[0])
    return z3.And(*flat)


def OR(*xs):
    flat = []
    for x in xs:
        if isinstance(x, (list, tuple)):
            flat.extend(x)
        else:
            flat.append(x)
    if not flat:
        return z3.BoolVal(False)
    if len(flat) == 1:
        return flat[0]
    return z3.Or(*flat)


class Ty:
    __slots__ = ("kind", "args")

    def __init__(self, kind, *args):
        self.kind = kind
        self.args = tuple(args)

    def __eq__(self, o):
        return isinstance(o, Ty) and self.kind == o.kind and self.args == o.args

    def __hash__(self):
        return hash((self.kind, self.args))

    def __repr__(self):
        if self.kind in ("int", "bool", "str", "float", "bytes", "none", "any"):
            return self.kind
        if self.kind == "ref":
            return self.args[0]
        if self.kind in ("enum", "val"):
            return "%s[%s]" % (self.kind.capitalize(), self.args[0])
        n = 2 if self.kind == "dict" else 1
        if self.kind in ("list", "deque", "set", "dict") and len(self.args) > n:
            return "%s[%s]#%s" % (self.kind.capitalize(), ",".join(map(repr, self.args[:n])), self.args[n])
        return "%s[%s]" % (self.kind.capitalize(), ",".join(map(repr, self.args)))

    @property
    def is_heap_container(self):
        return self.kind in ("list", "deque", "set", "dict")

    @property
    def is_reflike(self):
        """Encoded in sort Ref."""
        return self.kind in ("ref", "list", "deque", "set", "dict", "seq", "any", "none") or (
            self.kind == "opt" and self.args[0].is_reflike)

    @property
    def elem(self):
        return self.args[0]

    @property
    def region(self):
        """Containers in different regions never alias (ownership by static type)."""
        if self.kind in ("list", "deque", "set") and len(self.args) > 1:
            return "#" + self.args[1]
        if self.kind == "dict" and len(self.args) > 2:
            return "#" + self.args[2]
        return ""


INT, BOOL, STR, FLOAT, BYTES, NONE_T, ANY = (Ty(k) for k in ("int", "bool", "str", "float", "bytes", "none", "any"))


def parse(s):
    """Parse a type string."""
    if isinstance(s, Ty):
        return s
    s = s.strip()
    t, rest = _parse(s)
    if rest.strip():
        raise ValueError("bad type string %r" % s)
    return t


def _parse(s):
    s = s.lstrip()
    i = 0
    while i < len(s) and (s[i].isalnum() or s[i] in "_."):
        i += 1
    name, rest = s[:i], s[i:].lstrip()
    args = []
    if rest.startswith("["):
        rest = rest[1:]
        while True:
            a, rest = _parse(rest)
            args.append(a)
            rest = rest.lstrip()
            if rest.startswith(","):
                rest = rest[1:]
                continue
            if rest.startswith("]"):
                rest = rest[1:]
                break
            raise ValueError("bad type args in %r" % s)
    low = name.lower()
    region = ""
    if rest.startswith("#"):
        j = 1
        while j < len(rest) and (rest[j].isalnum() or rest[j] == "_"):
            j += 1
        region, rest = rest[1:j], rest[j:].lstrip()
    if region:
        if low in ("list", "deque", "set"):
            return Ty(low, args[0], region), rest
        if low == "dict":
            return Ty("dict", args[0], args[1], region), rest
        raise ValueError("region on non-container type %r" % name)
    if not args:
        if low in ("int", "bool", "str", "float", "bytes", "none", "any"):
            return Ty(low), rest
        if name in VALUE_CLASSES:
            return Ty("val", VALUE_CLASSES[name][0]), rest
        return Ty("ref", name), rest
    if low in ("opt", "optional"):
        return Ty("opt", args[0]), rest
    if low in ("list", "deque", "seq", "set"):
        return Ty(low, args[0]), rest
    if low == "dict":
        return Ty("dict", args[0], args[1]), rest
    if low == "arr":
        return Ty("arr", args[0], args[1]), rest
    if low == "tuple":
        return Ty("tuple", *args), rest
    if low in ("enum", "val"):
        return Ty(low, args[0].args[0] if args[0].kind == "ref" else repr(args[0])), rest
    raise ValueError("unknown type constructor %r" % name)


def _opt_dt(inner_sort, tag):
    key = ("opt", tag)
    if key not in _cache:
        dt = z3.Datatype("Opt_" + tag)
        dt.declare("none_" + tag)
        dt.declare("some_" + tag, ("val_" + tag, inner_sort))
        _cache[key] = dt.create()
    return _cache[key]


def _sort_tag(srt):
    return str(srt).replace(" ", "_").replace("(", "").replace(")", "")


def sort_of(ty):
    ty = parse(ty)
    k = ty.kind
    if k == "int":
        return z3.IntSort()
    if k == "bool":
        return z3.BoolSort()
    if k == "str":
        return z3.StringSort()
    if k == "enum":
        return z3.IntSort()
    if k in ("float", "bytes"):
        key = ("unint", k)
        if key not in _cache:
            _cache[key] = z3.DeclareSort(k.capitalize())
        return _cache[key]
    if k == "val":
        key = ("val", ty.args[0])
        if key not in _cache:
            vc = next((v for v in VALUE_CLASSES.values() if v[0] == ty.args[0]), None)
            if vc is None:
                _cache[key] = z3.DeclareSort(ty.args[0])
            else:
                dt = z3.Datatype(ty.args[0])
                dt.declare("mk_" + ty.args[0], *[("%s_%s" % (ty.args[0], f), sort_of(t)) for f, t in vc[1]])
                _cache[key] = dt.create()
        return _cache[key]
    if k == "tuple":
        key = ("tuple", ty.args)
        if key not in _cache:
            name = "Tup_" + "_".join(_sort_tag(sort_of(a)) for a in ty.args)
            n = sum(1 for kk in _cache if kk[0] == "tuple")
            dt = z3.Datatype("%s_%d" % (name, n))
            dt.declare("mk_%s_%d" % (name, n), *[("f%d_%s_%d" % (i, name, n), sort_of(a)) for i, a in enumerate(ty.args)])
            _cache[key] = dt.create()
        return _cache[key]
    if k == "arr":
        return z3.ArraySort(sort_of(ty.args[0]), sort_of(ty.args[1]))
    if k == "opt":
        inner = ty.args[0]
        if inner.is_reflike:
            return Ref
        return _opt_dt(sort_of(inner), _sort_tag(sort_of(inner)))
    if ty.is_reflike:
        return Ref
    raise ValueError("no sort for %r" % (ty,))


def value_class_of_sort(sortname):
    for cname, (sn, fields) in VALUE_CLASSES.items():
        if sn == sortname:
            return cname, fields
    return None


def val_field(ty, term, field):
    """Accessor of a value-class datatype."""
    vc = value_class_of_sort(ty.args[0])
    names = [f for f, _ in vc[1]]
    dt = sort_of(ty)
    i = names.index(field)
    return dt.accessor(0, i)(term), parse(vc[1][i][1])


def val_mk(ty, terms):
    return sort_of(ty).constructor(0)(*terms)


def opt_none(ty):
    """SMT term for None at optional type ty."""
    ty = parse(ty)
    assert ty.kind == "opt"
    if ty.args[0].is_reflike:
        return NONE
    dt = sort_of(ty)
    return dt.constructor(0)()


def opt_some(ty, term):
    ty = parse(ty)
    if ty.args[0].is_reflike:
        return term
    dt = sort_of(ty)
    return dt.constructor(1)(term)


def opt_is_none(ty, term):
    ty = parse(ty)
    if ty.args[0].is_reflike:
        return term == NONE
    dt = sort_of(ty)
    return dt.recognizer(0)(term)


def opt_val(ty, term):
    ty = parse(ty)
    if ty.args[0].is_reflike:
        return term
    dt = sort_of(ty)
    return dt.accessor(1, 0)(term)


def tuple_mk(ty, terms):
    dt = sort_of(ty)
    return dt.constructor(0)(*terms)


def tuple_get(ty, term, i):
    dt = sort_of(ty)
    return dt.accessor(0, i)(term)
