"""python3-vt -m pyvc.dbg <contract substring> <obligation substring> : dump matching obligations to /tmp/vc_<k>.smt2"""
import sys
sys.path.insert(0, "/verif")
from pyvc.source import Repo
from pyvc.contract import Registry
from pyvc.stmts import Exec
from pyvc import solve
reg = Registry().load_package("contracts"); repo = Repo()
pat, opat = sys.argv[1], sys.argv[2]
k = 0
for tgt, con in reg.contracts.items():
    if con.extern or pat not in tgt:
        continue
    eng = Exec(repo, reg)
    res = eng.verify(con)
    for o in res["obligations"]:
        if opat in o.name:
            open("/tmp/vc_%d.smt2" % k, "w").write(solve.to_smt2(o.pc, o.goal))
            print(k, o.name, "@", o.where, len(o.pc))
            k += 1
