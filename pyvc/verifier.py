"""Expression / statement semantics, calls by contract, function verification."""
import ast

import z3

from . import types as T
from .types import AND, OR, Ty, Ref, NONE, sort_of, parse as ty
from .source import SourceError, header_text, strip_docstring
from .contract import Clause, Contract, Loop
from .engine import (Engine, V, Py, NONE_V, mk_bool, mk_int, mk_str, Obligation, SymExc, Signal, ReturnSig,
                     BreakSig, ContinueSig, PathEnd, RaiseSig, Unsupported, State)
from . import regex as rx

NOOP_FUNCS = {"print", "print_bold", "print_cyan", "print_green", "print_red", "print_yellow"}

_JOIN = None


def join_fn():
    """join(sep, a, n) = a[0] + sep + ... + a[n-1]  (recursive definition)."""
    global _JOIN
    if _JOIN is None:
        S, I = z3.StringSort(), z3.IntSort()
        A = z3.ArraySort(I, S)
        f = z3.RecFunction("str_join", S, A, I, S)
        sep, a, n = z3.Const("sep", S), z3.Const("a", A), z3.Int("n")
        z3.RecAddDefinition(f, [sep, a, n],
                            z3.If(n <= 0, z3.StringVal(""),
                                  z3.If(n == 1, z3.Select(a, 0),
                                        z3.Concat(f(sep, a, n - 1), sep, z3.Select(a, n - 1)))))
        _JOIN = f
    return _JOIN


def int_to_str(t):
    return z3.If(t >= 0, z3.IntToStr(t), z3.Concat(z3.StringVal("-"), z3.IntToStr(-t)))


class Frame:
    __slots__ = ("loc", "rel", "cls", "func", "contract", "loop_ord", "ghost_before", "ghost_after", "fname", "unbound_locals", "narrow", "auto_inline")


class Verifier(Engine):
    # =================================================================== expressions
    def ev(self, node):
        m = getattr(self, "ev_" + type(node).__name__, None)
        if m is None:
            raise Unsupported("expression %s" % type(node).__name__)
        return m(node)

    def ev_v(self, node):
        v = self.ev(node)
        if isinstance(v, Py):
            raise Unsupported("python-level value in value position: %s" % ast.unparse(node))
        return v

    def ev_Constant(self, n):
        v = n.value
        if v is None:
            return NONE_V
        if isinstance(v, bool):
            return mk_bool(v)
        if isinstance(v, int):
            return mk_int(v)
        if isinstance(v, str):
            return mk_str(v)
        if isinstance(v, bytes):
            return V(T.BYTES, self.bytes_const(v))
        if isinstance(v, float):
            # floats are an uninterpreted sort: a literal is just a name for some float (no arithmetic facts)
            f = z3.Function("float_lit", z3.StringSort(), sort_of(T.FLOAT))
            return V(T.FLOAT, f(z3.StringVal(repr(v))))
        raise Unsupported("constant %r" % (v,))

    def bytes_const(self, b):
        f = z3.Function("bytes_lit", z3.StringSort(), sort_of(T.BYTES))
        return f(z3.StringVal(b.decode("latin-1")))

    def lookup(self, name):
        loc = self.st.loc
        if name in loc:
            v = loc[name]
            if v is None:
                self.oblige("UnboundLocalError: %s" % name, "safety", z3.BoolVal(False))
                raise PathEnd()
            return v
        if name in self.frame.unbound_locals:
            # a local variable of this function that is not bound on this path
            self.oblige("UnboundLocalError: local '%s' read before assignment" % name, "safety", z3.BoolVal(False),
                        text="local variable '%s' is not bound on this path" % name)
            raise PathEnd()
        if name in self.reg.logic.globals:
            t_ = ty(self.reg.logic.globals[name])
            return V(t_, self.hget("$g:" + name, sort_of(t_)))
        if self.frame.rel is not None:
            g = self.repo.globals(self.frame.rel)
            if name in g:
                return self.resolve_global(self.frame.rel, name)
        if name in self.reg.classes:
            cd = self.reg.classes[name]
            return Py("class", (cd.file, name))
        if name in ("True", "False"):
            return mk_bool(name == "True")
        con = self.frame.contract
        if con is not None and name in con.callables:
            return Py("contractfn", con.callables[name])
        if name in dir(__import__("builtins")):
            return Py("builtin", name)
        raise Unsupported("unknown name %s" % name)

    def ev_Name(self, n):
        return self.lookup(n.id)

    def ev_Attribute(self, n):
        base = self.ev(n.value)
        nar = getattr(self.frame, "narrow", None)
        if nar and isinstance(base, V) and base.ty.kind == "ref":
            key = ast.unparse(n.value)
            if key in nar:
                base = V(Ty("ref", nar[key]), base.t)
        return self.getattr(base, n.attr, n)

    def getattr(self, base, attr, node=None):
        if isinstance(base, Py):
            k, p = base.kind, base.p
            if k == "module":
                rel = self.repo.module_rel_of(p)
                if rel is not None:
                    return self.resolve_global(rel, attr)
                ev_ = self.ext_value("%s.%s" % (p, attr))
                return ev_ if ev_ is not None else Py("ext", "%s.%s" % (p, attr))
            if k == "ext":
                ev_ = self.ext_value("%s.%s" % (p, attr))
                return ev_ if ev_ is not None else Py("ext", "%s.%s" % (p, attr))
            if k == "class":
                rel, cname = p
                vals = self.enum_values(cname)
                if attr in vals:
                    return V(Ty("enum", cname), z3.IntVal(vals[attr]))
                if attr == "__name__":
                    return mk_str(cname)
                mem = self.member(cname, attr) if cname in self.reg.classes else None
                if mem is not None:
                    return Py("func", (mem[0], "%s.%s" % (mem[1], attr), base))
                fd = self.field_decl(cname, "cls$" + attr) if cname in self.reg.classes else None
                if fd is not None:
                    key = "$cls:%s.%s" % (fd[0], attr)
                    return V(fd[1], self.hget(key, sort_of(fd[1])))
                raise Unsupported("class attribute %s.%s" % (cname, attr))
            if k == "regex":
                return Py("bound", (base, attr))
            if k == "super":
                selfv, cur = p
                mro = self.class_mro(cur)[1:]
                for c in mro:
                    cd = self.reg.classes.get(c)
                    if cd is None or not cd.file:
                        continue
                    mem = self.repo.class_members(cd.file, cd.qual)
                    if attr in mem:
                        return Py("superbound", (selfv, cd.file, "%s.%s" % (cd.qual, attr)))
                raise Unsupported("super().%s not found" % attr)
            raise Unsupported("attribute %s of %r" % (attr, base))
        t_ = base.ty
        if t_.kind == "opt":
            inner = t_.args[0]
            self.oblige("AttributeError: None has no attribute '%s'" % attr, "safety",
                        z3.Not(T.opt_is_none(t_, base.t)))
            base = V(inner, T.opt_val(t_, base.t))
            t_ = inner
        if t_.kind == "none":
            self.oblige("AttributeError: None has no attribute '%s'" % attr, "safety", z3.BoolVal(False))
            raise PathEnd()
        if t_.kind == "ref":
            cname = t_.args[0]
            fd = self.field_decl(cname, attr)
            if fd is not None:
                return self.read_field(base, attr)
            mem = self.member(cname, attr)
            if mem is not None:
                rel, c, fdef, decos = mem
                if "property" in decos:
                    return self.call_function(rel, "%s.%s" % (c, attr), base, [], {}, as_property=True)
                return Py("bound", (base, attr))
            if self.reg.contract_for("ext", "%s.%s" % (cname, attr)) is not None or cname == "ReMatch":
                return Py("bound", (base, attr))
            # a nested class reached through an instance (self.Commit): declared with qual "Outer.Inner"
            for nd in self.reg.classes.values():
                if getattr(nd, "qual", None) == "%s.%s" % (cname, attr):
                    return Py("class", (nd.file, nd.name))
            raise Unsupported("attribute %s.%s is neither a declared field nor a member" % (cname, attr))
        if t_.kind == "val" and T.value_class_of_sort(t_.args[0]) is not None:
            cname, vfields = T.value_class_of_sort(t_.args[0])
            if attr in [f for f, _ in vfields]:
                term, ft = T.val_field(t_, base.t, attr)
                return V(ft, term)
            mem = self.member(cname, attr)
            if mem is not None:
                rel, c, fdef, decos = mem
                if "property" in decos:
                    return self.call_function(rel, "%s.%s" % (c, attr), base, [], {}, as_property=True)
                return Py("bound", (base, attr))
            raise Unsupported("attribute %s of value class %s" % (attr, cname))
        if t_.kind == "val":
            fname = "%s_%s" % (t_.args[0], attr)
            if fname in self.reg.logic.funcs:
                f, ats, rt = self.spec_func(fname)
                if len(ats) == 1:
                    return V(rt, f(base.t))
            return Py("bound", (base, attr))
        if t_.kind == "tuple":
            raise Unsupported("attribute on tuple")
        return Py("bound", (base, attr))

    def ev_BoolOp(self, n):
        is_and = isinstance(n.op, ast.And)
        terms = []
        mark = len(self.st.pc)
        try:
            for sub in n.values:
                v = self.ev(sub)
                b = self.truth(v)
                terms.append(b)
                self.st.pc.append(b if is_and else z3.Not(b))
        finally:
            # guards are only for obligations raised while evaluating later operands
            extra = self.st.pc[mark:]
            del self.st.pc[mark:]
            # keep anything that is not one of our guards (assumptions added by reads)
            guards = set(t.get_id() for t in terms) | set(z3.Not(t).get_id() for t in terms)
            for e in extra:
                if e.get_id() not in guards:
                    self.st.pc.append(self._guarded(e, terms, is_and, extra))
        return V(T.BOOL, AND(terms) if is_and else OR(terms))

    def _guarded(self, fact, terms, is_and, extra):
        # A fact learned while evaluating operand k holds only under the guards of operands < k;
        # conservatively weaken it by all guards that precede it in `extra`.
        gs = []
        for e in extra:
            if e.get_id() == fact.get_id():
                break
            gs.append(e)
        return z3.Implies(AND(gs), fact) if gs else fact

    def ev_UnaryOp(self, n):
        v = self.ev(n.operand)
        if isinstance(n.op, ast.Not):
            return V(T.BOOL, z3.Not(self.truth(v)))
        if isinstance(n.op, ast.USub):
            return V(T.INT, -self.coerce(v, T.INT).t)
        raise Unsupported("unary op")

    def ev_IfExp(self, n):
        c = self.truth(self.ev(n.test))
        cs = z3.simplify(c)
        if z3.is_true(cs):
            return self.ev(n.body)
        if z3.is_false(cs):
            return self.ev(n.orelse)
        mark = len(self.st.pc)
        heap0 = dict(self.st.heap)
        self.st.pc.append(c)
        a = self.ev_v(n.body)
        ea = self.st.pc[mark + 1:]
        del self.st.pc[mark:]
        heap_a = self.st.heap
        self.st.heap = dict(heap0)
        self.st.pc.append(z3.Not(c))
        b = self.ev_v(n.orelse)
        eb = self.st.pc[mark + 1:]
        del self.st.pc[mark:]
        heap_b = self.st.heap
        # heap effects of the two arms (e.g. a list literal in one of them) are merged under the condition
        merged = dict(heap_b)
        for k in set(heap_a) | set(heap_b):
            ta, tb = heap_a.get(k), heap_b.get(k)
            if ta is None or tb is None:
                base = heap0.get(k, self._init_heap.get(k))
                if base is None:
                    self.st.heap = heap_a if ta is not None else heap_b
                    base = self.hget(k, (ta if ta is not None else tb).sort())
                ta = ta if ta is not None else base
                tb = tb if tb is not None else base
            merged[k] = ta if ta.get_id() == tb.get_id() else z3.If(c, ta, tb)
        self.st.heap = merged
        for e in ea:
            self.st.pc.append(z3.Implies(c, e))
        for e in eb:
            self.st.pc.append(z3.Implies(z3.Not(c), e))
        if a.ty != b.ty:
            if a.ty.kind == "none":
                t_ = b.ty if b.ty.kind == "opt" else Ty("opt", b.ty)
            elif b.ty.kind == "none":
                t_ = a.ty if a.ty.kind == "opt" else Ty("opt", a.ty)
            elif a.ty.kind == "opt":
                t_ = a.ty
            else:
                t_ = b.ty
            a, b = self.coerce(a, t_), self.coerce(b, t_)
        return V(a.ty, z3.If(c, a.t, b.t))

    def ev_Compare(self, n):
        left = self.ev(n.left)
        res = []
        for op, rn in zip(n.ops, n.comparators):
            right = self.ev(rn)
            res.append(self.compare(op, left, right))
            left = right
        return V(T.BOOL, AND(res) if len(res) > 1 else res[0])

    def compare(self, op, a, b):
        if isinstance(op, (ast.Eq, ast.Is)):
            return self.equal(a, b)
        if isinstance(op, (ast.NotEq, ast.IsNot)):
            return z3.Not(self.equal(a, b))
        if isinstance(op, (ast.In, ast.NotIn)):
            r = self.contains(b, a)
            return r if isinstance(op, ast.In) else z3.Not(r)
        a, b = self.coerce(a, T.INT) if a.ty.kind in ("bool", "opt", "enum") else a, self.coerce(b, T.INT) if b.ty.kind in ("bool", "opt", "enum") else b
        if a.ty.kind != "int" or b.ty.kind != "int":
            raise Unsupported("ordering comparison on %r / %r" % (a.ty, b.ty))
        if isinstance(op, ast.Lt):
            return a.t < b.t
        if isinstance(op, ast.LtE):
            return a.t <= b.t
        if isinstance(op, ast.Gt):
            return a.t > b.t
        if isinstance(op, ast.GtE):
            return a.t >= b.t
        raise Unsupported("comparison")

    def contains(self, cont, item):
        if isinstance(cont, Py):
            if cont.kind == "ext":
                m = self.ext_value(cont.p)
                if m is not None:
                    return self.contains(m, item)
            raise Unsupported("`in` on %r" % (cont,))
        k = cont.ty.kind
        if k == "set":
            return z3.Select(self.set_mem(cont), self.coerce(item, cont.ty.elem).t)
        if k == "dict":
            return self.dict_has(cont, item)
        if k in ("list", "seq", "deque"):
            i = self.fresh("i", z3.IntSort())
            it = self.coerce(item, cont.ty.elem)
            n = self.seq_len(cont)
            return z3.Exists([i], AND(i >= 0, i < n, self.seq_at(cont, i).t == it.t))
        if k == "str":
            return z3.Contains(cont.t, self.coerce(item, T.STR).t)
        if k == "opt" and cont.ty.args[0].kind in ("ref", "dict", "set", "list"):
            self.oblige("TypeError: argument of type 'NoneType' is not iterable", "safety", z3.Not(T.opt_is_none(cont.ty, cont.t)))
            return self.contains(V(cont.ty.args[0], T.opt_val(cont.ty, cont.t)), item)
        if k == "ref" and self.reg.contract_for("ext", "%s.__contains__" % cont.ty.args[0]) is not None:
            return self.truth(self.call_ext("%s.__contains__" % cont.ty.args[0], cont, [item], {}))
        raise Unsupported("`in` on %r" % (cont.ty,))

    def ev_BinOp(self, n):
        a, b = self.ev(n.left), self.ev(n.right)
        if isinstance(a, Py) or isinstance(b, Py):
            raise Unsupported("binary op on python-level value")
        op = n.op
        if a.ty.kind == "str" and b.ty.kind == "str" and isinstance(op, ast.Add):
            return V(T.STR, z3.Concat(a.t, b.t))
        if a.ty.kind == "val" and isinstance(op, ast.Div):
            suffix = "" if b.ty.kind == "str" else "_" + (b.ty.args[0] if b.ty.kind == "val" else b.ty.kind)
            return self.call_ext("%s.__truediv__%s" % (a.ty.args[0], suffix), a, [b], {})
        if a.ty.kind == "float" or b.ty.kind == "float":
            return V(T.FLOAT, self.fresh("flt", sort_of(T.FLOAT)))
        a, b = self.coerce(a, T.INT), self.coerce(b, T.INT)
        if isinstance(op, ast.Add):
            return V(T.INT, a.t + b.t)
        if isinstance(op, ast.Sub):
            return V(T.INT, a.t - b.t)
        if isinstance(op, ast.Mult):
            return V(T.INT, a.t * b.t)
        if isinstance(op, ast.FloorDiv):
            self.oblige("ZeroDivisionError", "safety", b.t != 0)
            return V(T.INT, a.t / b.t)
        if isinstance(op, ast.Mod):
            self.oblige("ZeroDivisionError", "safety", b.t != 0)
            return V(T.INT, a.t % b.t)
        raise Unsupported("binary operator %s" % type(op).__name__)

    def ev_Tuple(self, n):
        vals = [self.ev_v(e) for e in n.elts]
        t_ = Ty("tuple", *[v.ty for v in vals])
        return V(t_, T.tuple_mk(t_, [v.t for v in vals]))

    def ev_List(self, n):
        vals = []
        starred = [e for e in n.elts if isinstance(e, ast.Starred)]
        if starred:
            return self.list_with_star(n)
        for e in n.elts:
            vals.append(self.ev_v(e))
        h = getattr(self, "_assign_hint", None)
        if h is not None and h.kind == "list":
            return self.new_list(h, vals)
        et = vals[0].ty if vals else self.hint_elem_type()
        return self.new_list(Ty("list", et), vals)

    def list_with_star(self, n):
        """[*xs, a, b]: a fresh list = copy of xs followed by the remaining items (only a leading star)."""
        if not isinstance(n.elts[0], ast.Starred) or any(isinstance(e, ast.Starred) for e in n.elts[1:]):
            raise Unsupported("starred element not in first position")
        src = self.ev_v(n.elts[0].value)
        if src.ty.kind not in ("list", "seq"):
            raise Unsupported("star of %r" % (src.ty,))
        h = getattr(self, "_assign_hint", None)
        out_t = h if (h is not None and h.kind == "list") else Ty("list", src.ty.elem)
        r = self.new_list(out_t, [])
        key, srt = self.el_key(out_t)
        m = self.seq_len(src)
        arr = self.seq_arr(src)
        rest = [self.coerce(self.ev_v(e), out_t.elem) for e in n.elts[1:]]
        for k_, it in enumerate(rest):
            arr = z3.Store(arr, m + k_, it.t)
        self.hset(key, z3.Store(self.hget(key, srt), r.t, arr))
        self.hstore(self.k_len(out_t), r.t, m + len(rest))
        return r

    def hint_elem_type(self):
        h = getattr(self, "_assign_hint", None)
        if h is not None and h.kind in ("list", "deque", "set", "seq"):
            return h.elem
        if getattr(self, "_in_call_args", 0) > 0:
            return T.ANY           # `f(..., [], ...)`: a fresh empty list that is only handed to the callee
        raise Unsupported("cannot infer the element type of an empty literal (add a `locals` hint)")

    def ev_Set(self, n):
        raise Unsupported("set literal")

    def ev_Dict(self, n):
        h = getattr(self, "_assign_hint", None)
        if (h is None or h.kind != "dict") and not n.keys and "PyValue" in self.reg.classes:
            r = self.new_ref(None, "pydict")
            self.assume(self.typeof(r) == self.class_id("PyValue"))
            return V(Ty("ref", "PyValue"), r)
        if h is None or h.kind != "dict":
            # no declared type for this local: infer it from the first explicit key / value (its own anonymous region)
            pair = next(((k, v) for k, v in zip(n.keys, n.values) if k is not None), None)
            if pair is None:
                raise Unsupported("dict literal without a `locals` type hint")
            k0, v0 = self.ev_v(pair[0]), self.ev_v(pair[1])
            if not isinstance(k0, V) or not isinstance(v0, V):
                raise Unsupported("dict literal without a `locals` type hint")
            self._anon_regions = getattr(self, "_anon_regions", 0) + 1
            h = Ty("dict", k0.ty, v0.ty, "anon%d" % self._anon_regions)
        d = self.new_dict(h)
        first = True
        for k, v in zip(n.keys, n.values):
            if k is None:
                src = self.ev(v)          # {**other}
                if isinstance(src, Py) and src.kind == "ext":
                    src = self.ext_value(src.p)
                if isinstance(src, Py) or src.ty.kind != "dict" or [sort_of(a) for a in src.ty.args[:2]] != [sort_of(a) for a in h.args[:2]]:
                    raise Unsupported("dict unpacking of %r" % (src,))
                if first:
                    self.dict_copy_into(d, src)      # {**src, ...}: starts as a copy
                else:
                    self.dict_update_from(d, src)    # {..., **src}: src's entries are added / override
            else:
                self.dict_set(d, self.ev_v(k), self.ev_v(v))
            first = False
        return d

    def dict_update_from(self, d, src):
        """d.update(src): keys of src are added, their values override; everything else is kept."""
        dk, ds, mk, ms = self.dict_keys(d.ty)
        KT = d.ty.args[0]
        dom_d, map_d = self.dict_dom(d), self.dict_map(d)
        dom_s, map_s = self.dict_dom(src), self.dict_map(src)
        ndom = self.fresh("udom", dom_d.sort())
        nmap = self.fresh("umap", map_d.sort())
        k = self.fresh("k", sort_of(KT))
        self.assume(z3.ForAll([k], AND(z3.Select(ndom, k) == OR(z3.Select(dom_d, k), z3.Select(dom_s, k)),
                                      z3.Select(nmap, k) == z3.If(z3.Select(dom_s, k), z3.Select(map_s, k), z3.Select(map_d, k)))))
        self.hset(dk, z3.Store(self.hget(dk, ds), d.t, ndom))
        self.hset(mk, z3.Store(self.hget(mk, ms), d.t, nmap))
        c = self.fresh("card", z3.IntSort())
        self.assume(AND(c >= self.card(d), c >= self.card(src), c <= self.card(d) + self.card(src)))
        self.set_card(d, c)

    def dict_copy_into(self, d, src):
        dk, ds, mk, ms = self.dict_keys(d.ty)
        self.hset(dk, z3.Store(self.hget(dk, ds), d.t, self.dict_dom(src)))
        self.hset(mk, z3.Store(self.hget(mk, ms), d.t, self.dict_map(src)))
        self.set_card(d, self.card(src))

    def ev_JoinedStr(self, n):
        parts = []
        for p in n.values:
            if isinstance(p, ast.Constant):
                parts.append(z3.StringVal(p.value))
            else:
                parts.append(self.to_str(self.ev(p.value)).t)
        if not parts:
            return mk_str("")
        return V(T.STR, z3.Concat(*parts) if len(parts) > 1 else parts[0])

    def ev_Lambda(self, n):
        return Py("lambda", (n, dict(self.st.loc), self.frame))

    def ev_Subscript(self, n):
        base = self.ev(n.value)
        if isinstance(base, Py) and base.kind == "ext":
            m = self.ext_value(base.p)
            if m is None:
                raise Unsupported("subscript of %s" % base.p)
            base = m
        if isinstance(base, Py):
            raise Unsupported("subscript of %r" % (base,))
        k = base.ty.kind
        if isinstance(n.slice, ast.Slice):
            return self.ev_slice(base, n.slice)
        if k == "tuple":
            if isinstance(n.slice, ast.Constant) and isinstance(n.slice.value, int):
                i = n.slice.value
                if i < 0:
                    i += len(base.ty.args)
                v = V(base.ty.args[i], T.tuple_get(base.ty, base.t, i))
                self.assume_type(v)
                return v
            raise Unsupported("non-constant tuple index")
        idx = self.ev_v(n.slice)
        if k in ("list", "seq", "deque"):
            i = self.coerce(idx, T.INT).t
            ln = self.seq_len(base)
            i2 = z3.If(i < 0, i + ln, i)
            self.oblige("IndexError: list index out of range", "safety", AND(i2 >= 0, i2 < ln))
            v = self.seq_at(base, i2)
            self.assume_type(v)
            return v
        if k == "dict":
            return self.dict_get(base, idx)
        if k == "str":
            i = self.coerce(idx, T.INT).t
            return V(T.STR, z3.SubString(base.t, i, 1))
        if k == "opt":
            self.oblige("TypeError: 'NoneType' object is not subscriptable", "safety", z3.Not(T.opt_is_none(base.ty, base.t)))
            inner = V(base.ty.args[0], T.opt_val(base.ty, base.t))
            if inner.ty.kind == "dict":
                return self.dict_get(inner, idx)
            base, k = inner, inner.ty.kind
        if k == "ref" and self.reg.contract_for("ext", "%s.__getitem__" % base.ty.args[0]) is not None:
            return self.call_ext("%s.__getitem__" % base.ty.args[0], base, [idx], {})
        raise Unsupported("subscript of %r" % (base.ty,))

    def ev_slice(self, base, sl):
        if base.ty.kind == "str" and sl.step is None:
            lo = self.coerce(self.ev_v(sl.lower), T.INT).t if sl.lower is not None else z3.IntVal(0)
            n = z3.Length(base.t)
            hi = self.coerce(self.ev_v(sl.upper), T.INT).t if sl.upper is not None else n
            return V(T.STR, z3.SubString(base.t, lo, hi - lo))
        if base.ty.kind == "bytes":
            lo = self.coerce(self.ev_v(sl.lower), T.INT).t if sl.lower is not None else z3.IntVal(0)
            hi = self.coerce(self.ev_v(sl.upper), T.INT).t if sl.upper is not None else z3.IntVal(-1)
            f = z3.Function("bytes_slice", sort_of(T.BYTES), z3.IntSort(), z3.IntSort(), sort_of(T.BYTES))
            return V(T.BYTES, f(base.t, lo, hi))
        raise Unsupported("slice of %r" % (base.ty,))

    def ev_ListComp(self, n):
        # only meaningful as the argument of all()/any(); any other use is rejected where it is consumed
        return Py("genexp", (n, dict(self.st.loc)))

    def ev_SetComp(self, n):
        if len(n.generators) != 1 or n.generators[0].ifs:
            raise Unsupported("complex set comprehension")
        gen = n.generators[0]
        seqv = self.as_seq(self.ev_v(gen.iter))
        h = getattr(self, "_assign_hint", None)
        # evaluate the element for a symbolic index to learn its type
        i = self.fresh("sc", z3.IntSort())
        saved = dict(self.st.loc)
        self.quant_depth += 1
        self.bound_stack.append(i)
        try:
            self.bind_target(gen.target, self.seq_at(seqv, i))
            elt = self.ev_v(n.elt)
        finally:
            self.quant_depth -= 1
            self.bound_stack.pop()
            self.st.loc = saved
        t_ = h if (h is not None and h.kind == "set") else Ty("set", elt.ty)
        res = self.new_set(t_)
        key, srt = self.set_key(t_)
        mem = self.fresh("scmem", srt.range())
        x = self.fresh("x", sort_of(t_.elem))
        n_ = self.seq_len(seqv)
        self.assume(z3.ForAll([x], z3.Select(mem, x) == z3.Exists([i], AND(i >= 0, i < n_, elt.t == x))))
        self.hset(key, z3.Store(self.hget(key, srt), res.t, mem))
        c = self.fresh("card", z3.IntSort())
        self.assume(c >= 0)
        self.set_card(res, c)
        return res

    def ev_GeneratorExp(self, n):
        return Py("genexp", (n, dict(self.st.loc)))

    def ev_Starred(self, n):
        raise Unsupported("starred expression")

    # ---- string helpers
    def to_str(self, v):
        if isinstance(v, Py):
            raise Unsupported("str() of python-level value")
        k = v.ty.kind
        if k == "str":
            return v
        if k in ("int", "enum"):
            return V(T.STR, int_to_str(v.t))
        if k == "bool":
            return V(T.STR, z3.If(v.t, z3.StringVal("True"), z3.StringVal("False")))
        if k == "val":
            fname = "%s_str" % v.ty.args[0]
            if fname in self.reg.logic.funcs:
                f, _, _ = self.spec_func(fname)
                return V(T.STR, f(v.t))
        if k == "ref":
            cname = v.ty.args[0]
            mem = self.member(cname, "__str__") or self.member(cname, "__repr__")
            if mem is not None:
                try:
                    return self.coerce(self.call_function(mem[0], "%s.%s" % (mem[1], mem[2].name), v, [], {}), T.STR)
                except Unsupported:
                    pass
        if k == "opt":
            inner = self.to_str(V(v.ty.args[0], T.opt_val(v.ty, v.t)))
            return V(T.STR, z3.If(T.opt_is_none(v.ty, v.t), z3.StringVal("None"), inner.t))
        f = z3.Function("pystr_" + self.tag(sort_of(v.ty)), sort_of(v.ty), z3.StringSort())
        return V(T.STR, f(v.t))

    def str_format(self, template, args, kwargs):
        """'..{}..{name}..'.format(...) for a constant template."""
        import string
        parts = []
        auto = 0
        for lit, field, spec, conv in string.Formatter().parse(template):
            if lit:
                parts.append(z3.StringVal(lit))
            if field is None:
                continue
            if spec or conv:
                raise Unsupported("format spec in template %r" % template)
            if field == "":
                v = args[auto]
                auto += 1
            elif field.isdigit():
                v = args[int(field)]
            else:
                v = kwargs[field]
            parts.append(self.to_str(v).t)
        if not parts:
            return mk_str("")
        return V(T.STR, z3.Concat(*parts) if len(parts) > 1 else parts[0])

    # =================================================================== calls
    def ev_Call(self, n):
        fn = self.ev(n.func)
        args = []
        for a in n.args:
            if isinstance(a, ast.Starred):
                sv = self.ev(a.value)
                args.append(("*", sv))
            elif isinstance(a, ast.List) and not a.elts and getattr(self, "_assign_hint", None) is None:
                self._in_call_args = getattr(self, "_in_call_args", 0) + 1
                try:
                    args.append(self.ev(a))
                finally:
                    self._in_call_args -= 1
            else:
                args.append(self.ev(a))
        kwargs = {}
        for kw in n.keywords:
            if kw.arg is None:
                kwargs["**"] = self.ev(kw.value)
            else:
                kwargs[kw.arg] = self.ev(kw.value)
        return self.call(fn, args, kwargs, n)

    def call(self, fn, args, kwargs, node=None):
        if isinstance(fn, Py):
            k, p = fn.kind, fn.p
            if k == "builtin":
                return self.call_builtin(p, args, kwargs, node)
            if k == "bound":
                return self.call_bound(p[0], p[1], args, kwargs, node)
            if k == "func":
                rel, qn = p[0], p[1]
                return self.call_function(rel, qn, None, args, kwargs, clsval=p[2] if len(p) > 2 else None)
            if k == "class":
                return self.construct(p, args, kwargs)
            if k == "ext":
                return self.call_ext(p, None, args, kwargs)
            if k == "contractfn":
                c2 = self.reg.contracts.get(p)
                if c2 is None:
                    raise Unsupported("callable contract %s missing" % p)
                return self.apply_contract(c2, None, args, kwargs)
            if k == "superbound":
                return self.call_function(p[1], p[2], p[0], args, kwargs)
            if k == "lambda":
                return self.call_lambda(fn, args)
            if k == "closure":
                return self.call_closure(fn, args, kwargs)
            if k == "specfn":
                return p(args)
            raise Unsupported("call of %r" % (fn,))
        # calling a symbolic value: a callable parameter with a declared contract
        name = ast.unparse(node.func) if node is not None else "?"
        tgt = self.frame.contract.callables.get(name) if self.frame.contract else None
        if tgt is not None:
            con = self.reg.contracts.get(tgt)
            if con is None:
                raise Unsupported("callable contract %s missing" % tgt)
            return self.apply_contract(con, fn, args, kwargs, callee_label=name)
        raise Unsupported("call of a value %s without a `callables` contract" % name)

    def call_lambda(self, fn, args):
        node, env, frame = fn.p
        saved = self.st.loc
        self.st.loc = dict(env)
        for a, v in zip(node.args.args, args):
            self.st.loc[a.arg] = v
        try:
            return self.ev(node.body)
        finally:
            self.st.loc = saved

    # ---- quantification over sequences
    def quant_over(self, seqv, body_fn, universal=True):
        """forall/exists i in [0,len): body_fn(elem_i) as a z3 Bool."""
        i = self.fresh("q", z3.IntSort())
        n = self.seq_len(seqv)
        is_dq = isinstance(seqv, V) and seqv.ty.kind == "deque"
        self.quant_depth += 1
        self.bound_stack.append(i)
        mark = len(self.st.pc)
        try:
            if is_dq:
                # absolute positions lo <= i < hi: no arithmetic inside the array index (E-matching friendly)
                el = V(seqv.ty.elem, z3.Select(self.seq_arr(seqv), i))
            else:
                el = self.seq_at(seqv, i)
            b = body_fn(el)
            extra = self.st.pc[mark:]
            del self.st.pc[mark:]
        finally:
            self.quant_depth -= 1
            self.bound_stack.pop()
        if is_dq:
            lo = self.seq_base(seqv)
            rng = AND(i >= lo, i < lo + n)
        else:
            rng = AND(i >= 0, i < n)
        facts = self._elem_facts(el)
        if facts:
            # well-typed heap: every element of a container has the declared element type
            self.assume_global(z3.ForAll([i], AND(*facts)))
        if universal:
            return z3.ForAll([i], z3.Implies(AND(rng, *extra), b))
        return z3.Exists([i], AND(rng, *extra, b))

    def _elem_facts(self, el):
        mark = len(self.st.pc)
        prev = getattr(self, "_collecting", False)
        self._collecting = True
        try:
            self.assume_type(el, with_alloc=False)
        finally:
            self._collecting = prev
        facts = self.st.pc[mark:]
        del self.st.pc[mark:]
        return facts

    def as_seq(self, v):
        """Turn an iterable value into a sequence value (V of list/seq/deque kind)."""
        if isinstance(v, Py):
            if v.kind == "mapped":
                return v
            raise Unsupported("iteration over %r" % (v,))
        if v.ty.kind in ("list", "seq", "deque"):
            return v
        raise Unsupported("iteration over %r" % (v.ty,))

    def call_builtin(self, name, args, kwargs, node):
        if name in NOOP_FUNCS:
            return NONE_V
        if name == "super" and not args:
            selfv = self.st.loc.get("self")
            if not isinstance(selfv, V) or self.frame.cls is None:
                raise Unsupported("super() outside a method")
            return Py("super", (selfv, self.frame.cls.split(".")[-1]))
        if name == "len":
            v = args[0]
            if isinstance(v, Py) and v.kind == "ext":
                v = self.ext_value(v.p)
            if isinstance(v, V) and v.ty.kind == "ref":
                mem = self.member(v.ty.args[0], "__len__")
                if mem:
                    return self.call_function(mem[0], "%s.__len__" % mem[1], v, [], {})
            if isinstance(v, V) and v.ty.kind == "opt" and v.ty.args[0].is_heap_container:
                # len(x) with x: Optional[container]: a TypeError unless x is not None here
                self.oblige("TypeError: len() of None", "safety", z3.Not(self.equal(v, NONE_V)))
                v = V(v.ty.args[0], T.opt_val(v.ty, v.t) if not v.ty.args[0].is_reflike else v.t)
            return V(T.INT, self.seq_len(v))
        if name == "str":
            return self.to_str(args[0]) if args else mk_str("")
        if name == "repr" and len(args) == 1 and isinstance(args[0], V) and args[0].ty.kind in ("ref", "val"):
            return self.call_bound(args[0], "__repr__", [], {}, node)       # repr(x) == x.__repr__() for a repository class
        if name == "int":
            v = args[0]
            if v.ty.kind in ("int", "bool", "enum"):
                return self.coerce(v, T.INT)
            if v.ty.kind == "str":
                digits = z3.Plus(z3.Range("0", "9"))
                self.oblige("ValueError: int() of a non-numeric string", "safety", z3.InRe(v.t, digits))
                return V(T.INT, z3.StrToInt(v.t))
            if v.ty.kind == "float":
                f = z3.Function("int_of_float", sort_of(T.FLOAT), z3.IntSort())
                return V(T.INT, f(v.t))
            raise Unsupported("int() of %r" % (v.ty,))
        if name == "isinstance":
            return self.isinstance(args[0], args[1])
        if name in ("all", "any"):
            return self.all_any(name == "all", args[0])
        if name == "map":
            return Py("mapped", (args[0], args[1]))
        if name == "filter":
            return Py("filtered", (args[0], args[1]))
        if name == "reversed":
            return Py("reversed", args[0])
        if name == "range":
            return Py("range", [self.coerce(a, T.INT) for a in args])
        if name in ("list", "tuple"):
            if not args:
                return self.new_list(Ty("list", self.hint_elem_type()), [])
            return self.materialize(args[0], "list" if name == "list" else "seq")
        if name == "set":
            if args:
                raise Unsupported("set(iterable)")
            h = getattr(self, "_assign_hint", None)
            if h is None or h.kind != "set":
                raise Unsupported("set() without a `locals` type hint")
            return self.new_set(h)
        if name == "max" and "key" in kwargs:
            return self.max_by_key(args[0], kwargs["key"])
        if name in ("min", "max") and len(args) == 1 and not kwargs:
            return self.extremum(args[0], name)
        if name in ("min", "max") and len(args) >= 2 and not kwargs and all(isinstance(a, V) and a.ty.kind in ("int", "bool") for a in args):
            acc = self.coerce(args[0], T.INT).t
            for a in args[1:]:
                b = self.coerce(a, T.INT).t
                acc = z3.If(b < acc, b, acc) if name == "min" else z3.If(b > acc, b, acc)
            return V(T.INT, acc)
        if name == "open":
            return self.call_ext("open", None, args, kwargs)
        if name == "hash":
            f = z3.Function("pyhash_" + self.tag(args[0].t.sort()), args[0].t.sort(), z3.IntSort())
            return V(T.INT, f(args[0].t))
        if name == "exec":
            return self.call_ext("exec", None, args, kwargs)
        if name == "hasattr":
            raise Unsupported("hasattr")
        con = self.reg.contract_for("ext", name)
        if con is not None:
            return self.apply_contract(con, None, args, kwargs)
        raise Unsupported("builtin %s" % name)

    def isinstance(self, v, cls):
        if isinstance(cls, Py) and cls.kind == "class":
            cname = cls.p[1]
            if isinstance(v, V) and v.ty.kind == "val":
                vc = T.value_class_of_sort(v.ty.args[0])
                return mk_bool(vc is not None and vc[0] == cname)
            if isinstance(v, V) and v.ty.is_reflike:
                t = v.t
                return V(T.BOOL, AND(t != NONE, self.isinstance_term(t, cname)))
            if isinstance(v, V) and v.ty.kind == "opt":
                raise Unsupported("isinstance on optional value type")
            return mk_bool(False)
        if isinstance(cls, Py) and cls.kind == "builtin":
            kind = {"str": "str", "int": "int", "bool": "bool", "float": "float", "list": "list", "dict": "dict"}.get(cls.p)
            if isinstance(v, V) and v.ty.kind == "ref" and v.ty.args[0] == "PyValue":
                f, _, _ = self.spec_func("is_" + cls.p)
                return V(T.BOOL, f(v.t))
            if isinstance(v, V) and kind is not None:
                if cls.p == "int":
                    return mk_bool(v.ty.kind in ("int", "bool"))
                return mk_bool(v.ty.kind == kind)
        raise Unsupported("isinstance(%r, %r)" % (v, cls))

    def all_any(self, universal, arg):
        if isinstance(arg, Py) and arg.kind == "mapped":
            fn, seq = arg.p
            if isinstance(seq, Py) and seq.kind == "ext":
                seq = self.ext_value(seq.p)
            seqv = self.as_seq(seq)
            return V(T.BOOL, self.quant_over(seqv, lambda el: self.truth(self.call(fn, [el], {})), universal))
        if isinstance(arg, Py) and arg.kind == "genexp":
            node, env = arg.p
            if len(node.generators) != 1 or node.generators[0].ifs:
                raise Unsupported("complex generator expression")
            gen = node.generators[0]
            saved = self.st.loc
            self.st.loc = dict(env)
            try:
                seqv = self.as_seq(self.ev(gen.iter))

                def body(el):
                    self.bind_target(gen.target, el)
                    return self.truth(self.ev(node.elt))
                return V(T.BOOL, self.quant_over(seqv, body, universal))
            finally:
                self.st.loc = saved
        if isinstance(arg, V) and arg.ty.kind in ("list", "seq") and arg.ty.elem.kind == "bool":
            return V(T.BOOL, self.quant_over(arg, lambda el: el.t, universal))
        raise Unsupported("all()/any() over %r" % (arg,))

    def materialize(self, src, kind):
        """list(x) / tuple(x) for the iterables we understand."""
        if isinstance(src, V) and src.ty.kind in ("list", "seq", "deque"):
            out_t = self._out_type(kind, src.ty.elem)
            r = self.new_list(out_t, [])
            n = self.seq_len(src)
            key, srt = self.el_key(out_t)
            if src.ty.kind == "deque":
                raise Unsupported("list(deque)")
            self.hset(key, z3.Store(self.hget(key, srt), r.t, self.seq_arr(src)))
            self.hstore(self.k_len(out_t), r.t, n)
            return r
        if isinstance(src, Py) and src.kind == "reversed":
            inner = src.p
            if isinstance(inner, Py) and inner.kind == "range" and len(inner.p) == 1:
                n = inner.p[0].t
                out_t = self._out_type(kind, T.INT)
                r = self.new_list(out_t, [])
                self.hstore(self.k_len(out_t), r.t, z3.If(n >= 0, n, 0))
                i = self.fresh("i", z3.IntSort())
                self.assume(z3.ForAll([i], z3.Implies(AND(i >= 0, i < n), z3.Select(self.seq_arr(r), i) == n - 1 - i)))
                return r
        if isinstance(src, Py) and src.kind == "mapped":
            fn, seq = src.p
            if isinstance(seq, Py):
                seq = self.materialize(seq, "seq") if seq.kind != "ext" else self.ext_value(seq.p)
            seqv = self.as_seq(seq)
            n = self.seq_len(seqv)
            if isinstance(fn, Py) and fn.kind == "builtin" and fn.p == "str" and seqv.ty.elem.kind == "val" \
                    and ("%s_str" % seqv.ty.elem.args[0]) in self.reg.logic.funcs and seqv.ty.kind != "deque":
                return self.mapped_str_seq(seqv, kind)
            i = self.fresh("i", z3.IntSort())
            self.quant_depth += 1
            self.bound_stack.append(i)
            try:
                el = self.seq_at(seqv, i)
                mv = self.call(fn, [el], {})
            finally:
                self.quant_depth -= 1
                self.bound_stack.pop()
            out_t = self._out_type(kind, mv.ty)
            r = self.new_list(out_t, [])
            self.hstore(self.k_len(out_t), r.t, n)
            self.assume(z3.ForAll([i], z3.Implies(AND(i >= 0, i < n), z3.Select(self.seq_arr(r), i) == mv.t)))
            return r
        raise Unsupported("list()/tuple() of %r" % (src,))

    def mapped_str_seq(self, seqv, kind="seq"):
        """[str(x) for x in seq] for a value sort with a declared *_str function: the array is Map(str_fn, arr),
        a deterministic term, so code and specification agree syntactically."""
        f, _, _ = self.spec_func("%s_str" % seqv.ty.elem.args[0])
        out_t = self._out_type(kind, T.STR)
        r = self.new_list(out_t, [])
        key, srt = self.el_key(out_t)
        self.hset(key, z3.Store(self.hget(key, srt), r.t, z3.Map(f, self.seq_arr(seqv))))
        self.hstore(self.k_len(out_t), r.t, self.seq_len(seqv))
        return r

    def _out_type(self, kind, elem):
        h = getattr(self, "_assign_hint", None)
        if h is not None and h.kind == kind and sort_of(h.elem) == sort_of(elem):
            return h
        return Ty(kind, elem)

    def extremum(self, seq, which):
        """min(seq) / max(seq) of a sequence of ints: an element of the sequence bounding all others."""
        seqv = self.as_seq(seq)
        if seqv.ty.elem.kind != "int":
            raise Unsupported("%s() of a non-int sequence" % which)
        n = self.seq_len(seqv)
        self.oblige("ValueError: %s() of an empty sequence" % which, "safety", n > 0)
        j = self.fresh("arg" + which, z3.IntSort())
        res = self.seq_at(seqv, j)
        i = self.fresh("i", z3.IntSort())
        self.quant_depth += 1
        self.bound_stack.append(i)
        try:
            el = self.seq_at(seqv, i)
        finally:
            self.quant_depth -= 1
            self.bound_stack.pop()
        self.assume(AND(j >= 0, j < n))
        self.assume(z3.ForAll([i], z3.Implies(AND(i >= 0, i < n), (res.t <= el.t) if which == "min" else (el.t <= res.t))))
        self.assume_type(res)
        return res

    def max_by_key(self, seq, keyfn):
        seqv = self.as_seq(seq)
        n = self.seq_len(seqv)
        self.oblige("ValueError: max() of an empty sequence", "safety", n > 0)
        j = self.fresh("argmax", z3.IntSort())
        res = self.seq_at(seqv, j)
        kres = self.coerce(self.call(keyfn, [res], {}), T.INT)
        i = self.fresh("i", z3.IntSort())
        self.quant_depth += 1
        self.bound_stack.append(i)
        try:
            el = self.seq_at(seqv, i)
            kel = self.coerce(self.call(keyfn, [el], {}), T.INT)
        finally:
            self.quant_depth -= 1
            self.bound_stack.pop()
        self.assume(AND(j >= 0, j < n))
        # max() returns the FIRST maximal element
        self.assume(z3.ForAll([i], z3.Implies(AND(i >= 0, i < n), AND(kel.t <= kres.t, z3.Implies(i < j, kel.t < kres.t)))))
        self.assume_type(res)
        return res

    def call_bound(self, obj, name, args, kwargs, node):
        if isinstance(obj, Py):
            if obj.kind == "regex" and name == "match":
                return self.regex_match(obj.p, args[0])
            raise Unsupported("method %s of %r" % (name, obj))
        k = obj.ty.kind
        if k in ("list", "deque"):
            if name == "append":
                self.list_append(obj, args[0])
                return NONE_V
            if name == "pop" and not args:
                return self.list_pop(obj)
            if name == "popleft" and k == "deque":
                return self.list_pop(obj, left=True)
            if name == "clear":
                self.list_clear(obj)
                return NONE_V
        if k == "set":
            if name == "add":
                self.set_add(obj, args[0])
                return NONE_V
            if name == "remove":
                self.set_remove(obj, args[0])
                return NONE_V
            if name == "discard":
                self.set_remove(obj, args[0], strict=False)
                return NONE_V
        if k == "dict":
            if name in ("items", "keys", "values"):
                return Py("dictview", (obj, name))
            if name == "clear":
                dk, ds, mk, ms = self.dict_keys(obj.ty)
                self.hset(dk, z3.Store(self.hget(dk, ds), obj.t, z3.K(sort_of(obj.ty.args[0]), z3.BoolVal(False))))
                self.set_card(obj, z3.IntVal(0))
                return NONE_V
            if name == "pop" and len(args) == 2:
                # dict.pop(key, default): only the removal is modelled (result unused in the code base)
                self.dict_del(obj, args[0], strict=False)
                return NONE_V
            if name == "copy":
                d = self.new_dict(obj.ty)
                self.dict_copy_into(d, obj)
                return d
        if k == "str":
            if name == "startswith":
                return V(T.BOOL, z3.PrefixOf(self.coerce(args[0], T.STR).t, obj.t))
            if name == "endswith":
                return V(T.BOOL, z3.SuffixOf(self.coerce(args[0], T.STR).t, obj.t))
            if name == "join":
                seqv = args[0]
                if isinstance(seqv, Py):
                    seqv = self.materialize(seqv, "seq")
                if seqv.ty.elem.kind != "str":
                    raise Unsupported("join of non-str sequence")
                return V(T.STR, join_fn()(obj.t, self.seq_arr(seqv), self.seq_len(seqv)))
            if name == "format":
                if z3.is_string_value(obj.t):
                    try:
                        return self.str_format(obj.t.as_string(), args, kwargs)
                    except (IndexError, KeyError, Unsupported):
                        pass
                return V(T.STR, self.fresh("fmt", z3.StringSort()))
            if name == "split":
                return self.call_ext("str.split", obj, args, kwargs)
            if name == "strip":
                return self.call_ext("str.strip", obj, args, kwargs)
        if k == "opt":
            inner = obj.ty.args[0]
            self.oblige("AttributeError: None has no attribute '%s'" % name, "safety", z3.Not(T.opt_is_none(obj.ty, obj.t)))
            return self.call_bound(V(inner, T.opt_val(obj.ty, obj.t)), name, args, kwargs, node)
        if k == "ref":
            cname = obj.ty.args[0]
            if cname == "ReMatch" and name == "group":
                g = args[0]
                if not (isinstance(g, V) and z3.is_string_value(g.t)):
                    raise Unsupported("match.group() with a non-constant group name")
                f = z3.Function("match_group_" + g.t.as_string(), Ref, z3.StringSort())
                return V(T.STR, f(obj.t))
            mem = self.member(cname, name)
            if mem is not None:
                return self.call_function(mem[0], "%s.%s" % (mem[1], name), obj, args, kwargs)
            return self.call_ext("%s.%s" % (cname, name), obj, args, kwargs)
        if k == "val" and T.value_class_of_sort(obj.ty.args[0]) is not None:
            cname, _ = T.value_class_of_sort(obj.ty.args[0])
            mem = self.member(cname, name)
            if mem is not None:
                return self.call_function(mem[0], "%s.%s" % (mem[1], name), obj, args, kwargs)
            raise Unsupported("method %s of value class %s" % (name, cname))
        if k == "val":
            return self.call_ext("%s.%s" % (obj.ty.args[0], name), obj, args, kwargs)
        raise Unsupported("method %s on %r" % (name, obj.ty))

    def regex_match(self, pattern, sv):
        """re.Pattern.match: returns a Match value (modelled as Opt[Match]) -- only `is None` and group() are supported."""
        s = self.coerce(sv, T.STR).t
        m = rx.translate(pattern)
        t_ = Ty("opt", Ty("ref", "ReMatch"))
        r = self.fresh("match", Ref)
        matched = m.matches(s)
        self.assume((r != NONE) == matched)
        self.assume(z3.Implies(r != NONE, z3.Select(self.alloc_map(), r)))
        # remember the subject / pattern of this match object for group()
        self._matches = getattr(self, "_matches", {})
        self._matches[r.get_id()] = (m, s, r)
        for gname, gterm in m.groups(s, self):
            f = z3.Function("match_group_" + gname, Ref, z3.StringSort())
            self.assume(z3.Implies(r != NONE, f(r) == gterm))
        return V(t_, r)

    def ext_value(self, dotted):
        """Symbolic value of an external object that the sidecar models as a ghost global (e.g. os.environ)."""
        name = "ext_" + dotted.replace(".", "_")
        if name in self.reg.logic.globals:
            t_ = ty(self.reg.logic.globals[name])
            v = V(t_, self.hget("$g:" + name, sort_of(t_)))
            self.assume_type(v)
            return v
        return None

    def call_ext(self, dotted, selfv, args, kwargs):
        short = dotted.split(".")[-1]
        if short in NOOP_FUNCS:
            return NONE_V
        # overloads: "name(kind1,kind2)" is tried before "name"
        def kind_of(a):
            if isinstance(a, V):
                if a.ty.kind in ("val", "ref", "enum"):
                    return a.ty.args[0]
                return a.ty.kind
            return "*" if isinstance(a, tuple) else "py"
        sig = "%s(%s)" % (dotted, ",".join(kind_of(a) for a in args))
        cur = self.frame.contract
        con = None
        if cur is not None and dotted in cur.prefer_ext:
            con = self.reg.contract_for("ext", cur.prefer_ext[dotted])
        con = con or self.reg.contract_for("ext", sig) or self.reg.contract_for("ext", dotted)
        if con is None:
            raise Unsupported("no model / contract for external call %s" % sig)
        return self.apply_contract(con, selfv, args, kwargs)

    def construct(self, p, args, kwargs):
        rel, cname = p
        if self.exc.issub(cname, "BaseException") and cname not in self.reg.classes or (cname in self.reg.classes and self.reg.classes[cname].exception):
            r = self.new_ref(Ty("ref", cname), "exc")
            if cname not in self.reg.classes:
                from .contract import ClassDecl
                self.reg.classes[cname] = ClassDecl(cname, bases=[b for b in self.exc.parents.get(cname, []) if b in self.reg.classes or b == "ConductorError"], exception=True)
            self.assume(self.typeof(r) == self.class_id(cname))
            return V(Ty("ref", cname), r)
        if cname not in self.reg.classes:
            raise Unsupported("constructor of undeclared class %s" % cname)
        if cname in T.VALUE_CLASSES:
            return self.construct_value(cname, args, kwargs)
        ctor = self.reg.contract_for("ext", cname)
        if ctor is not None:
            return self.apply_contract(ctor, None, args, kwargs, callee_label=cname)
        init = self.member(cname, "__init__")
        r = self.new_ref(Ty("ref", cname), cname.lower().strip("_"))
        self.assume(self.typeof(r) == self.class_id(cname))
        obj = V(Ty("ref", cname), r)
        if init is not None:
            self.call_function(init[0], "%s.__init__" % init[1], obj, args, kwargs)
        return obj

    def construct_value(self, cname, args, kwargs):
        """Constructor of an immutable value class: __init__ must be `self._f = f` for every declared field."""
        sortname, vfields = T.VALUE_CLASSES[cname]
        init = self.member(cname, "__init__")
        if init is None:
            raise Unsupported("value class %s without __init__" % cname)
        fdef = init[2]
        body = strip_docstring(fdef.body)
        assigned = {}
        for st_ in body:
            ok = (isinstance(st_, ast.Assign) and len(st_.targets) == 1 and isinstance(st_.targets[0], ast.Attribute)
                  and isinstance(st_.targets[0].value, ast.Name) and st_.targets[0].value.id == "self" and isinstance(st_.value, ast.Name))
            if not ok:
                raise SourceError("%s.__init__ is no longer a plain field initialiser (value-class model does not attach)" % cname)
            assigned[st_.targets[0].attr] = st_.value.id
        env = self.bind_args(fdef, NONE_V, args, kwargs)
        terms = []
        for f, tstr in vfields:
            if f not in assigned:
                raise SourceError("%s.__init__ does not initialise %s" % (cname, f))
            terms.append(self.coerce(env[assigned[f]], tstr).t)
        t_ = Ty("val", sortname)
        return V(t_, T.val_mk(t_, terms))

    # ---- repo functions: inline or by contract
    def call_function(self, rel, qualname, selfv, args, kwargs, as_property=False, clsval=None):
        con = self.reg.contract_for(rel, qualname)
        short = qualname.split(".")[-1]
        if short in NOOP_FUNCS and con is None:
            return NONE_V
        cur = self.frame.contract
        if cur is not None and ".".join(qualname.split(".")[-2:]) in cur.prefer_ext:
            ext = self.reg.contract_for("ext", cur.prefer_ext[".".join(qualname.split(".")[-2:])])
            if ext is not None:
                return self.apply_contract(ext, selfv, args, kwargs, clsval=clsval)
        want_inline = cur is not None and (qualname in cur.inline or short in cur.inline)
        fdef = None
        if con is None or want_inline:
            fdef = self.repo.function(rel, qualname)
            body = strip_docstring(fdef.body)
            trivially_pure = len(body) == 1 and isinstance(body[0], ast.Return)
            if want_inline or trivially_pure or (con is None and (as_property or short == '__init__')):
                return self.inline_call(rel, qualname, fdef, selfv, args, kwargs, clsval)
        if con is None:
            con = self.reg.contract_for("ext", ".".join(qualname.split(".")[-2:]))
        if con is None:
            # a repository function without any contract (typically a helper extracted by a refactoring): its real
            # body is executed in place -- exact, hence sound; loops inside it have no invariant and stay Unsupported
            try:
                fdef = fdef or self.repo.function(rel, qualname)
            except SourceError:
                raise Unsupported("no contract for %s::%s (and not inlinable)" % (rel, qualname))
            return self.inline_call(rel, qualname, fdef, selfv, args, kwargs, clsval, auto=True)
        return self.apply_contract(con, selfv, args, kwargs, clsval=clsval)

    def bind_args(self, fdef, selfv, args, kwargs, clsval=None):
        """Python call binding for a real FunctionDef -> {param: value}."""
        decos = [ast.unparse(d) for d in fdef.decorator_list]
        params = list(fdef.args.posonlyargs) + list(fdef.args.args)
        env = {}
        names = [a.arg for a in params]
        i0 = 0
        if "staticmethod" in decos:
            pass
        elif "classmethod" in decos:
            env[names[0]] = clsval if clsval is not None else Py("class", (None, "?"))
            i0 = 1
        elif selfv is not None:
            env[names[0]] = selfv
            i0 = 1
        pos = [a for a in args]
        if any(isinstance(a, tuple) and a and a[0] == "*" for a in pos):
            raise Unsupported("*args at a call to a repo function")
        for nme, v in zip(names[i0:], pos):
            env[nme] = v
        if len(pos) > len(names) - i0:
            raise Unsupported("too many positional args")
        for k, v in kwargs.items():
            if k == "**":
                raise Unsupported("**kwargs at a call to a repo function")
            env[k] = v
        # defaults
        defaults = fdef.args.defaults
        dnames = names[len(names) - len(defaults):] if defaults else []
        for nme, d in zip(dnames, defaults):
            if nme not in env:
                env[nme] = self.ev(d)
        for a, d in zip(fdef.args.kwonlyargs, fdef.args.kw_defaults):
            if a.arg not in env and d is not None:
                env[a.arg] = self.ev(d)
        return env

    def inline_call(self, rel, qualname, fdef, selfv, args, kwargs, clsval=None, auto=False):
        if self.call_depth > 12:
            raise Unsupported("inline depth exceeded at %s" % qualname)
        env = self.bind_args(fdef, selfv, args, kwargs, clsval)
        saved_frame, saved_loc, saved_stmt = self.frame, self.st.loc, self.cur_stmt
        fr = Frame()
        fr.rel, fr.func, fr.fname = rel, fdef, qualname
        fr.cls = qualname.split(".")[0] if "." in qualname else None
        fr.contract = self._inline_contract(saved_frame.contract, rel, qualname)
        fr.loop_ord = self._loop_ordinals(fdef)
        fr.unbound_locals = self._assigned_locals(fdef) - set(env)
        fr.ghost_before, fr.ghost_after = {}, {}
        fr.narrow = None
        fr.auto_inline = auto or getattr(saved_frame, "auto_inline", False)
        self.frame = fr
        self.st.loc = env
        self.call_depth += 1
        try:
            try:
                self.exec_block(strip_docstring(fdef.body))
                return NONE_V
            except ReturnSig as r:
                return r.value
        finally:
            self.call_depth -= 1
            self.frame, self.st.loc, self.cur_stmt = saved_frame, saved_loc, saved_stmt

    def _inline_contract(self, outer, rel, qualname):
        """While inlining, loops of the inlined function take their specs from its own contract if any."""
        con = self.reg.contract_for(rel, qualname)
        if con is not None:
            return con
        c = Contract("%s::%s" % (rel, qualname))
        if outer is not None:
            c.inline = outer.inline
            c.callables = outer.callables
            c.props = outer.props
        return c

    # ---- contracts at call sites
    def contract_param_names(self, con, selfv):
        if con.file != "ext":
            try:
                fdef = self.repo.function(con.file, con.qualname)
                decos = [ast.unparse(d) for d in fdef.decorator_list]
                names = [a.arg for a in fdef.args.posonlyargs + fdef.args.args]
                kwonly = [a.arg for a in fdef.args.kwonlyargs]
                if "staticmethod" not in decos and (con.cls is not None) and names:
                    names = names[1:]
                defaults = {}
                ds = fdef.args.defaults
                for nme, d in zip(names[len(names) - len(ds):] if ds else [], ds):
                    defaults[nme] = d
                for a, d in zip(fdef.args.kwonlyargs, fdef.args.kw_defaults):
                    if d is not None:
                        defaults[a.arg] = d
                return names + kwonly, defaults
            except SourceError:
                pass
        return list(con.params.keys()), {}

    def apply_contract(self, con, selfv, args, kwargs, callee_label=None, clsval=None):
        if not hasattr(self, "applied_contracts"):
            self.applied_contracts = set()
        self.applied_contracts.add(con.target)     # every contract used in place of a body (evidence: trusted base / dependencies)
        label = callee_label or con.short
        names, defaults = self.contract_param_names(con, selfv)
        env = {}
        if selfv is not None:
            env["self"] = selfv
        pos = list(args)
        if getattr(con, "varargs", False):
            pos = [a for a in pos[:len(names)] if not (isinstance(a, tuple) and a and a[0] == "*")]
        if any(isinstance(a, tuple) and a and a[0] == "*" for a in pos):
            raise Unsupported("*args at a call to %s" % label)
        if len(pos) > len(names):
            raise Unsupported("too many positional arguments for %s" % label)
        for nme, v in zip(names, pos):
            env[nme] = v
        for k, v in kwargs.items():
            if k == "**":
                kp = getattr(con, "kwargs_param", None)
                if kp is None:
                    raise Unsupported("**kwargs at a call to %s" % label)
                env[kp] = v
                continue
            if getattr(con, "varargs", False) and k not in con.params:
                continue
            env[k] = v
        for nme in names:
            if nme not in env and nme in defaults:
                env[nme] = self.ev(defaults[nme])
        for nme, dexpr in con.defaults.items():
            if nme not in env:
                env[nme] = self.spec_value(dexpr, {})
        # coerce to declared types
        for nme, tstr in con.params.items():
            if nme in env and isinstance(env[nme], V):
                env[nme] = self.coerce(env[nme], tstr)
            elif nme not in env:
                raise Unsupported("argument %s missing at a call to %s" % (nme, label))
        for g, tstr in con.ghost_params.items():
            env[g] = V(tstr, self.fresh("gp_" + g, sort_of(tstr)))
        # 1. preconditions
        site = header_text(self.cur_stmt) if self.cur_stmt is not None else ""
        for cl in con.requires:
            goal = self.spec(cl.expr, env)
            self.oblige("call %s: requires %s" % (label, cl.label), "pre", goal, cl.props or con.props,
                        text="%s  [at `%s`]" % (cl.expr, site))
        # 2. outcomes
        outcomes = ["normal"] + sorted(con.raises.keys())
        if getattr(con, "noreturn", False):
            outcomes = sorted(con.raises.keys())
            k = self.choose(len(outcomes), "outcome of " + label) + 1
            outcomes = ["normal"] + outcomes
        else:
            k = self.choose(len(outcomes), "outcome of " + label)
        pc_before = list(self.st.glob) + list(self.st.pc)
        old_heap = dict(self.st.heap)
        self.havoc(con.modifies, env, allocates=bool(con.fresh_result or getattr(con, 'allocates', False)))
        saved_old = self.old_heap
        self.old_heap = old_heap
        try:
            if k == 0:
                rt = ty(con.returns)
                if getattr(con, "returns_self", False) and selfv is not None:
                    res = selfv
                elif rt.kind == "none":
                    res = NONE_V
                else:
                    res = V(rt, self.fresh("res_" + label.replace(".", "_"), sort_of(rt)))
                    self.assume_type(res)
                    if con.fresh_result and rt.is_reflike:
                        self.assume(z3.Not(z3.Select(old_heap.get("$alloc", self.alloc_map()), res.t)))
                env["result"] = res
                for cl in con.ensures:
                    self.assume(self.spec(cl.expr, env))
                self.probes.append(("%s::state after call %s at `%s` is consistent" % (self.cur_func, label, site), list(self.st.glob) + list(self.st.pc), pc_before))
                return res
            ename = outcomes[k]
            exact = not ename.endswith("+")
            cname = ename.rstrip("+")
            ev_ = V(Ty("ref", cname if cname in self.reg.classes else "BaseException"), self.new_ref(None, "exc"))
            if exact and cname in self.reg.classes:
                self.assume(self.typeof(ev_.t) == self.class_id(cname))
            env["exc"] = ev_
            for cl in con.raises[ename]:
                self.assume(self.spec(cl.expr, env))
            excluded = ()
            if not exact:
                # the exact outcomes listed beside "X+" are separate cases
                excluded = tuple(k2 for k2 in con.raises if not k2.endswith("+") and k2 != cname and self.exc.issub(k2, cname))
            raise RaiseSig(SymExc(cname, exact=exact, excluded=excluded, val=ev_, origin="call " + label))
        finally:
            self.old_heap = saved_old

    def havoc(self, modifies, env, allocates=False):
        IntS = z3.IntSort()
        # every `X@objs` target denotes an object of the PRE-state: evaluate them all before anything is havoced
        evaluated = {}
        for m in modifies:
            if "@" in m:
                evaluated[m] = [self.spec_value(o.strip(), env) for o in _split_top(m.split("@", 1)[1])]
        for m in modifies:
            if "@" in m:
                key = m.split("@", 1)[0].strip()
                targets = evaluated[m]
            else:
                key, targets = m.strip(), None
            if key in ("list", "deque", "set", "dict"):
                for tv in targets:
                    self.havoc_container(tv)
                continue
            if key.startswith("$g:") or key in self.reg.logic.globals:
                gname = key[3:] if key.startswith("$g:") else key
                t_ = ty(self.reg.logic.globals[gname])
                self.hset("$g:" + gname, self.fresh("g_" + gname, sort_of(t_)))
                continue
            if key == "$alloc":
                allocates = True
                continue
            if key.startswith("region:"):
                rg = "#" + key.split(":", 1)[1]
                for hk in [k_ for k_ in list(self.st.heap) if k_.startswith("$") and k_.endswith(rg)]:
                    self.hset(hk, self.fresh("H_" + hk, self.st.heap[hk].sort()))
                continue
            cname, attr = key.split(".", 1)
            fk = self.field_key(cname, attr)
            if fk is None:
                raise Unsupported("modifies: unknown field %s" % key)
            hk, t_, kind = fk
            arr = self.hget(hk, z3.ArraySort(Ref, sort_of(t_)))
            if targets is None:
                self.hset(hk, self.fresh("H_" + hk, arr.sort()))
            else:
                for tv in targets:
                    arr = z3.Store(arr, tv.t, self.fresh("hv_" + attr, sort_of(t_)))
                self.hset(hk, arr)
        if allocates:
            old = self.alloc_map()
            new = self.fresh("alloc", old.sort())
            r = self.fresh("r", Ref)
            self.assume(z3.ForAll([r], z3.Implies(z3.Select(old, r), z3.Select(new, r))))
            self.hset("$alloc", new)

    def havoc_container(self, tv):
        IntS = z3.IntSort()
        k = tv.ty.kind
        rg = tv.ty.region
        if k in ("list", "deque"):
            key, srt = self.el_key(tv.ty)
            self.hset(key, z3.Store(self.hget(key, srt), tv.t, self.fresh("els", srt.range())))
            if k == "list":
                n = self.fresh("len", IntS)
                self.assume(n >= 0)
                self.hstore(self.k_len(tv.ty), tv.t, n)
            else:
                lo, hi = self.fresh("lo", IntS), self.fresh("hi", IntS)
                self.assume(hi >= lo)
                self.hstore("$dlo" + rg, tv.t, lo)
                self.hstore("$dhi" + rg, tv.t, hi)
        elif k == "set":
            key, srt = self.set_key(tv.ty)
            self.hset(key, z3.Store(self.hget(key, srt), tv.t, self.fresh("mem", srt.range())))
            c = self.fresh("card", IntS)
            self.assume(c >= 0)
            self.set_card(tv, c)
        elif k == "dict":
            dk, ds, mk, ms = self.dict_keys(tv.ty)
            self.hset(dk, z3.Store(self.hget(dk, ds), tv.t, self.fresh("dom", ds.range())))
            self.hset(mk, z3.Store(self.hget(mk, ms), tv.t, self.fresh("map", ms.range())))
            c = self.fresh("card", IntS)
            self.assume(c >= 0)
            self.set_card(tv, c)
        else:
            raise Unsupported("havoc of %r" % (tv.ty,))

    # =================================================================== specifications
    def spec(self, expr, env):
        """Evaluate a specification expression (string) to a z3 Bool in the current state."""
        v = self.spec_value(expr, env)
        return self.truth(v)

    def spec_value(self, expr, env):
        node = _parse_expr(expr)
        saved = self.st.loc
        loc = dict(saved) if self.in_ghost else {}
        loc.update(env)
        self.st.loc = loc
        self.spec_depth += 1
        mark = len(self.st.pc)
        try:
            v = self.ev_spec(node)
        finally:
            self.spec_depth -= 1
            self.st.loc = saved
        return v

    def ev_spec(self, node):
        return self.ev(node)

    def spec_call(self, name, node):
        """Spec-only built-ins. Returns NotImplemented if `name` is not one."""
        a = node.args
        if name == "old":
            return self.in_heap(self.old_heap if self.old_heap is not None else self.entry_heap, a[0], None if self.old_heap is not None else self.entry_loc)
        if name == "at_loop":
            return self.in_heap(self.loop_heap, a[0], None)
        if name == "implies":
            p = self.truth(self.ev(a[0]))
            mark = len(self.st.pc)
            self.st.pc.append(p)
            try:
                q = self.truth(self.ev(a[1]))
                extra = self.st.pc[mark + 1:]
            finally:
                del self.st.pc[mark:]
            return V(T.BOOL, z3.Implies(AND(p, *extra), q))
        if name == "iff":
            return V(T.BOOL, self.truth(self.ev(a[0])) == self.truth(self.ev(a[1])))
        if name == "ite":
            c = self.truth(self.ev(a[0]))
            x, y = self.ev_v(a[1]), self.ev_v(a[2])
            return V(x.ty, z3.If(c, x.t, y.t))
        if name in ("forall", "exists"):
            return self.spec_quant(name == "forall", a)
        if name == "fresh":
            v = self.ev_v(a[0])
            h = self.old_heap if self.old_heap is not None else self.entry_heap
            return V(T.BOOL, z3.Not(z3.Select(h.get("$alloc", self._init_heap.get("$alloc", self.alloc_map())), v.t)))
        if name == "snap_key":
            ks, n, idx, kt = self._last_dict_snapshot
            return V(kt, z3.Select(ks, self.coerce(self.ev_v(a[0]), T.INT).t))
        if name == "witness":
            # witness(x, 'T', cond): obligation exists x. cond ; then a fresh x0 with cond(x0)
            ex = self.spec_quant(False, a)
            self.oblige("a witness exists for %s" % ast.unparse(a[2])[:60], "ghost", ex.t, text=ast.unparse(a[2]))
            t_ = ty(a[1].value if isinstance(a[1], ast.Constant) else ast.unparse(a[1]))
            w = V(t_, self.fresh("wit_" + a[0].id, sort_of(t_)))
            saved = self.st.loc
            self.st.loc = dict(saved)
            self.st.loc[a[0].id] = w
            try:
                self.assume(self.truth(self.ev(a[2])))
            finally:
                self.st.loc = saved
            return w
        if name == "abort_pending":
            # True on the paths on which the asynchronous abort (A-SIG) has been injected
            return V(T.BOOL, z3.BoolVal(getattr(self, "abort_at", None) is not None))
        if name == "allocated":
            v = self.ev_v(a[0])
            return V(T.BOOL, z3.Select(self.alloc_map(), v.t))
        if name == "typeis":
            v = self.ev_v(a[0])
            return V(T.BOOL, self.typeof(v.t) == self.class_id(a[1].id))
        if name == "instance":
            v = self.ev_v(a[0])
            return V(T.BOOL, AND(v.t != NONE, self.isinstance_term(v.t, a[1].id)))
        if name == "unchanged":
            # unchanged('Cls.attr') or unchanged('Cls.attr', o1, o2 ...) = unchanged except at o1, o2
            key = a[0].value
            h0 = self.old_heap if self.old_heap is not None else self.entry_heap
            return V(T.BOOL, self.unchanged(key, h0, [self.ev_v(x) for x in a[1:]]))
        if name == "unchanged_since_loop":
            key = a[0].value
            return V(T.BOOL, self.unchanged(key, self.loop_heap, [self.ev_v(x) for x in a[1:]]))
        if name == "seq_len":
            return V(T.INT, self.seq_len(self.ev_v(a[0])))
        if name == "str_to_int":
            return V(T.INT, z3.StrToInt(self.ev_v(a[0]).t))
        if name == "int_str":
            return V(T.STR, int_to_str(self.ev_v(a[0]).t))
        if name == "join":
            sep, seqv = self.ev_v(a[0]), self.ev_v(a[1])
            n = self.coerce(self.ev_v(a[2]), T.INT).t if len(a) > 2 else self.seq_len(seqv)
            return V(T.STR, join_fn()(sep.t, self.seq_arr(seqv), n))
        if name == "join_strs":
            sep, seqv = self.ev_v(a[0]), self.ev_v(a[1])
            f, _, _ = self.spec_func("%s_str" % seqv.ty.elem.args[0])
            return V(T.STR, join_fn()(sep.t, z3.Map(f, self.seq_arr(seqv)), self.seq_len(seqv)))
        if name == "in_re":
            s = self.ev_v(a[0])
            return V(T.BOOL, z3.InRe(s.t, rx.grammar(a[1].value)))
        if name == "card":
            return V(T.INT, self.card(self.ev_v(a[0])))
        if name == "is_none":
            v = self.ev_v(a[0])
            return V(T.BOOL, self.equal(v, NONE_V))
        if name == "some":
            v = self.ev_v(a[0])
            if v.ty.kind != "opt":
                return v
            return V(v.ty.args[0], T.opt_val(v.ty, v.t))
        if name == "select":
            arr, idx = self.ev_v(a[0]), self.ev_v(a[1])
            if arr.ty.kind == "arr":
                return V(arr.ty.args[1], z3.Select(arr.t, self.coerce(idx, arr.ty.args[0]).t))
            el = V(arr.ty.elem, z3.Select(self.seq_arr(arr), self.seq_base(arr) + idx.t))
            facts = self._elem_facts(el)
            if facts:
                self.assume_global(AND(*facts))
            return el
        if name == "abs_select":
            dq, idx = self.ev_v(a[0]), self.ev_v(a[1])
            el = V(dq.ty.elem, z3.Select(self.seq_arr(dq), idx.t))
            facts = self._elem_facts(el)
            if facts:
                self.assume_global(AND(*facts))
            return el
        if name == "lo":
            return V(T.INT, self.seq_base(self.ev_v(a[0])))
        if name == "hi":
            dq = self.ev_v(a[0])
            return V(T.INT, self.seq_base(dq) + self.seq_len(dq))
        if name == "store":
            arr, idx, val = self.ev_v(a[0]), self.ev_v(a[1]), self.ev_v(a[2])
            return V(arr.ty, z3.Store(arr.t, self.coerce(idx, arr.ty.args[0]).t, self.coerce(val, arr.ty.args[1]).t))
        if name == "const_arr":
            t_ = ty(a[0].value)
            val = self.coerce(self.ev_v(a[1]), t_.args[1])
            return V(t_, z3.K(sort_of(t_.args[0]), val.t))
        if name == "elems":
            lv = self.ev_v(a[0])
            return V(Ty("arr", T.INT, lv.ty.elem), self.seq_arr(lv))
        if name == "lemma":
            return V(T.BOOL, self.lemma_instance(a[0].value, [self.ev_v(x) for x in a[1:]]))
        if name in self.reg.logic.funcs:
            f, ats, rt = self.spec_func(name)
            args = [self.coerce(self.ev_v(x), at).t for x, at in zip(a, ats)]
            return V(rt, f(*args))
        for sig, body in self.reg.logic.macros.items():
            mname, params = _macro_sig(sig)
            if mname == name:
                vals = [self.ev(x) for x in a]
                saved = self.st.loc
                self.st.loc = dict(saved)
                self.st.loc.update(dict(zip(params, vals)))
                try:
                    return self.ev(_parse_expr(body))
                finally:
                    self.st.loc = saved
        return NotImplemented

    def lemma_instance(self, name, args):
        """The statement of a (separately proved) Lemma instantiated with `args` (positional, in `vars` order)."""
        lem = next((l for l in self.reg.logic.lemmas if l.name == name), None)
        if lem is None:
            raise Unsupported("unknown lemma %s" % name)
        names = list(lem.vars)
        if len(args) != len(names):
            raise Unsupported("lemma %s takes %d arguments" % (name, len(names)))
        env = {n: self.coerce(v, lem.vars[n]) for n, v in zip(names, args)}
        hyp = [self.spec(cl.expr, env) for cl in lem.requires]
        con = [self.spec(cl.expr, env) for cl in lem.ensures]
        self.lemmas_used.add(name)
        return z3.Implies(AND(hyp) if hyp else z3.BoolVal(True), AND(con))

    def unchanged(self, key, h0, except_objs):
        allk = set(list(self.st.heap) + list(h0))
        if key.startswith("region:"):
            rg = "#" + key.split(":", 1)[1]
            keys = [k for k in allk if k.startswith("$") and k.endswith(rg)]
        elif key in ("list", "$len"):
            keys = [k for k in allk if k.startswith("$len") or k.startswith("$el:")]
        elif key == "deque":
            keys = [k for k in allk if k.startswith("$dlo") or k.startswith("$dhi") or k.startswith("$el:")]
        elif key == "set":
            keys = [k for k in allk if k.startswith("$set:")]
        elif key == "dict":
            keys = [k for k in allk if k.startswith("$dom:") or k.startswith("$map:")]
        elif key == "containers":
            keys = [k for k in set(list(self.st.heap) + list(h0)) if k.startswith("$") and not k.startswith("$g:") and k not in ("$alloc",) and not k.startswith("$s")]
        else:
            cname, attr = key.split(".", 1)
            fk = self.field_key(cname, attr)
            if fk is None:
                raise Unsupported("unchanged: unknown field %s" % key)
            keys = [fk[0]]
        out = []
        for k in sorted(keys):
            new = self.st.heap.get(k, self._init_heap.get(k))
            old = h0.get(k, self._init_heap.get(k))
            if new is None or old is None or new.get_id() == old.get_id():
                continue
            if not except_objs:
                out.append(new == old)
            else:
                r = self.fresh("r", Ref)
                out.append(z3.ForAll([r], z3.Implies(AND([r != o.t for o in except_objs]), z3.Select(new, r) == z3.Select(old, r))))
        return AND(out) if out else z3.BoolVal(True)

    def in_heap(self, heap, node, loc=None):
        if heap is None:
            raise Unsupported("old()/at_loop() without a saved state")
        saved_h, saved_l = self.st.heap, self.st.loc
        self.st.heap = dict(heap)
        if loc is not None:
            l2 = dict(saved_l)
            for k_, v_ in loc.items():
                if k_ in l2 and k_ in self.frame_params:
                    l2[k_] = v_
            self.st.loc = l2
        try:
            return self.ev(node)
        finally:
            self.st.heap, self.st.loc = saved_h, saved_l

    def spec_quant(self, universal, a):
        var, tnode, body = a[0], a[1], a[2]
        vname = var.id
        tstr = tnode.value if isinstance(tnode, ast.Constant) else ast.unparse(tnode)
        t_ = ty(tstr)
        x = self.fresh("x_" + vname, sort_of(t_))
        xv = V(t_, x)
        saved = self.st.loc
        self.st.loc = dict(saved)
        self.st.loc[vname] = xv
        self.quant_depth += 1
        self.bound_stack.append(x)
        mark = len(self.st.pc)
        try:
            facts = []
            if t_.kind == "ref":
                facts.append(AND(x != NONE, self.isinstance_term(x, t_.args[0])))
            b = self.truth(self.ev(body))
            extra = self.st.pc[mark:]
            del self.st.pc[mark:]
        finally:
            self.quant_depth -= 1
            self.bound_stack.pop()
            self.st.loc = saved
        if universal:
            pats = [self.typeof(x)] if t_.kind == "ref" else []
            return V(T.BOOL, z3.ForAll([x], z3.Implies(AND(*facts, *extra), b), patterns=pats))
        return V(T.BOOL, z3.Exists([x], AND(*facts, *extra, b)))


def _split_top(s):
    out, depth, cur = [], 0, ""
    for ch in s:
        if ch in "([":
            depth += 1
        elif ch in ")]":
            depth -= 1
        if ch == "," and depth == 0:
            out.append(cur)
            cur = ""
        else:
            cur += ch
    if cur.strip():
        out.append(cur)
    return out


_expr_cache = {}


def _parse_expr(s):
    if isinstance(s, ast.AST):
        return s
    if s not in _expr_cache:
        try:
            _expr_cache[s] = ast.parse(s.strip(), mode="eval").body
        except SyntaxError as ex:
            raise ValueError("bad spec expression %r: %s" % (s, ex))
    return _expr_cache[s]


def _macro_sig(sig):
    name, rest = sig.split("(", 1)
    params = [p.strip() for p in rest.rstrip(")").split(",") if p.strip()]
    return name.strip(), params
