"""Statement semantics, loops by invariant, exceptions, function verification driver."""
import ast
import re

import z3

from . import types as T
from .types import AND, OR, Ty, Ref, NONE, sort_of, parse as ty
from .source import SourceError, header_text, strip_docstring
from .contract import Clause, Contract, Loop
from .engine import (V, Py, NONE_V, mk_bool, mk_int, mk_str, Obligation, SymExc, Signal, ReturnSig,
                     BreakSig, ContinueSig, PathEnd, RaiseSig, Unsupported, State)
from .verifier import Verifier, Frame, _parse_expr, NOOP_FUNCS, _split_top

SPEC_ONLY = {"abort_pending", "str_to_int", "witness", "join_strs", "snap_key", "allocated", "abs_select", "lo", "hi", "store", "const_arr", "elems", "lemma", "old", "at_loop", "implies", "iff", "ite", "forall", "exists", "fresh", "typeis", "instance",
             "unchanged", "unchanged_since_loop", "seq_len", "int_str", "join", "in_re", "card", "is_none",
             "some", "select"}


def _is_lemma_shape(node):
    if isinstance(node, ast.Call) and isinstance(node.func, ast.Name):
        f = node.func.id
        if f == "lemma":
            return True
        if f == "forall" and len(node.args) == 3:
            return _is_lemma_shape(node.args[2])
        if f == "implies" and len(node.args) == 2:
            return _is_lemma_shape(node.args[1])
    if isinstance(node, ast.BoolOp) and isinstance(node.op, ast.And):
        return all(_is_lemma_shape(v) for v in node.values)
    return False


def _contains_call(node):
    """Calls and allocating literals (anything that is more than a pure read)."""
    return any(isinstance(n, (ast.Call, ast.List, ast.Dict, ast.Set, ast.ListComp, ast.DictComp, ast.SetComp, ast.GeneratorExp))
               for n in ast.walk(node))


class Exec(Verifier):
    in_ghost = False

    # ------------------------------------------------------------------ calls (spec built-ins first)
    def ev_Call(self, n):
        if isinstance(n.func, ast.Name) and n.func.id not in self.st.loc:
            name = n.func.id
            if self.spec_depth or self.in_ghost or name in self.reg.logic.funcs:
                if name == "use_lemma" and self.in_ghost:
                    self.assume(self.lemma_instance(n.args[0].value, [self.ev_v(x) for x in n.args[1:]]))
                    return NONE_V
                if name == "use" and self.in_ghost:
                    # `use(e)`: e is built only from forall / implies(_, .) / and over lemma(...) instances, hence valid
                    if not _is_lemma_shape(n.args[0]):
                        raise Unsupported("use(...) accepts only quantified / guarded lemma instances")
                    self.assume(self.truth(self.ev(n.args[0])))
                    return NONE_V
                if name == "assume" and self.in_ghost:
                    self.assume(self.truth(self.ev(n.args[0])))
                    self.ghost_assumes.append("%s: assume(%s)" % (self.cur_func, ast.unparse(n.args[0])))
                    return NONE_V
                if name in SPEC_ONLY or name in self.reg.logic.funcs or any(s.split("(")[0].strip() == name for s in self.reg.logic.macros):
                    r = self.spec_call(name, n)
                    if r is not NotImplemented:
                        return r
        return super().ev_Call(n)

    # ------------------------------------------------------------------ blocks / statements
    def exec_block(self, stmts):
        for s in stmts:
            self.exec_stmt(s)

    def exec_stmt(self, s):
        fr = self.frame
        self.cur_stmt = s
        for code in fr.ghost_before.get(id(s), ()):
            self.run_ghost(code)
        self.abort_point(s, "before")
        self.rely_step()
        m = getattr(self, "st_" + type(s).__name__, None)
        if m is None:
            raise Unsupported("statement %s" % type(s).__name__)
        m(s)
        self.cur_stmt = s
        for code in fr.ghost_after.get(id(s), ()):
            self.run_ghost(code)
        self.check_ppi(s)

    def abort_point(self, s, phase):
        con = self.frame.contract
        if con is None or not con.abortable or self.in_ghost or self.spec_depth:
            return
        if isinstance(s, (ast.Pass, ast.FunctionDef)):
            return
        if self.abort_at is not None:
            return          # A-SIG: one abort signal per invocation
        if self.choose(2, "abort %s `%s`" % (phase, header_text(s))) == 1:
            self.abort_at = (self.frame.fname, phase, header_text(s))
            r = self.new_ref(None, "abort")
            self.assume(self.typeof(r) == self.class_id("ConductorAbort"))
            raise RaiseSig(SymExc("ConductorAbort", exact=True, val=V(Ty("ref", "ConductorAbort"), r),
                                  origin="async abort %s `%s`" % (phase, header_text(s))))

    def rely_step(self):
        """Interference by an asynchronous signal handler (rely condition of the contract)."""
        con = self.frame.contract
        if con is None or not getattr(con, "interference", None) or self.in_ghost or self.spec_depth:
            return
        mods, clauses = con.interference
        old_heap = dict(self.st.heap)
        self.havoc(mods, dict(self.st.loc))
        saved = self.old_heap
        self.old_heap = old_heap
        try:
            for cl in clauses:
                self.assume(self.spec(cl, dict(self.st.loc)))
        finally:
            self.old_heap = saved

    def check_ppi(self, s):
        con = self.frame.contract
        if con is None or not con.ppi or self.in_ghost:
            return
        for cl in con.ppi:
            self.oblige("program point after `%s`: %s" % (header_text(s), cl.label), "ppi",
                        self.spec(cl.expr, dict(self.st.loc)), cl.props or con.props, text=cl.expr)

    def run_ghost(self, code):
        saved = self.in_ghost
        self.in_ghost = True
        saved_stmt = self.cur_stmt
        try:
            for g in ast.parse(code).body:
                m = getattr(self, "st_" + type(g).__name__, None)
                if m is None:
                    raise Unsupported("ghost statement %s" % type(g).__name__)
                self.cur_stmt = g
                m(g)
        finally:
            self.in_ghost = saved
            self.cur_stmt = saved_stmt

    def st_Pass(self, s):
        pass

    def st_Expr(self, s):
        if isinstance(s.value, ast.Constant):
            return
        self.ev(s.value)

    def st_Assert(self, s):
        c = self.truth(self.ev(s.test))
        label = "assert %s" % ast.unparse(s.test)
        needs = None
        aprops = ()
        if self.in_ghost and isinstance(s.msg, ast.Constant) and isinstance(s.msg.value, str):
            # `assert cond, 'name'` in ghost code: a named obligation; 'name | needs=a,b' restricts the labelled hypotheses
            parts_ = [x.strip() for x in s.msg.value.split("|")]
            label = "ghost assertion %s" % parts_[0]
            for opt in parts_[1:]:
                if opt.startswith("needs="):
                    needs = [x.strip() for x in opt[6:].split(",") if x.strip()]
                elif opt.startswith("props="):
                    aprops = tuple(x.strip() for x in opt[6:].split(",") if x.strip())
        self.oblige(label, "ghost" if self.in_ghost else "assert", c, aprops, text=ast.unparse(s.test), needs=needs)

    def st_Return(self, s):
        v = self.ev(s.value) if s.value is not None else NONE_V
        raise ReturnSig(v)

    def st_Break(self, s):
        raise BreakSig()

    def st_Continue(self, s):
        raise ContinueSig()

    def st_Global(self, s):
        pass

    def st_Import(self, s):
        pass

    def st_ImportFrom(self, s):
        pass

    def st_Delete(self, s):
        for t in s.targets:
            if isinstance(t, ast.Name):
                self.st.loc.pop(t.id, None)
                self.frame.unbound_locals.add(t.id)
            elif isinstance(t, ast.Subscript):
                base = self.ev_v(t.value)
                if base.ty.kind == "dict":
                    self.dict_del(base, self.ev_v(t.slice))
                else:
                    raise Unsupported("del on %r" % (base.ty,))
            else:
                raise Unsupported("del target")

    def st_FunctionDef(self, s):
        self.st.loc[s.name] = Py("closure", (s, self.st.loc, self.frame))

    def call_closure(self, fn, args, kwargs):
        fdef, env, frame = fn.p
        qual = "%s.%s" % (frame.fname, fdef.name)
        con = self.reg.contract_for(frame.rel, qual)
        want_inline = self.frame.contract is not None and (fdef.name in self.frame.contract.inline or qual in self.frame.contract.inline)
        if con is not None and not want_inline:
            saved = self.st.loc
            # free variables of the nested function are visible in its contract
            self.st.loc = dict(env)
            try:
                names = [a.arg for a in fdef.args.args]
                kw = dict(kwargs)
                for nme, v in zip(names, args):
                    kw[nme] = v
                self.in_ghost, g = True, self.in_ghost     # let the spec see captured locals
                try:
                    return self.apply_contract(con, None, [], kw, callee_label=fdef.name)
                finally:
                    self.in_ghost = g
            finally:
                self.st.loc = saved
        # inline
        benv = dict(env)
        for a, v in zip(fdef.args.args, args):
            benv[a.arg] = v
        for k, v in kwargs.items():
            benv[k] = v
        saved_frame, saved_loc, saved_stmt = self.frame, self.st.loc, self.cur_stmt
        fr = self.make_frame(frame.rel, qual, fdef, self._inline_contract(self.frame.contract, frame.rel, qual), set(benv))
        self.frame, self.st.loc = fr, benv
        self.call_depth += 1
        try:
            try:
                self.exec_block(strip_docstring(fdef.body))
                return NONE_V
            except ReturnSig as r:
                return r.value
        finally:
            self.call_depth -= 1
            self.frame, self.st.loc, self.cur_stmt = saved_frame, saved_loc, saved_stmt

    # ---- assignment
    def target_hint(self, t):
        if isinstance(t, ast.Name):
            con = self.frame.contract
            if con is not None and t.id in con.locals:
                return ty(con.locals[t.id])
            cur = self.st.loc.get(t.id)
            if isinstance(cur, V):
                return cur.ty
            return None
        if isinstance(t, ast.Attribute):
            try:
                base = self.ev(t.value)
            except (Unsupported, PathEnd):
                return None
            if isinstance(base, V) and base.ty.kind == "ref":
                fd = self.field_decl(base.ty.args[0], t.attr)
                if fd:
                    return fd[1]
        return None

    def st_Assign(self, s):
        hint = self.target_hint(s.targets[0]) if len(s.targets) == 1 else None
        self._assign_hint = hint
        try:
            v = self.ev(s.value)
        finally:
            self._assign_hint = None
        if _contains_call(s.value):
            self.abort_point(s, "after-call-before-store")
        for t in s.targets:
            self.bind_target(t, v)

    def st_AnnAssign(self, s):
        if s.value is None:
            return
        hint = None
        if isinstance(s.target, ast.Name):
            con = self.frame.contract
            if con is not None and s.target.id in con.locals:
                hint = ty(con.locals[s.target.id])
        if hint is None:
            hint = self.target_hint(s.target) or self.annotation_type(s.annotation)
        self._assign_hint = hint
        try:
            v = self.ev(s.value)
        finally:
            self._assign_hint = None
        if isinstance(v, V) and hint is not None and not isinstance(s.target, ast.Attribute):
            try:
                v = self.coerce(v, hint)
            except Unsupported:
                pass
        self.bind_target(s.target, v)

    def annotation_type(self, ann):
        txt = ast.unparse(ann).replace("typing.", "")
        txt = txt.replace('"', "").replace("'", "")
        m = {"int": "int", "str": "str", "bool": "bool", "float": "float"}
        try:
            txt2 = txt.replace("Optional[", "Opt[").replace("Sequence[", "Seq[")
            for cname in list(self.reg.classes):
                pass
            t_ = ty(txt2)
            # only accept if all referenced classes are declared
            def ok(t__):
                if t__.kind == "ref":
                    return t__.args[0] in self.reg.classes
                return all(ok(a) for a in t__.args if isinstance(a, Ty))
            return t_ if ok(t_) else None
        except Exception:  # noqa
            return None

    def st_AugAssign(self, s):
        cur = self.ev(ast.copy_location(_load(s.target), s.target))
        rhs = self.ev(s.value)
        node = ast.BinOp(left=ast.Constant(0), op=s.op, right=ast.Constant(0))
        saved_ev = self.ev

        vals = iter([cur, rhs])
        # evaluate the binary operation on the two already computed values
        res = self._binop_values(s.op, cur, rhs)
        self.bind_target(s.target, res)

    def _binop_values(self, op, a, b):
        if a.ty.kind == "str" and isinstance(op, ast.Add):
            return V(T.STR, z3.Concat(a.t, self.coerce(b, T.STR).t))
        a, b = self.coerce(a, T.INT), self.coerce(b, T.INT)
        if isinstance(op, ast.Add):
            return V(T.INT, a.t + b.t)
        if isinstance(op, ast.Sub):
            return V(T.INT, a.t - b.t)
        if isinstance(op, ast.Mult):
            return V(T.INT, a.t * b.t)
        raise Unsupported("augmented assignment operator")

    def bind_target(self, t, v):
        if isinstance(t, ast.Name):
            con = self.frame.contract
            if isinstance(v, V) and con is not None and t.id in con.locals:
                v = self.coerce(v, con.locals[t.id])
            if t.id in self.reg.logic.globals and t.id not in self.st.loc and self.in_ghost:
                gt = ty(self.reg.logic.globals[t.id])
                self.hset("$g:" + t.id, self.coerce(v, gt).t)
                return
            self.st.loc[t.id] = v
            self.frame.unbound_locals.discard(t.id)
            return
        if isinstance(t, ast.Attribute):
            base = self.ev(t.value)
            if isinstance(base, Py) and base.kind == "class":
                fd = self.field_decl(base.p[1], "cls$" + t.attr)
                if fd is None:
                    raise Unsupported("assignment to class attribute %s.%s" % (base.p[1], t.attr))
                self.hset("$cls:%s.%s" % (fd[0], t.attr), self.coerce(v, fd[1]).t)
                return
            if isinstance(base, Py):
                raise Unsupported("attribute assignment on %r" % (base,))
            if base.ty.kind == "opt":
                self.oblige("AttributeError: attribute assignment on None", "safety", z3.Not(T.opt_is_none(base.ty, base.t)))
                base = V(base.ty.args[0], T.opt_val(base.ty, base.t))
            if base.ty.kind != "ref":
                raise Unsupported("attribute assignment on %r" % (base.ty,))
            fd = self.field_decl(base.ty.args[0], t.attr)
            if fd is not None and fd[2] == "ghost" and not self.in_ghost:
                raise Unsupported("real code assigns ghost field %s" % t.attr)
            self.write_field(base, t.attr, v)
            return
        if isinstance(t, ast.Subscript):
            base = self.ev(t.value)
            if isinstance(base, Py) and base.kind == "ext":
                base = self.ext_value(base.p)
            if isinstance(base, Py) or base is None:
                raise Unsupported("subscript assignment")
            idx = self.ev_v(t.slice)
            if base.ty.kind == "opt":
                self.oblige("TypeError: 'NoneType' object does not support item assignment", "safety", z3.Not(T.opt_is_none(base.ty, base.t)))
                base = V(base.ty.args[0], T.opt_val(base.ty, base.t))
            if base.ty.kind == "ref" and self.reg.contract_for("ext", "%s.__setitem__" % base.ty.args[0]) is not None:
                self.call_ext("%s.__setitem__" % base.ty.args[0], base, [idx, v], {})
                return
            if base.ty.kind == "dict":
                self.dict_set(base, idx, v)
                return
            if base.ty.kind == "list":
                i = self.coerce(idx, T.INT).t
                n = self.seq_len(base)
                self.oblige("IndexError: list assignment index out of range", "safety", AND(i >= 0, i < n))
                key, srt = self.el_key(base.ty)
                arr = z3.Store(self.seq_arr(base), i, self.coerce(v, base.ty.elem).t)
                self.hset(key, z3.Store(self.hget(key, srt), base.t, arr))
                return
            raise Unsupported("subscript assignment on %r" % (base.ty,))
        if isinstance(t, (ast.Tuple, ast.List)):
            if isinstance(v, Py):
                raise Unsupported("unpacking of %r" % (v,))
            if v.ty.kind != "tuple" or len(v.ty.args) != len(t.elts):
                raise Unsupported("unpacking of %r into %d targets" % (v.ty, len(t.elts)))
            for i, sub in enumerate(t.elts):
                el = V(v.ty.args[i], T.tuple_get(v.ty, v.t, i))
                self.assume_type(el)
                self.bind_target(sub, el)
            return
        raise Unsupported("assignment target %s" % type(t).__name__)

    # ---- control flow
    def _effect_free(self, stmts):
        """Only calls to cosmetic no-op functions (print_*), possibly under nested ifs."""
        for st_ in stmts:
            if isinstance(st_, ast.Pass):
                continue
            if isinstance(st_, ast.Expr) and isinstance(st_.value, ast.Call):
                f = st_.value.func
                nme = f.id if isinstance(f, ast.Name) else (f.attr if isinstance(f, ast.Attribute) else None)
                if nme in NOOP_FUNCS:
                    continue
                return False
            if isinstance(st_, ast.If) and self._effect_free(st_.body) and self._effect_free(st_.orelse):
                continue
            return False
        return True

    def _exec_guarded(self, guard, stmts):
        """Execute effect-free statements under `guard` without forking (their only purpose here is to
        generate the safety obligations of their argument expressions)."""
        mark = len(self.st.pc)
        self.st.pc.append(guard)
        try:
            for st_ in stmts:
                if isinstance(st_, ast.If):
                    c = self.truth(self.ev(st_.test))
                    self._exec_guarded(c, st_.body)
                    self._exec_guarded(z3.Not(c), st_.orelse)
                elif isinstance(st_, ast.Expr):
                    self.cur_stmt = st_
                    self.ev(st_.value)
        finally:
            extra = self.st.pc[mark + 1:]
            del self.st.pc[mark:]
            for e in extra:
                self.st.pc.append(z3.Implies(guard, e))

    def _simple_assignments(self, stmts):
        """Only assignments / augmented assignments whose right-hand sides contain no calls (if-conversion)."""
        for st_ in stmts:
            if isinstance(st_, ast.Pass):
                continue
            if isinstance(st_, (ast.Assign, ast.AugAssign)) and not _contains_call(st_.value):
                tg = st_.targets if isinstance(st_, ast.Assign) else [st_.target]
                if all(isinstance(t, (ast.Name, ast.Attribute)) and not _contains_call(t) for t in tg):
                    continue
            return False
        return bool(stmts) or True

    def _merge_if(self, c, s):
        """Execute both branches on the same state and merge with ite (no fork). Returns False if not mergeable."""
        st = self.st
        loc0, heap0, mark = dict(st.loc), dict(st.heap), len(st.pc)
        unb0 = set(self.frame.unbound_locals)
        results = []
        for guard, stmts in ((c, s.body), (z3.Not(c), s.orelse)):
            st.loc, st.heap = dict(loc0), dict(heap0)
            self.frame.unbound_locals = set(unb0)
            st.pc.append(guard)
            for st_ in stmts:
                self.cur_stmt = st_
                getattr(self, "st_" + type(st_).__name__)(st_)
            extra = st.pc[mark + 1:]
            del st.pc[mark:]
            results.append((st.loc, st.heap, extra, set(self.frame.unbound_locals)))
        (l1, h1, e1, u1), (l2, h2, e2, u2) = results
        if set(l1) != set(l2) or u1 != u2:
            return None
        loc, heap = {}, {}
        for k in l1:
            a, b = l1[k], l2[k]
            if a is b:
                loc[k] = a
            elif isinstance(a, V) and isinstance(b, V) and a.ty == b.ty:
                loc[k] = a if a.t.get_id() == b.t.get_id() else V(a.ty, z3.If(c, a.t, b.t))
            else:
                return None
        for k in set(h1) | set(h2):
            a, b = h1.get(k, self._init_heap.get(k)), h2.get(k, self._init_heap.get(k))
            if a is None or b is None:
                return None
            heap[k] = a if a.get_id() == b.get_id() else z3.If(c, a, b)
        st.loc, st.heap = loc, heap
        self.frame.unbound_locals = u1
        for e in e1:
            st.pc.append(z3.Implies(c, e))
        for e in e2:
            st.pc.append(z3.Implies(z3.Not(c), e))
        return True

    def st_If(self, s):
        c = self.truth(self.ev(s.test))
        con = self.frame.contract
        cs = z3.simplify(c)
        if self._simple_assignments(s.body) and self._simple_assignments(s.orelse) and not (con is not None and con.abortable) \
                and not z3.is_true(cs) and not z3.is_false(cs) and not self.in_ghost:
            saved = (dict(self.st.loc), dict(self.st.heap), list(self.st.pc), set(self.frame.unbound_locals), len(self.obligations))
            try:
                if self._merge_if(c, s):
                    return
            except (Unsupported, PathEnd):
                pass
            self.st.loc, self.st.heap, self.st.pc = saved[0], saved[1], saved[2]
            self.frame.unbound_locals = saved[3]
            del self.obligations[saved[4]:]
        if self._effect_free(s.body) and self._effect_free(s.orelse) and not (con is not None and con.abortable) \
                and not z3.is_true(z3.simplify(c)) and not z3.is_false(z3.simplify(c)):
            self._exec_guarded(c, s.body)
            self._exec_guarded(z3.Not(c), s.orelse)
            return
        if self.branch(c, "if " + ast.unparse(s.test)[:40]):
            # flow typing: `if isinstance(x.y, C):` narrows x.y to C inside the branch
            t = s.test
            key = None
            if isinstance(t, ast.Call) and isinstance(t.func, ast.Name) and t.func.id == "isinstance" and len(t.args) == 2 \
                    and isinstance(t.args[1], ast.Name) and t.args[1].id in self.reg.classes:
                nar = getattr(self.frame, "narrow", None)
                if nar is None:
                    nar = self.frame.narrow = {}
                key = ast.unparse(t.args[0])
                prev = nar.get(key)
                nar[key] = t.args[1].id
            try:
                self.exec_block(s.body)
            finally:
                if key is not None:
                    if prev is None:
                        self.frame.narrow.pop(key, None)
                    else:
                        self.frame.narrow[key] = prev
        else:
            self.exec_block(s.orelse)

    def st_Raise(self, s):
        if s.exc is None:
            if not self.st.handling:
                raise Unsupported("bare raise outside a handler")
            raise RaiseSig(self.st.handling[-1])
        v = self.ev(s.exc)
        if isinstance(v, Py) and v.kind == "class":
            v = self.construct(v.p, [], {})
        if isinstance(v, Py) and v.kind == "builtin":
            raise RaiseSig(SymExc(v.p, exact=True, origin="raise"))
        if isinstance(v, Py):
            raise Unsupported("raise of %r" % (v,))
        if v.ty.kind == "opt":
            self.oblige("TypeError: raise of None", "safety", z3.Not(T.opt_is_none(v.ty, v.t)))
            v = V(v.ty.args[0], T.opt_val(v.ty, v.t))
        cname = v.ty.args[0] if v.ty.kind == "ref" else "BaseException"
        exact = v.t.get_id() in self.exact_excs
        raise RaiseSig(SymExc(cname, exact=exact, val=v, origin="raise"))

    def construct(self, p, args, kwargs):
        v = super().construct(p, args, kwargs)
        cd = self.reg.classes.get(p[1])
        if cd is not None and cd.exception:
            self.exact_excs.add(v.t.get_id())
        return v

    def handler_names(self, h):
        if h.type is None:
            return ["BaseException"]
        if isinstance(h.type, ast.Tuple):
            return [ast.unparse(e).split(".")[-1] for e in h.type.elts]
        return [ast.unparse(h.type).split(".")[-1]]

    def st_Try(self, s):
        try:
            try:
                self.exec_block(s.body)
            except RaiseSig as r:
                self.handle(s.handlers, r)
            else:
                self.exec_block(s.orelse)
        except (ReturnSig, BreakSig, ContinueSig, RaiseSig):
            if s.finalbody:
                self.exec_block(s.finalbody)
            raise
        else:
            if s.finalbody:
                self.exec_block(s.finalbody)

    def handle(self, handlers, r):
        exc = r.exc
        for h in handlers:
            names = self.handler_names(h)
            caught = None
            for hn in names:
                if self.exc.issub(exc.cls, hn) and not any(self.exc.issub(hn, e) and hn == e for e in ()):  # definitely
                    caught = exc
                    break
                if not exc.exact and self.exc.issub(hn, exc.cls) and not any(self.exc.issub(hn, e) for e in exc.excluded):
                    if self.choose(2, "exception %r is a %s?" % (exc, hn)) == 0:
                        caught = SymExc(hn, exact=False, excluded=exc.excluded, val=exc.val, origin=exc.origin)
                        break
                    exc = SymExc(exc.cls, exact=False, excluded=exc.excluded + (hn,), val=exc.val, origin=exc.origin)
            if caught is not None:
                saved_name = None
                if h.name:
                    cn = caught.cls if caught.cls in self.reg.classes else "BaseException"
                    val = caught.val
                    if val is None:
                        val = V(Ty("ref", cn), self.new_ref(None, "exc"))
                    else:
                        val = V(Ty("ref", cn), val.t)
                    caught = SymExc(caught.cls, caught.exact, caught.excluded, val, caught.origin)
                    self.st.loc[h.name] = val
                    self.frame.unbound_locals.discard(h.name)
                self.st.handling.append(caught)
                try:
                    self.exec_block(h.body)
                finally:
                    self.st.handling.pop()
                    if h.name:
                        self.st.loc.pop(h.name, None)
                return
        raise RaiseSig(exc)

    def st_With(self, s):
        exits = []
        for item in s.items:
            v = self.ev(item.context_expr)
            fname = None
            ce = item.context_expr
            if isinstance(ce, ast.Call):
                fname = ce.func.attr if isinstance(ce.func, ast.Attribute) else (ce.func.id if isinstance(ce.func, ast.Name) else None)
            if fname is None and isinstance(v, V) and v.ty.kind == "ref":
                fname = v.ty.args[0]          # `with obj:` -- the exit effect is the contract ext::with_exit:<class of obj>
            if item.optional_vars is not None:
                self.bind_target(item.optional_vars, v)
            exits.append((fname, v))
        try:
            self.exec_block(s.body)
        except (ReturnSig, BreakSig, ContinueSig, RaiseSig):
            self.with_exit(exits)
            raise
        else:
            self.with_exit(exits)

    def with_exit(self, exits):
        for fname, v in reversed(exits):
            view = fname
            if self.frame.contract is not None and fname in self.frame.contract.prefer_ext:
                view = self.frame.contract.prefer_ext[fname]      # the same call-site view as the `open(...)` call itself
            con = self.reg.contract_for("ext", "with_exit:%s" % view)
            if con is not None:
                self.apply_contract(con, None, [v] if isinstance(v, V) else [], {})

    # ---- loops
    def loop_spec(self, s):
        fr = self.frame
        ordinal = fr.loop_ord.get(id(s))
        spec = fr.contract.loops.get(ordinal) if fr.contract is not None else None
        if spec is not None and spec.header is not None:
            if _norm_header(" ".join(spec.header.split())) != _norm_header(header_text(s)):
                raise SourceError("%s: loop #%s is `%s`, the contract expects `%s`" % (fr.fname, ordinal, header_text(s), spec.header))
        if spec is None and getattr(fr, "auto_inline", False):
            # a loop inside a helper that has no contract at all: executing it with an empty invariant would make every
            # later failure a statement about the missing invariant, not about the code
            raise Unsupported("loop `%s` in %s, which has no contract (no invariant to verify it with)" % (header_text(s), fr.fname))
        return ordinal, spec

    def st_While(self, s):
        ordinal, spec = self.loop_spec(s)
        self.run_loop(s, ordinal, spec, None)

    def st_For(self, s):
        ordinal, spec = self.loop_spec(s)
        src = self.iter_source(self.ev(s.iter))
        con = self.frame.contract
        if con is not None and isinstance(s.iter, ast.Name) and s.iter.id in getattr(con, "one_shot", ()):
            # a parameter documented as an Iterable may be a one-shot iterator (generator, map, file): a second
            # `for` over it sees nothing
            key = "$consumed:" + s.iter.id
            if self.st.loc.get(key) is not None:
                n, elem, chk = src
                src = (z3.IntVal(0), elem, chk)
            self.st.loc[key] = Py("flag", True)
        self.run_loop(s, ordinal, spec, src)

    def iter_source(self, v):
        """-> (n, elem(i) -> value, check_unmodified() or None)."""
        if isinstance(v, Py) and v.kind == "ext":
            v = self.ext_value(v.p)
        if isinstance(v, V) and v.ty.kind in ("list", "seq", "deque"):
            arr, base, n = self.seq_arr(v), self.seq_base(v), self.seq_len(v)
            et = v.ty.elem

            def elem(i):
                return V(et, z3.Select(arr, base + i))

            def unmodified():
                if v.ty.kind == "seq":
                    return None
                return AND(self.seq_len(v) == n, self.seq_arr(v) == arr, self.seq_base(v) == base)
            return n, elem, unmodified
        if isinstance(v, Py) and v.kind == "reversed":
            n, elem, chk = self.iter_source(v.p)
            return n, (lambda i: elem(n - 1 - i)), chk
        if isinstance(v, Py) and v.kind == "range":
            a = v.p
            if len(a) == 1:
                n = z3.If(a[0].t >= 0, a[0].t, 0)
                return n, (lambda i: V(T.INT, i)), None
            if len(a) == 2:
                n = z3.If(a[1].t >= a[0].t, a[1].t - a[0].t, 0)
                return n, (lambda i: V(T.INT, a[0].t + i)), None
        if isinstance(v, V) and v.ty.kind == "dict":
            v = Py("dictview", (v, "keys"))
        if isinstance(v, Py) and v.kind == "dictview":
            d, which = v.p
            return self.dict_snapshot(d, which)
        if isinstance(v, Py) and v.kind == "mapped":
            fn, seq = v.p
            n, elem, chk = self.iter_source(seq)
            return n, (lambda i: self.call(fn, [elem(i)], {})), chk
        raise Unsupported("for-loop over %r" % (v,))

    def dict_snapshot(self, d, which):
        """Iteration order of a dict: a duplicate-free enumeration ks[0..n) of its key set."""
        KT, VT = d.ty.args[:2]
        n = self.card(d)
        self.assume(n >= 0)
        ks = self.fresh("keys", z3.ArraySort(z3.IntSort(), sort_of(KT)))
        dom, mp = self.dict_dom(d), self.dict_map(d)
        i, j = self.fresh("i", z3.IntSort()), self.fresh("j", z3.IntSort())
        k = self.fresh("k", sort_of(KT))
        idx = z3.Function("idx_%d" % self.counter, sort_of(KT), z3.IntSort())
        self.assume(z3.ForAll([i], z3.Implies(AND(i >= 0, i < n), AND(z3.Select(dom, z3.Select(ks, i)), idx(z3.Select(ks, i)) == i))))
        self.assume(z3.ForAll([k], z3.Implies(z3.Select(dom, k), AND(idx(k) >= 0, idx(k) < n, z3.Select(ks, idx(k)) == k))))
        self._last_dict_snapshot = (ks, n, idx, KT)

        def elem(ii):
            key = V(KT, z3.Select(ks, ii))
            if which == "keys":
                return key
            val = V(VT, z3.Select(mp, key.t))
            if which == "values":
                return val
            t_ = Ty("tuple", KT, VT)
            return V(t_, T.tuple_mk(t_, [key.t, val.t]))
        return n, elem, None

    def assigned_names(self, stmts):
        out = set()
        for st_ in stmts:
            for n in ast.walk(st_):
                if isinstance(n, (ast.FunctionDef, ast.Lambda)):
                    continue
                if isinstance(n, ast.Name) and isinstance(n.ctx, (ast.Store, ast.Del)):
                    out.add(n.id)
                if isinstance(n, ast.ExceptHandler) and n.name:
                    out.add(n.name)
        return out

    def run_loop(self, s, ordinal, spec, src):
        label = "loop#%s `%s`" % (ordinal, header_text(s))
        if spec is None:
            spec = Loop(invariant=[], modifies=None)
        props = spec.props or self.frame.contract.props
        idx_name = spec.index or "_i%s" % ordinal
        IntS = z3.IntSort()
        if src is not None:
            n, elem, unmodified = src
            self.st.loc[idx_name] = V(T.INT, z3.IntVal(0))
            self.st.loc["_n%s" % ordinal] = V(T.INT, n)
        saved_loop_heap = getattr(self, "loop_heap", None)
        self.loop_heap = dict(self.st.heap)
        # 1. invariant on entry
        for cl in spec.invariant:
            self.oblige("%s invariant %s holds on entry" % (label, cl.label), "inv-entry",
                        self.spec(cl.expr, dict(self.st.loc)), cl.props or props, text=cl.expr)
        # 2. havoc
        pre_heap = dict(self.st.heap)
        assigned = self.assigned_names(s.body + ([s] if False else []))
        if src is not None:
            assigned |= self.assigned_names([ast.Expr(s.target)]) if False else set(n_.id for n_ in ast.walk(s.target) if isinstance(n_, ast.Name))
        ghost_assigned = set()
        for code_list in list(self.frame.ghost_before.values()) + list(self.frame.ghost_after.values()):
            pass
        for st_ in ast.walk(s):
            for code in self.frame.ghost_before.get(id(st_), []) + self.frame.ghost_after.get(id(st_), []):
                ghost_assigned |= self.assigned_names(ast.parse(code).body)
        for name in sorted(assigned | ghost_assigned):
            cur = self.st.loc.get(name)
            if isinstance(cur, V) and name != idx_name:
                nv = V(cur.ty, self.fresh(name, sort_of(cur.ty)))
                self.st.loc[name] = nv
                self.assume_type(nv)
            elif name in self.reg.logic.globals and name not in self.st.loc:
                gt = ty(self.reg.logic.globals[name])
                self.hset("$g:" + name, self.fresh("g_" + name, sort_of(gt)))
            elif cur is not None and not isinstance(cur, V):
                pass
            elif cur is None and name in self.st.loc:
                pass
        if src is not None:
            iv = self.fresh(idx_name, IntS)
            self.st.loc[idx_name] = V(T.INT, iv)
            self.assume(AND(iv >= 0, iv <= n))
        if spec.modifies is None:
            for k in list(self.st.heap.keys()):
                if k.startswith("$s"):
                    continue
                self.hset(k, self.fresh("H_" + k, self.st.heap[k].sort()))
            self.havoc([], {}, allocates=True)
        else:
            new_regions = ["#" + m.split("@", 1)[1].strip() for m in spec.modifies if m.startswith("new@")]
            new_fields = [m.split(":", 1)[1].strip() for m in spec.modifies if m.startswith("new:")]
            loop_targets = self.frame_targets(spec.modifies, dict(self.st.loc))
            self.havoc([m for m in spec.modifies if not m.startswith("new@") and not m.startswith("new:")], dict(self.st.loc),
                       allocates=('$alloc' in spec.modifies or bool(new_regions) or bool(new_fields)))
            alloc_pre = pre_heap.get("$alloc", self._init_heap.get("$alloc", self.alloc_map()))
            keys = []
            for rg in new_regions:
                keys += [k for k in list(self.st.heap) if k.startswith("$") and k.endswith(rg)]
            for fld in new_fields:
                cname, attr = fld.split(".", 1)
                fk = self.field_key(cname, attr)
                if fk is None:
                    raise Unsupported("modifies new:%s: unknown field" % fld)
                self.hget(fk[0], z3.ArraySort(Ref, sort_of(fk[1])))
                keys.append(fk[0])
            for k in keys:
                old = self.st.heap[k]
                new = self.fresh("H_" + k, old.sort())
                r = self.fresh("r", Ref)
                self.assume(z3.ForAll([r], z3.Implies(z3.Select(alloc_pre, r), z3.Select(new, r) == z3.Select(old, r))))
                self.hset(k, new)
        head_heap = dict(self.st.heap)
        alloc_head = self.alloc_map()
        self.loop_heap = pre_heap
        # 3. assume invariant (each clause is tagged with its label: see Clause.needs)
        if not hasattr(self, "pc_tags"):
            self.pc_tags = {}
        for cl in spec.invariant:
            mark = len(self.st.pc)
            self.assume(self.spec(cl.expr, dict(self.st.loc)))
            for f in self.st.pc[mark:]:
                self.pc_tags[f.get_id()] = cl.label
        dec0 = self.eval_decreases(spec)
        # 4. condition
        if src is None:
            self.abort_point(s, "loop-head")
            enter = self.branch(self.truth(self.ev(s.test)), "while")
        else:
            enter = self.branch(self.st.loc[idx_name].t < n, "for")
        if enter:
            self.probes.append(("%s::%s body reachable" % (self.cur_func, label), list(self.st.glob) + list(self.st.pc)))
            if src is not None:
                el = elem(self.st.loc[idx_name].t)
                if isinstance(el, V):
                    self.assume_type(el)
                self.bind_target(s.target, el)
            try:
                try:
                    self.exec_block(s.body)
                except ContinueSig:
                    pass
                broke = False
            except BreakSig:
                broke = True
            if not broke:
                self.cur_stmt = s
                if src is not None:
                    self.st.loc[idx_name] = V(T.INT, self.st.loc[idx_name].t + 1)
                    if unmodified is not None:
                        u = unmodified()
                        if u is not None:
                            self.oblige("%s: the iterated container is not modified by the body" % label, "safety", u, props)
                for cl in spec.invariant:
                    self.oblige("%s invariant %s is preserved" % (label, cl.label), "inv-preserve",
                                self.spec(cl.expr, dict(self.st.loc)), cl.props or props, text=cl.expr, needs=cl.needs, own=cl.label)
                if dec0 is not None:
                    dec1 = self.eval_decreases(spec)
                    self.oblige("%s variant decreases" % label, "decreases", _lex_less(dec1, dec0), props, text=str(spec.decreases))
                # frame: heap locations outside `modifies` are untouched (targets as evaluated at the loop head)
                if spec.modifies is not None:
                    self.frame_obligations(label, spec.modifies, loop_targets, head_heap, alloc_head, props)
                self.loop_heap = saved_loop_heap
                raise PathEnd()
            self.loop_heap = saved_loop_heap
            return
        self.loop_heap = saved_loop_heap
        if s.orelse:
            self.exec_block(s.orelse)

    # ------------------------------------------------------------------ precise frames
    def frame_targets(self, modifies, env):
        """Evaluate NOW (entry of the function / head of the loop) the objects named by the `X@objs` entries of a
        modifies list -> {entry string: [values]}."""
        out = {}
        for m in modifies or ():
            if "@" in m and not m.startswith("new@"):
                objs = m.split("@", 1)[1]
                mark = len(self.st.pc)
                n_obl = len(self.obligations)
                try:
                    out[m] = [self.spec_value(o.strip(), env) for o in _split_top(objs)]
                except (Signal, Unsupported, KeyError):
                    # names a local that does not exist yet (a container the function creates itself): such objects
                    # are not allocated in the reference state, so they need no entry in the frame
                    out[m] = []
                    del self.st.pc[mark:]
                    del self.obligations[n_obl:]
        return out

    _CONT_PREF = {"list": ("$len", "$el:"), "deque": ("$dlo", "$dhi", "$el:"), "set": ("$set:", "$card"),
                  "dict": ("$dom:", "$map:", "$card")}

    def frame_allowed(self, hkey, modifies, targets):
        """None: the whole heap map `hkey` may change; otherwise the list of Ref terms at which it may change."""
        allowed = []
        for m in modifies or ():
            if m.startswith("new@") or m.startswith("new:"):
                continue
            key = m.split("@")[0].strip()
            if key == "$alloc":
                if hkey == "$alloc":
                    return None
                continue
            if key.startswith("region:"):
                if hkey.startswith("$") and hkey.endswith("#" + key.split(":", 1)[1]):
                    return None
                continue
            if key.startswith("$g:") or key in self.reg.logic.globals:
                gname = key[3:] if key.startswith("$g:") else key
                if hkey == "$g:" + gname:
                    return None
                continue
            if key in self._CONT_PREF:
                for tv in targets.get(m, []):
                    rg = tv.ty.region
                    if any(hkey.startswith(p_) for p_ in self._CONT_PREF[key]) and (hkey.endswith(rg) if rg else "#" not in hkey):
                        allowed.append(tv.t)
                continue
            if "." in key:
                cname, attr = key.split(".", 1)
                fk = self.field_key(cname, attr)
                if fk is not None and fk[0] == hkey:
                    if "@" in m:
                        allowed += [tv.t for tv in targets.get(m, [])]
                    else:
                        return None
        if hkey == "$alloc":
            return None
        return allowed

    def frame_obligations(self, label, modifies, targets, h0map, alloc0, props, kind="frame"):
        """For every heap map that differs from `h0map`: it may differ only where `modifies` allows, or at objects that
        were not allocated in the reference state (fresh objects are invisible to the caller / the previous iteration)."""
        goals, keys = [], []
        for k, term in list(self.st.heap.items()):
            h0 = h0map.get(k, self._init_heap.get(k))
            if h0 is None and k.startswith("$g:"):
                # a ghost global that was first touched by a callee's effect: it has no recorded initial value, but it
                # HAS been assigned -- it must be listed
                if self.frame_allowed(k, modifies, targets) is not None:
                    keys.append(k)
                    goals.append(z3.BoolVal(False))
                continue
            if h0 is None or term.get_id() == h0.get_id():
                continue
            allowed = self.frame_allowed(k, modifies, targets)
            if allowed is None:
                continue
            keys.append(k)
            if not (z3.is_array(term) and term.sort().domain() == Ref):
                goals.append(term == h0)
                continue
            r = self.fresh("r", Ref)
            guard = [z3.Select(alloc0, r)] + [r != a for a in allowed]
            goals.append(z3.ForAll([r], z3.Implies(AND(*guard), z3.Select(term, r) == z3.Select(h0, r))))
        if goals:
            # one obligation per exit / iteration (the conjunction over the heap maps that changed); pyvc.explain splits it
            self.oblige("%s frame: nothing outside `modifies` changes (%d heap maps: %s)" % (label, len(keys), ", ".join(sorted(keys))[:160]),
                        kind, AND(*goals) if len(goals) > 1 else goals[0], props, nosplit=True)

    def _in_modifies(self, hkey, modifies):
        for m in modifies:
            key = m.split("@")[0].strip()
            if key == "$alloc" and hkey == "$alloc":
                return True
            if key.startswith("region:") and hkey.startswith("$") and hkey.endswith("#" + key.split(":", 1)[1]):
                return True
            if key in ("list", "deque", "set", "dict") and "@" in m:
                # region of the named container(s): every heap map of that region may change
                try:
                    for o in m.split("@", 1)[1].split(","):
                        tv = self.spec_value(o.strip(), dict(self.st.loc))
                        rg = tv.ty.region
                        pref = {"list": ("$len", "$el:"), "deque": ("$dlo", "$dhi", "$el:"), "set": ("$set:", "$card"),
                                "dict": ("$dom:", "$map:", "$card")}[key]
                        if any(hkey.startswith(p_) for p_ in pref) and (hkey.endswith(rg) if rg else "#" not in hkey):
                            return True
                except Exception:  # noqa
                    pass
            if key in self.reg.logic.globals and hkey == "$g:" + key:
                return True
            if "." in key:
                cname, attr = key.split(".", 1)
                fk = self.field_key(cname, attr)
                if fk is not None and fk[0] == hkey:
                    return True
        return hkey == "$alloc"

    def eval_decreases(self, spec):
        if spec.decreases is None:
            return None
        exprs = spec.decreases if isinstance(spec.decreases, (list, tuple)) else [spec.decreases]
        return [self.coerce(self.spec_value(e, dict(self.st.loc)), T.INT).t for e in exprs]

    # ------------------------------------------------------------------ frames
    def _loop_ordinals(self, fdef):
        out, k = {}, 0
        stack = list(reversed(fdef.body))
        # pre-order over statements, not descending into nested function definitions

        def walk(stmts):
            nonlocal k
            for st_ in stmts:
                if isinstance(st_, (ast.FunctionDef, ast.ClassDef)):
                    continue
                if isinstance(st_, (ast.While, ast.For)):
                    out[id(st_)] = k
                    k += 1
                for fld in ("body", "orelse", "finalbody"):
                    sub = getattr(st_, fld, None)
                    if sub:
                        walk(sub)
                for h in getattr(st_, "handlers", []) or []:
                    walk(h.body)
        walk(fdef.body)
        return out

    def _assigned_locals(self, fdef):
        names = set()

        def walk(stmts):
            for st_ in stmts:
                if isinstance(st_, (ast.FunctionDef, ast.ClassDef)):
                    names.add(st_.name)
                    continue
                for n in ast.iter_child_nodes(st_):
                    pass
                for n in _walk_no_nested(st_):
                    if isinstance(n, ast.Name) and isinstance(n.ctx, ast.Store):
                        names.add(n.id)
                    if isinstance(n, ast.ExceptHandler) and n.name:
                        names.add(n.name)
        walk(fdef.body)
        return names

    def make_frame(self, rel, qualname, fdef, con, bound):
        fr = Frame()
        fr.rel, fr.func, fr.fname, fr.contract = rel, fdef, qualname, con
        fr.cls = con.cls if con is not None else None
        fr.loop_ord = self._loop_ordinals(fdef)
        fr.unbound_locals = self._assigned_locals(fdef) - set(bound)
        fr.ghost_before, fr.ghost_after = {}, {}
        fr.narrow = None
        if con is not None and con.ghost:
            stmts = [n for n in _walk_stmts(fdef.body)]
            for g in con.ghost:
                if g.where == "exit":
                    continue
                if g.anchor.startswith("call:"):
                    # the simple statement that calls a function / method of this name, whatever the receiver expression,
                    # the arguments or the variable the result is bound to (robust against caching / renaming refactorings)
                    cname = g.anchor[5:]
                    hits = [st_ for st_ in stmts if isinstance(st_, (ast.Expr, ast.Assign, ast.AnnAssign, ast.AugAssign, ast.Return))
                            and any(isinstance(n_, ast.Call) and ((isinstance(n_.func, ast.Attribute) and n_.func.attr == cname)
                                                                   or (isinstance(n_.func, ast.Name) and n_.func.id == cname))
                                    for n_ in _walk_no_nested(st_))]
                elif g.anchor.endswith("..."):
                    hits = [st_ for st_ in stmts if header_text(st_).startswith(g.anchor[:-3])]
                else:
                    hits = [st_ for st_ in stmts if header_text(st_) == g.anchor]
                if len(hits) <= g.occurrence and g.optional:
                    # the ghost code is not executed: state it would have set is out of date (reported to the driver)
                    if not hasattr(self, "stale_notes"):
                        self.stale_notes = set()
                    self.stale_notes.add("%s: optional ghost anchor `%s` not found in the real source" % (qualname, g.anchor))
                    continue
                if len(hits) <= g.occurrence:
                    raise SourceError("%s: ghost anchor `%s` (occurrence %d) not found in the real source" % (qualname, g.anchor, g.occurrence))
                tgt = hits[g.occurrence]
                (fr.ghost_before if g.where == "before" else fr.ghost_after).setdefault(id(tgt), []).append(g.code)
        return fr

    def inline_call(self, rel, qualname, fdef, selfv, args, kwargs, clsval=None, auto=False):
        if self.call_depth > 12:
            raise Unsupported("inline depth exceeded at %s" % qualname)
        env = self.bind_args(fdef, selfv, args, kwargs, clsval)
        saved_frame, saved_loc, saved_stmt = self.frame, self.st.loc, self.cur_stmt
        con = self._inline_contract(saved_frame.contract, rel, qualname)
        # parameters take their declared types, if the inlined function has a contract
        for nme, tstr in con.params.items():
            if nme in env and isinstance(env[nme], V):
                env[nme] = self.coerce(env[nme], tstr)
        fr = self.make_frame(rel, qualname, fdef, con, set(env))
        fr.auto_inline = auto or getattr(saved_frame, "auto_inline", False)
        self.frame = fr
        self.st.loc = env
        self.call_depth += 1
        try:
            try:
                self.exec_block(strip_docstring(fdef.body))
                return NONE_V
            except ReturnSig as r:
                return r.value
        finally:
            self.call_depth -= 1
            self.frame, self.st.loc, self.cur_stmt = saved_frame, saved_loc, saved_stmt

    # ------------------------------------------------------------------ function verification
    def verify(self, con, max_paths=4000):
        """Verify the real body of con's function against con. Returns a result dict."""
        fdef = self.repo.function(con.file, con.qualname)
        self.cur_func = con.qualname
        self.cur_props = con.props
        self.obligations, self.probes, self.trivial = [], [], 0
        self.ghost_assumes = []
        self.lemmas_used = set()
        self.path_log = []
        choices = []
        paths = 0
        ends = 0
        while True:
            paths += 1
            if paths > max_paths:
                raise Unsupported("%s: more than %d paths" % (con.qualname, max_paths))
            self.reset_run(choices)
            self.exact_excs = set()
            self.abort_at = None
            outcome = self.run_path(con, fdef)
            if outcome != "pruned":
                ends += 1
            self.path_log.append((list(self.choices[:self.pos]), outcome))
            # next choice sequence
            ch, ar = self.choices[:self.pos], self.arity[:self.pos]
            while ch and ch[-1] + 1 >= ar[len(ch) - 1]:
                ch.pop()
            if not ch:
                break
            ch[-1] += 1
            choices = ch
        # de-duplicate
        seen, obls = set(), []
        for o in self.obligations:
            k = o.key()
            if k not in seen:
                seen.add(k)
                obls.append(o)
        pseen, probes = set(), []
        for pr in self.probes:
            nme, pc = pr[0], pr[1]
            k = (nme, tuple(p.get_id() for p in pc))
            if k not in pseen:
                pseen.add(k)
                probes.append(pr)
        return {"obligations": obls, "probes": probes, "paths": paths, "path_ends": ends, "trivial": self.trivial,
                "ghost_assumes": sorted(set(self.ghost_assumes)), "applied_contracts": sorted(getattr(self, "applied_contracts", ())),
                "stale_notes": sorted(getattr(self, "stale_notes", ()))}

    def run_path(self, con, fdef):
        decos = [ast.unparse(d) for d in fdef.decorator_list]
        names = [a.arg for a in fdef.args.posonlyargs + fdef.args.args] + [a.arg for a in fdef.args.kwonlyargs]
        env = {}
        try:
            # logic axioms
            for cl in self.reg.logic.axioms:
                if cl.label in con.uses:
                    self.frame = _dummy_frame(con)
                    self.assume(self.spec(cl.expr, {}))
            i0 = 0
            for l2 in self.reg.logic.lemmas:
                if l2.name in con.uses:
                    self.frame = _dummy_frame(con)
                    self.assume(lemma_formula(self, l2))
                    self.lemmas_used.add(l2.name)
            self.frame = _dummy_frame(con)
            if con.cls is not None and "staticmethod" not in decos and names:
                if "classmethod" in decos:
                    env[names[0]] = Py("class", (con.file, con.cls))
                else:
                    st_ = con.self_type or con.cls
                    sty = ty(st_)
                    sv = V(sty, self.fresh("self", sort_of(sty)))
                    self.assume_type(sv)
                    env[names[0]] = sv
                i0 = 1
            for nme in names[i0:]:
                if nme not in con.params:
                    raise Unsupported("%s: no declared type for parameter %s" % (con.qualname, nme))
                t_ = ty(con.params[nme])
                pv = V(t_, self.fresh(nme, sort_of(t_)))
                self.assume_type(pv)
                env[nme] = pv
            if fdef.args.kwarg is not None:
                kn = fdef.args.kwarg.arg
                if kn in con.params:
                    t_ = ty(con.params[kn])
                    pv = V(t_, self.fresh(kn, sort_of(t_)))
                    self.assume_type(pv)
                    env[kn] = pv
                else:
                    raise Unsupported("%s: **%s needs a declared type" % (con.qualname, kn))
            for g, tstr in con.ghost_params.items():
                env[g] = V(tstr, self.fresh("gp_" + g, sort_of(tstr)))
            # captured variables of a nested function
            for nme, tstr in con.params.items():
                if nme not in env:
                    t_ = ty(tstr)
                    pv = V(t_, self.fresh(nme, sort_of(t_)))
                    self.assume_type(pv)
                    env[nme] = pv
            self.frame = self.make_frame(con.file, con.qualname, fdef, con, set(env))
            self.frame_params = set(env)
            self.st.loc = env
            if not hasattr(self, "pc_tags"):
                self.pc_tags = {}
            for cl in con.requires:
                mark = len(self.st.pc)
                self.assume(self.spec(cl.expr, dict(env)))
                for f in self.st.pc[mark:]:
                    self.pc_tags[f.get_id()] = cl.label
            self.entry_heap = dict(self.st.heap)
            self.entry_loc = dict(env)
            self.entry_targets = self.frame_targets(con.modifies, dict(env))
            self.entry_alloc = self.alloc_map()
            self.probes.append(("%s::entry (requires satisfiable)" % con.qualname, list(self.st.glob) + list(self.st.pc)))
            try:
                self.exec_block(strip_docstring(fdef.body))
                res = NONE_V
            except ReturnSig as r:
                res = r.value
            self.check_post(con, res)
            return "return"
        except RaiseSig as r:
            try:
                self.check_raise(con, r.exc)
            except PathEnd:
                pass
            return "raise %r" % (r.exc,)
        except PathEnd:
            return "pruned"
        except (BreakSig, ContinueSig):
            raise Unsupported("break/continue outside loop")

    def check_post(self, con, res):
        for g in con.ghost:
            if g.where == "exit":
                self.run_ghost(g.code)
        env = dict(self.st.loc)
        for k, v in self.entry_loc.items():
            env[k] = v
        rt = ty(con.returns)
        if rt.kind != "none" and isinstance(res, V):
            res = self.coerce(res, rt)
        env["result"] = res
        self.old_heap = None
        self.probes.append(("%s::normal exit reachable" % con.qualname, list(self.st.glob) + list(self.st.pc)))
        for cl in con.ensures:
            self.oblige("ensures %s" % cl.label, "post", self.spec(cl.expr, env), cl.props or con.props, text=cl.expr, needs=cl.needs)
        self.frame_obligations("modifies", con.modifies, self.entry_targets, self.entry_heap, self.entry_alloc, con.props)

    def check_raise(self, con, exc):
        env = dict(self.st.loc)
        for k, v in self.entry_loc.items():
            env[k] = v
        if exc.val is not None:
            env["exc"] = exc.val
        self.old_heap = None
        tag = ""
        if self.abort_at is not None:
            tag = " [abort %s `%s`]" % (self.abort_at[1], self.abort_at[2][:70])
        self.frame_obligations("modifies (exit by %s%s)" % (exc.cls, tag), con.modifies, self.entry_targets, self.entry_heap, self.entry_alloc, con.props)
        matched = None
        for key in con.raises:
            kn = key.rstrip("+")
            if key.endswith("+"):
                if self.exc.issub(exc.cls, kn):
                    matched = key
                    break
            elif exc.cls == kn and (exc.exact or True):
                matched = key
                break
        if matched is None:
            if con.allow_any_exception:
                return
            self.oblige("no %s escapes (%s)%s" % (exc.cls + ("" if exc.exact else " or subclass"), exc.origin, tag), "exc",
                        z3.BoolVal(False), con.props, text="exceptions allowed to escape: %s" % (sorted(con.raises) or "none"))
            return
        for cl in con.raises[matched]:
            self.oblige("on %s: %s%s" % (matched, cl.label, tag), "exc-post", self.spec(cl.expr, env), cl.props or con.props, text=cl.expr)


def verify_lemma(eng, lem):
    """-> (obligations, probes) for a Lemma; with `induction` = name of an int variable: base and step VCs."""
    from .contract import Contract
    con = Contract("ext::lemma." + lem.name, props=lem.props)
    eng.cur_func = "lemma " + lem.name
    eng.cur_props = lem.props
    eng.opaque_defs = False
    eng._funcs = {}
    eng.obligations, eng.probes, eng.trivial, eng.ghost_assumes = [], [], 0, []
    eng.lemmas_used = set()
    eng.reset_run([])
    eng.exact_excs = set()
    eng.frame = _dummy_frame(con)
    eng.frame_params = set()
    eng.entry_heap, eng.entry_loc = {}, {}
    eng.cur_stmt = None
    for cl in eng.reg.logic.axioms:
        if cl.label in lem.uses:
            eng.assume(eng.spec(cl.expr, {}))
    for l2 in eng.reg.logic.lemmas:
        if l2.name in lem.uses:
            eng.assume(lemma_formula(eng, l2))
    base_pc0 = list(eng.st.pc)

    def fresh_env(fixed=None):
        env = {}
        for nme, tstr in lem.vars.items():
            if fixed and nme in fixed:
                env[nme] = fixed[nme]
                continue
            t_ = ty(tstr)
            pv = V(t_, eng.fresh(nme, sort_of(t_)))
            eng.assume_type(pv)
            env[nme] = pv
        return env

    def prove(tag, env):
        for cl in lem.requires:
            eng.assume(eng.spec(cl.expr, env))
        if "[base" not in tag:      # a base case may legitimately be vacuous
            eng.probes.append(("lemma %s%s hypotheses satisfiable" % (lem.name, tag), list(eng.st.glob) + list(eng.st.pc)))
        pc1 = list(eng.st.pc)
        for cl in lem.ensures:
            eng.st.pc = list(pc1)
            eng.oblige("lemma %s%s: %s" % (lem.name, tag, cl.label), "lemma", eng.spec(cl.expr, env), lem.props, text=cl.expr)

    if lem.induction is None:
        prove("", fresh_env())
    else:
        n = lem.induction
        # base
        eng.st.pc = list(base_pc0)
        prove(" [base %s=0]" % n, fresh_env({n: V(T.INT, z3.IntVal(0))}))
        # step
        eng.st.pc = list(base_pc0)
        k = eng.fresh("k", z3.IntSort())
        eng.assume(k >= 0)
        # induction hypothesis: the lemma for n := k, all other variables universally quantified
        mark = len(eng.st.pc)
        ih_env = fresh_env({n: V(T.INT, k)})
        type_facts = eng.st.pc[mark:]
        del eng.st.pc[mark:]
        hyp = [eng.spec(cl.expr, ih_env) for cl in lem.requires]
        conc = [eng.spec(cl.expr, ih_env) for cl in lem.ensures]
        extra = eng.st.pc[mark:]
        del eng.st.pc[mark:]
        bound = [v.t for nme, v in ih_env.items() if nme != n]
        body = z3.Implies(AND(*type_facts, *hyp, *extra) if (type_facts or hyp or extra) else z3.BoolVal(True), AND(conc))
        eng.assume(z3.ForAll(bound, body) if bound else body)
        prove(" [step %s=k+1]" % n, fresh_env({n: V(T.INT, k + 1)}))
    return eng.obligations, eng.probes


def lemma_formula(eng, lem):
    """forall vars. requires => ensures, as a closed z3 formula (used where a contract / lemma `uses` it)."""
    mark = len(eng.st.pc)
    env = {}
    for nme, tstr in lem.vars.items():
        t_ = ty(tstr)
        env[nme] = V(t_, eng.fresh(nme, sort_of(t_)))
    hyp = [eng.spec(cl.expr, env) for cl in lem.requires]
    conc = [eng.spec(cl.expr, env) for cl in lem.ensures]
    extra = eng.st.pc[mark:]
    del eng.st.pc[mark:]
    body = z3.Implies(AND(*hyp, *extra) if (hyp or extra) else z3.BoolVal(True), AND(conc))
    return z3.ForAll([v.t for v in env.values()], body)


def _dummy_frame(con):
    fr = Frame()
    fr.rel, fr.func, fr.fname, fr.contract, fr.cls = con.file if con.file != "ext" else None, None, con.qualname, con, con.cls
    fr.loop_ord, fr.unbound_locals, fr.ghost_before, fr.ghost_after = {}, set(), {}, {}
    fr.narrow = None
    return fr


def _norm_header(h):
    """`while len(x) > 0:` / `while len(x) != 0:` / `while len(x):` / `while x:` are the same loop (truth value of a container)."""
    return re.sub(r"^while len\(([\w\.]+)\)(?: > 0| != 0| >= 1)?:$", r"while \1:", h)


def _walk_no_nested(node):
    todo = [node]
    while todo:
        n = todo.pop()
        yield n
        for c in ast.iter_child_nodes(n):
            if isinstance(c, (ast.FunctionDef, ast.Lambda, ast.ClassDef)):
                continue
            todo.append(c)


def _walk_stmts(stmts):
    for st_ in stmts:
        yield st_
        if isinstance(st_, (ast.FunctionDef, ast.ClassDef)):
            continue
        for fld in ("body", "orelse", "finalbody"):
            sub = getattr(st_, fld, None)
            if sub:
                yield from _walk_stmts(sub)
        for h in getattr(st_, "handlers", []) or []:
            yield from _walk_stmts(h.body)


def _load(target):
    t = ast.parse(ast.unparse(target), mode="eval").body
    return t


def _lex_less(a, b):
    """a < b lexicographically on naturals (b >= 0 componentwise)."""
    if len(a) == 1:
        return AND(b[0] >= 0, a[0] < b[0])
    return OR(AND(b[0] >= 0, a[0] < b[0]), AND(a[0] == b[0], _lex_less(a[1:], b[1:])))
