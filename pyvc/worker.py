"""Worker-process entry points: symbolic execution of one function / lemma -> SMT-LIB texts (picklable)."""
import sys
import traceback

from .source import Repo, SourceError
from .contract import Registry, Contract
from .stmts import Exec, verify_lemma
from .engine import Unsupported
from . import solve

_REG = None


def registry():
    global _REG
    if _REG is None:
        _REG = Registry().load_package("contracts")
    return _REG


def _pack(obls, probes, prop):
    out = []
    for o in obls:
        if prop is None or prop in o.props:
            out.append({"name": o.name, "kind": o.kind, "at": o.where, "clause": o.text, "props": list(o.props),
                        "smt2": solve.to_smt2(o.pc, o.goal, get_model=True),
                        "core": solve.to_smt2(o.pc[o.nglob:], o.goal) if getattr(o, "nglob", 0) else None})
    pr = []
    for p in probes:
        pr.append({"name": p[0], "pc": solve.to_smt2(p[1]), "base": solve.to_smt2(p[2]) if len(p) > 2 and p[2] is not None else None})
    return out, pr


def verify_target(args):
    """args = (kind, name, prop) with kind in {'function', 'lemma'} -> dict (all strings)."""
    kind, name, prop = args
    reg = registry()
    repo = Repo()
    try:
        eng = Exec(repo, reg)
        if kind == "function":
            con = reg.contracts[name]
            res = eng.verify(con)
            if len(res["obligations"]) + res["trivial"] == 0:
                return {"target": name, "status": "error", "reason": "the function generated no obligation at all (%d path(s)): the contract did not attach" % res["paths"]}
            obls, probes = _pack(res["obligations"], res["probes"], prop)
            return {"target": name, "status": "ok", "obligations": obls, "probes": probes, "paths": res["paths"],
                    "n_all": len(res["obligations"]), "trivial": res["trivial"], "ghost_assumes": res["ghost_assumes"],
                    "lemmas_used": sorted(eng.lemmas_used)}
        lem = next(l for l in reg.logic.lemmas if l.name == name)
        lobl, lprobes = verify_lemma(eng, lem)
        obls, probes = _pack(lobl, lprobes, None)
        return {"target": "lemma " + name, "status": "ok", "obligations": obls, "probes": probes, "paths": 1,
                "n_all": len(lobl), "trivial": eng.trivial, "ghost_assumes": [], "lemmas_used": list(lem.uses)}
    except (Unsupported, SourceError) as ex:
        return {"target": name, "status": "undecided", "reason": "%s: %s" % (type(ex).__name__, ex)}
    except Exception:  # noqa
        return {"target": name, "status": "error", "reason": traceback.format_exc()[-1500:]}
