"""Worker-process entry points: symbolic execution of one function / lemma -> SMT-LIB texts (picklable)."""
import sys
import traceback

from .source import Repo, SourceError
from .contract import Registry, Contract
from .stmts import Exec, verify_lemma
from .engine import Unsupported
from . import solve

_REG = None


def registry():
    global _REG
    if _REG is None:
        _REG = Registry().load_package("contracts")
    return _REG


def _pack_one(o):
    txt = solve.to_smt2(o.pc, o.goal, get_model=True)
    return {"name": o.name, "kind": o.kind, "at": o.where, "clause": o.text, "props": list(o.props),
            "smt2": txt, "core": solve.core_text(txt, getattr(o, "nglob", 0))}


def _pack_forked(sel, n):
    """Serialising a VC to SMT-LIB text costs ~30 ms: for functions with many obligations do it in n forked children
    (each handles every n-th obligation and hands its texts back through a temporary file)."""
    import os, pickle, tempfile
    d = tempfile.mkdtemp(prefix="pyvc-pack-")
    pids = []
    for k in range(n):
        pid = os.fork()
        if pid == 0:
            code = 1
            try:
                part = [(i, _pack_one(o)) for i, o in enumerate(sel) if i % n == k]
                with open(os.path.join(d, "%d.pkl" % k), "wb") as f:
                    pickle.dump(part, f)
                code = 0
            finally:
                os._exit(code)
        pids.append(pid)
    ok = True
    for pid in pids:
        _, st = os.waitpid(pid, 0)
        ok = ok and st == 0
    out = [None] * len(sel)
    try:
        if ok:
            for k in range(n):
                with open(os.path.join(d, "%d.pkl" % k), "rb") as f:
                    for i, rec in pickle.load(f):
                        out[i] = rec
    finally:
        import shutil
        shutil.rmtree(d, ignore_errors=True)
    if not ok or any(x is None for x in out):
        return [_pack_one(o) for o in sel]
    return out


def _pack(obls, probes, prop):
    sel = [o for o in obls if prop is None or prop in o.props]
    if len(sel) > 150:
        out = _pack_forked(sel, 4)
    else:
        out = [_pack_one(o) for o in sel]
    pr = []
    for p in probes:
        pr.append({"name": p[0], "pc": solve.to_smt2(p[1]), "base": solve.to_smt2(p[2]) if len(p) > 2 and p[2] is not None else None})
    return out, pr


def verify_target(args):
    """args = (kind, name, prop) with kind in {'function', 'lemma'} -> dict (all strings)."""
    kind, name, prop = args
    reg = registry()
    repo = Repo()
    try:
        eng = Exec(repo, reg)
        if kind == "function":
            con = reg.contracts[name]
            res = eng.verify(con)
            if len(res["obligations"]) + res["trivial"] == 0:
                return {"target": name, "status": "error", "reason": "the function generated no obligation at all (%d path(s)): the contract did not attach" % res["paths"]}
            obls, probes = _pack(res["obligations"], res["probes"], prop)
            return {"target": name, "status": "ok", "obligations": obls, "probes": probes, "paths": res["paths"],
                    "n_all": len(res["obligations"]), "trivial": res["trivial"], "ghost_assumes": res["ghost_assumes"],
                    "lemmas_used": sorted(eng.lemmas_used), "applied_contracts": res.get("applied_contracts", []),
                    "stale_notes": res.get("stale_notes", [])}
        lem = next(l for l in reg.logic.lemmas if l.name == name)
        lobl, lprobes = verify_lemma(eng, lem)
        obls, probes = _pack(lobl, lprobes, None)
        return {"target": "lemma " + name, "status": "ok", "obligations": obls, "probes": probes, "paths": 1,
                "n_all": len(lobl), "trivial": eng.trivial, "ghost_assumes": [], "lemmas_used": list(lem.uses)}
    except (Unsupported, SourceError) as ex:
        return {"target": name, "status": "undecided", "reason": "%s: %s" % (type(ex).__name__, ex)}
    except Exception:  # noqa
        return {"target": name, "status": "error", "reason": traceback.format_exc()[-1500:]}
