"""Sidecar contract data model and registry."""
import importlib
import os
import pkgutil


class Clause:
    __slots__ = ("label", "expr", "props", "needs")

    def __init__(self, label, expr, props=(), needs=None):
        self.label = label
        self.expr = " ".join(expr.split()) if isinstance(expr, str) else expr
        self.props = tuple(props)
        # proof hint (sound: it only REMOVES hypotheses): of the labelled invariant clauses assumed on the path, only
        # those named here (and the clause itself) are handed to the solver when this clause is to be proved
        self.needs = None if needs is None else tuple(needs)

    def __repr__(self):
        return "%s: %s" % (self.label, self.expr)


def C(label, expr, *props, needs=None):
    """A labelled clause, optionally restricted to some properties."""
    return Clause(label, expr, props, needs)


def _clauses(xs, prefix):
    out = []
    for i, x in enumerate(xs or []):
        if isinstance(x, Clause):
            out.append(x)
        else:
            out.append(Clause("%s%d" % (prefix, i), x))
    return out


class Loop:
    def __init__(self, header=None, invariant=(), modifies=(), decreases=None, index=None, props=()):
        self.header = header            # expected header text (undecided if the real loop differs)
        self.invariant = _clauses(invariant, "inv")
        self.modifies = list(modifies) if modifies is not None else None
        self.decreases = decreases
        self.index = index              # name of the ghost index variable of a `for` loop
        self.props = tuple(props)


class Ghost:
    """Ghost code attached to the real source by a statement anchor (normalised text; a trailing '...' makes it a
    prefix match), or at normal function exit (at_exit=True). optional=True: if the anchor statement no longer
    exists the ghost code is skipped (the contract must then fail on its own) instead of 'does not attach'."""

    def __init__(self, code, *, before=None, after=None, occurrence=0, at_exit=False, optional=False):
        assert at_exit or ((before is None) != (after is None))
        self.code = code
        self.where = "exit" if at_exit else ("before" if before is not None else "after")
        self.anchor = "" if at_exit else " ".join((before if before is not None else after).split())
        self.occurrence = occurrence
        self.optional = optional


class Contract:
    def __init__(self, target, *, params=None, returns="none", requires=(), ensures=(), raises=None,
                 modifies=(), loops=None, ghost=(), inline=(), props=(), abortable=False, ppi=(),
                 extern=False, trusted_reason=None, callables=None, locals=None, fresh_result=False,
                 pure=False, self_type=None, ghost_params=None, escapes=(), notes="", allow_any_exception=False, varargs=False, uses=(), allocates=False, defaults=None, kwargs_param=None, prefer_ext=(), noreturn=False, returns_self=False, interference=None, one_shot=()):
        self.one_shot = tuple(one_shot)   # parameters that may be one-shot iterators: a second for-loop over them iterates over nothing
        # (modifies, [two-state clauses]): what an asynchronous handler may do between any two statements (rely condition)
        self.interference = interference
        self.returns_self = returns_self   # the method returns its receiver (keeps the static/dynamic type of the argument)
        self.noreturn = noreturn
        self.prefer_ext = dict(prefer_ext) if isinstance(prefer_ext, dict) else {k: k for k in prefer_ext}   # 'Cls.method' names for which the ext:: call-site view is used instead of the real contract
        self.kwargs_param = kwargs_param
        self.defaults = dict(defaults or {})   # parameter -> spec expression used when the call omits it
        self.allocates = allocates or any('fresh(' in (e.expr if isinstance(e, Clause) else e) for e in (ensures or []))
        self.varargs = varargs
        self.uses = tuple(uses)           # labels of Logic axioms assumed when verifying / lemmas relied upon
        self.target = target                       # "rel/path.py::Qual.name"  or  "ext::dotted.name"
        self.file, self.qualname = target.split("::")
        self.params = dict(params or {})          # name -> type string (self excluded)
        self.returns = returns
        self.requires = _clauses(requires, "req")
        self.ensures = _clauses(ensures, "ens")
        # raises: {"ExcName": [clauses]}  -- exceptions allowed to escape + what holds then
        self.raises = {k: _clauses(v, "exc_" + k + "_") for k, v in (raises or {}).items()}
        self.modifies = list(modifies)
        self.loops = dict(loops or {})
        self.ghost = list(ghost)
        self.inline = set(inline)
        self.props = tuple(props)
        self.abortable = abortable
        self.ppi = _clauses(ppi, "ppi")
        self.extern = extern or self.file == "ext"
        self.trusted_reason = trusted_reason
        self.callables = dict(callables or {})      # local/param name -> contract target for calling it
        self.locals = dict(locals or {})            # optional type hints for locals
        self.fresh_result = fresh_result
        self.pure = pure
        self.self_type = self_type
        self.ghost_params = dict(ghost_params or {})
        self.notes = notes
        self.allow_any_exception = allow_any_exception

    @property
    def cls(self):
        if self.file == "ext":
            return None
        parts = self.qualname.split(".")
        return parts[0] if len(parts) > 1 and parts[0][:1].isupper() or (len(parts) > 1 and parts[0].startswith("_") and parts[0][1:2].isupper()) else None

    @property
    def short(self):
        return self.qualname

    def all_props(self):
        ps = set(self.props)
        for cl in self.requires + self.ensures + self.ppi:
            ps.update(cl.props)
        for cls_ in self.raises.values():
            for cl in cls_:
                ps.update(cl.props)
        for lp in self.loops.values():
            ps.update(lp.props)
            for cl in lp.invariant:
                ps.update(cl.props)
        return ps


class ClassDecl:
    def __init__(self, name, file=None, bases=None, fields=None, virtual=None, ghost=None, value=False, exception=False, qual=None, value_sort=None):
        self.value_sort = value_sort      # immutable value class: structural equality, SMT datatype over `fields`
        self.name = name
        self.qual = qual or name
        self.file = file
        self.bases = bases            # None => read from the real source
        self.fields = dict(fields or {})
        self.virtual = dict(virtual or {})   # abstract (overridable) properties modelled as immutable ghost fields
        self.ghost = dict(ghost or {})       # ghost fields
        self.exception = exception


class Lemma:
    """A closed SMT fact over the spec vocabulary: forall vars. requires => ensures. Discharged by the solvers;
    `induction` names an int variable: base (== 0) and step (k -> k+1, hypothesis for k) VCs are generated."""

    def __init__(self, name, vars, ensures, requires=(), props=(), induction=None, uses=()):
        self.name = name
        self.uses = tuple(uses)
        self.vars = dict(vars)
        self.requires = _clauses(requires, "hyp")
        self.ensures = _clauses(ensures, "concl")
        self.props = tuple(props)
        self.induction = induction


class Logic:
    """Uninterpreted spec functions, axioms, macros and ghost globals shared by the contracts of a module."""

    def __init__(self, funcs=None, axioms=(), macros=None, globals=None, lemmas=(), defs=None):
        self.defs = dict(defs or {})        # name -> ([(param, type)...], ret type, body expr): recursive definitions
        self.funcs = dict(funcs or {})      # name -> ([arg types], ret type)
        self.axioms = _clauses(axioms, "ax")
        self.macros = dict(macros or {})    # "name(a, b)" -> expr string
        self.globals = dict(globals or {})  # ghost global name -> type
        self.lemmas = list(lemmas)


class Registry:
    def __init__(self):
        self.classes = {}
        self.contracts = {}
        self.logic = Logic()
        self.modules = []

    def load_package(self, pkg_name="contracts"):
        pkg = importlib.import_module(pkg_name)
        for m in sorted(pkgutil.iter_modules(pkg.__path__), key=lambda m: m.name):
            if m.name.startswith("_"):
                continue
            mod = importlib.import_module(pkg_name + "." + m.name)
            self.add_module(mod)
        return self

    def add_module(self, mod):
        from . import types as _T
        self.modules.append(mod.__name__)
        for cd in getattr(mod, "CLASSES", []):
            if cd.value_sort:
                _T.VALUE_CLASSES[cd.name] = (cd.value_sort, list(cd.fields.items()))
            if cd.name in self.classes:
                old = self.classes[cd.name]
                old.fields.update(cd.fields)
                old.virtual.update(cd.virtual)
                old.ghost.update(cd.ghost)
            else:
                self.classes[cd.name] = cd
        lg = getattr(mod, "LOGIC", None)
        if lg is not None:
            self.logic.funcs.update(lg.funcs)
            self.logic.defs.update(lg.defs)
            for dn, (dparams, dret, dbody) in lg.defs.items():
                self.logic.funcs[dn] = ([t for _, t in dparams], dret)
            self.logic.axioms.extend(lg.axioms)
            self.logic.macros.update(lg.macros)
            self.logic.globals.update(lg.globals)
            self.logic.lemmas.extend(lg.lemmas)
        for c in getattr(mod, "CONTRACTS", []):
            if c.target in self.contracts:
                raise ValueError("duplicate contract " + c.target)
            self.contracts[c.target] = c
            c.module = mod.__name__

    def contract_for(self, file, qualname):
        return self.contracts.get("%s::%s" % (file, qualname))
