#!/bin/bash
# usage: tools_seeded.sh <name e.g. C02_m1> [--confirm] [check ids...]
#   --confirm : re-confirm the change in a scratch worktree (demo passes on the clean tree, fails with the patch, 37 baseline tests pass)
#   then: apply the patch to /repo, run the given checks (default: the property of the name), revert /repo, write seeded/<name>/detection.json
NAME=$1; shift
CONFIRM=0; if [ "$1" == "--confirm" ]; then CONFIRM=1; shift; fi
ID=${NAME%%_*}; CHECKS=${@:-$ID}
D=/verif/seeded/$NAME
[ -f $D/patch.diff ] || { echo "no patch $D"; exit 2; }
echo "== $NAME: $(python3 -c "import json;print(json.load(open('$D/meta.json')).get('title',''))" 2>/dev/null)"
if [ $CONFIRM == 1 ]; then
  WT=$(mktemp -d /tmp/seedwt.XXXX); rmdir $WT
  git -C /repo worktree add -q --detach $WT HEAD || exit 2
  ( cd $D && PYTHONPATH=$WT/src timeout 300 /venv/bin/python demo.py > /tmp/demo_clean.log 2>&1; echo "demo clean exit=$?" )
  DEMO_CLEAN_SHOWN=1
  git -C $WT apply $D/patch.diff || { echo "patch does not apply"; git -C /repo worktree remove --force $WT; exit 2; }
  ( cd $WT && PYTHONPATH=$WT/src /venv/bin/python -m pytest -q -p no:cacheprovider --timeout=900 -rA 2>&1 | grep PASSED | sed 's/PASSED //' | sort > /tmp/passed_seed.txt )
  python3 - <<'PY'
import json
b=json.load(open('/root/.vp/BASELINE.json'))
passed=set(l.strip().replace('/','.').replace('.py::','::') for l in open('/tmp/passed_seed.txt'))
missing=[t for t in b['stable_pass'] if t not in passed]
print("baseline tests with patch: %d/37 pass%s" % (37-len(missing), (" MISSING "+str(missing)) if missing else ""))
PY
  ( cd $D && PYTHONPATH=$WT/src timeout 300 /venv/bin/python demo.py > /tmp/demo_patched.log 2>&1; echo "demo patched exit=$?" > /tmp/demo_patched.rc; cat /tmp/demo_patched.rc )
  git -C /repo worktree remove --force $WT
  python3 - $D <<'PY'
import json,sys,re
d=sys.argv[1]; m=json.load(open(d+'/meta.json'))
rc=int(re.search(r'exit=(\d+)', open('/tmp/demo_patched.rc').read()).group(1))
b=json.load(open('/root/.vp/BASELINE.json'))
passed=set(l.strip().replace('/','.').replace('.py::','::') for l in open('/tmp/passed_seed.txt'))
missing=[t for t in b['stable_pass'] if t not in passed]
m['confirmed_by_verif_author']={"how":"tools_seeded.sh --confirm: scratch worktree of /repo HEAD; demo.py with PYTHONPATH=<worktree>/src on the clean worktree, git apply patch.diff, the 37 baseline tests, demo.py again; worktree removed",
  "demo_exit_with_patch":rc,"baseline_tests_with_patch":"%d/37 pass" % (37-len(missing))}
json.dump(m,open(d+'/meta.json','w'),indent=1)
PY
fi
[ -z "$(git -C /repo status --short)" ] || { echo "/repo working tree is not clean"; exit 2; }
git -C /repo apply $D/patch.diff || { echo "patch does not apply to /repo"; exit 2; }
RES=""
for C in $CHECKS; do
  L=/tmp/seedchk_${NAME}_$C.log
  ( cd /verif && timeout 1800 ./check $C > $L 2>&1 ); RC=$?
  echo "check $C exit=$RC : $(grep -c '^VIOLATION' $L) violation line(s); $(grep -E 'failed:' $L | head -3 | cut -c1-160 | tr '\n' '|')"
  RES="$RES $C:$RC:$L"
done
git -C /repo checkout -q -- .
git -C /repo status --short | head -3
python3 - $D $RES <<'PY'
import json,sys,re,os
d=sys.argv[1]; out={}
p=os.path.join(d,'detection.json')
if os.path.exists(p): out=json.load(open(p))
for item in sys.argv[2:]:
    c,rc,log=item.split(':',2)
    txt=open(log).read()
    failed=[l.strip()[len('failed: '):] for l in txt.splitlines() if l.strip().startswith('failed:')]
    ded=[f for f in failed if '::' in f]
    rt=[f for f in failed if '::' not in f]
    summ=[l for l in txt.splitlines() if 'tier=' in l and 'obligations discharged' in l]
    out[c]={"exit":int(rc),"violation_lines":len([l for l in txt.splitlines() if l.startswith('VIOLATION')]),
            "no_failing_input_found_lines":len([l for l in txt.splitlines() if l.startswith('VIOLATION') and l.rstrip().endswith('no-failing-input-found')]),
            "failed_obligations":sorted(set(ded))[:12],"failed_bounded_checks":sorted(set(rt))[:12],"summary":summ[:1]}
json.dump(out,open(p,'w'),indent=1)
PY
