#!/bin/bash
# usage: tools_seeded.sh <prop id> <k> [check ids...]   -- confirm a seeded change and run the checks against it
ID=$1; K=$2; shift 2; CHECKS=${@:-$ID}
D=/tmp/seed_out/$ID/m$K; WT=/tmp/seed/$ID
[ -f $D/patch.diff ] || { echo "no patch $D"; exit 2; }
git -C $WT checkout -q -- . ; git -C $WT clean -fdq
echo "== $ID m$K: $(python3 -c "import json;print(json.load(open('$D/meta.json')).get('title',''))" 2>/dev/null)"
( cd $D && PYTHONPATH=$WT/src timeout 180 /venv/bin/python demo.py > /tmp/demo_clean.log 2>&1; echo "demo clean exit=$?" )
git -C $WT apply $D/patch.diff || { echo "patch does not apply"; exit 2; }
( cd $WT && PYTHONPATH=$WT/src /venv/bin/python -m pytest -q -p no:cacheprovider --timeout=900 -rA 2>&1 | grep PASSED | sed 's/PASSED //' | sort > /tmp/passed_seed.txt )
python3 - <<'PY'
import json
b=json.load(open('/root/.vp/BASELINE.json'))
passed=set(l.strip().replace('/','.').replace('.py::','::') for l in open('/tmp/passed_seed.txt'))
missing=[t for t in b['stable_pass'] if t not in passed]
print("baseline tests with patch: %d/37 pass%s" % (37-len(missing), (" MISSING "+str(missing)) if missing else ""))
PY
( cd $D && PYTHONPATH=$WT/src timeout 180 /venv/bin/python demo.py > /tmp/demo_patched.log 2>&1; echo "demo patched exit=$?" )
git -C $WT checkout -q -- . ; git -C $WT clean -fdq
# now the checks on /repo
git -C /repo apply $D/patch.diff || { echo "patch does not apply to /repo"; exit 2; }
for C in $CHECKS; do
  ( cd /verif && timeout 1500 ./check $C > /tmp/seedchk_${ID}_m${K}_$C.log 2>&1; echo "check $C exit=$? : $(grep -c VIOLATION /tmp/seedchk_${ID}_m${K}_$C.log) violation line(s); $(grep -E 'failed:' /tmp/seedchk_${ID}_m${K}_$C.log | head -2 | cut -c1-160 | tr '\n' '|')" )
done
git -C /repo checkout -q -- . 
git -C /repo status --short | head -3
