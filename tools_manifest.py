#!/usr/bin/env python3
"""Regenerate MANIFEST.json from the table below (kept by hand)."""
import json

CLAIMS = {
 "C03": ("proof", "5.3", "Executor class invariant (waiting_on counts uncompleted dependencies; an operation starts only if all its dependencies SUCCEEDED, is SKIPPED iff one did not; FAILED keeps its error) proved preserved by every executor method for all graphs / completion orders; report contract (exit 0 only if everything succeeded, raises the first failure); stop-early: no start after a failure, in-flight groups SIGTERMed. The closing 'every planned operation is completed at loop exit' step is bounded (executor driver), stated in the evidence.", "contract-based deductive verification (pyvc: Python AST -> VCs -> z3/cvc5) + bounded executor driver on the real code"),
 "C04": ("proof", "5.4", "Slot / mode invariant of the real Executor proved inductive for all graphs, jobs values and completion orders: in-flight <= JOBS, a sequential operation is alone in flight, in-flight slots are distinct, in [0,JOBS) and disjoint from the free list, slot is None iff not parallelizable or JOBS == 1; COND_SLOT export by contract on start_execution.", "contract-based deductive verification (pyvc) + bounded executor / spawn-environment runs"),
 "C05": ("proof", "5.5", "The real search loop is proved equal to the documented selection rule (macro is_selected) for every index content, commit graph and HEAD, unbounded; --at-least rule and argv of the git calls by contract.", "contract-based deductive verification (pyvc)"),
 "C08": ("proof", "5.8", "generate_new_output_version proved strictly increasing above the last handed-out id for an arbitrary clock; create_new_version never reuses an existing directory (loop contract); seeding from the project maximum is A-SQL + bounded.", "contract-based deductive verification (pyvc)"),
 "C20": ("proof", "5.20", "The real regular expressions (translated with Python's own regex parser on every run) are proved language-equal to the documented grammar as SMT regexes; decomposition / canonical form / structural equality by contract; injectivity of output directory names as string lemmas.", "contract-based deductive verification (pyvc, string theory: cvc5 + z3)"),
}
NA_REASON = "contracts for this property are still being written in this round (machinery exists; not yet claimed)"

props = [json.loads(l) for l in open("properties.jsonl")]
checks = []
for p in props:
    pid = p["id"]
    if pid in CLAIMS:
        cat, ref, text, tech = CLAIMS[pid]
        checks.append({
            "property_id": pid,
            "quick_cmd": "./check %s --tier quick" % pid,
            "thorough_cmd": "./check %s --tier thorough" % pid,
            "evidence_file": "/verif/evidence/%s.json" % pid,
            "replay_cmd_template": "cat {path}   # the replay file names the failed obligation / failing real input; ./check %s regenerates it" % pid,
            "engine": "pyvc",
            "level_claimed": {"category": cat, "text": text, "design_ref": "DESIGN.md section " + ref},
            "level_note": "trusted base: pyvc's Python semantics (A-PY), the ext:: contracts of /verif/contracts (library / OS / git / sqlite models) listed in the evidence under trusted_base; bounded stand-ins are listed separately under coverage.bounded_checks and never counted as proved",
            "technique": tech,
        })
m = {
 "version": 1,
 "setup_cmd": "true",
 "hooks": {"guard": "CONDUCTOR_VERIF", "enable": "no hooks: contracts live in the sidecar /verif/contracts, the concrete back end patches at run time", "baseline_off_cmd": "cd /repo && /venv/bin/python -m pytest -ra -q -p no:cacheprovider --timeout=900 --continue-on-collection-errors", "source_commits": [], "add_only": True},
 "engines": [
   {"name": "pyvc", "path": "/verif/pyvc", "serves_properties": sorted(CLAIMS), "kind_free_text": "deductive verifier for the Python subset used by conductor: real function ASTs (re-read from /repo/src on every run) + sidecar contracts -> verification conditions -> z3 5.1 / cvc5 1.0 / z3 4.8"},
   {"name": "runtime", "path": "/verif/runtime", "serves_properties": sorted(CLAIMS), "kind_free_text": "concrete back end: bounded stand-ins / replay / non-vacuity witnesses on the real code under /venv/bin/python"},
 ],
 "checks": checks,
 "notes": "exit 0 held / 1 VIOLATION / 2 undecided / 3 checker error. Known findings: /verif/known_findings.jsonl.",
 "not_applicable": [{"property_id": p["id"], "reason": NA_REASON} for p in props if p["id"] not in CLAIMS],
}
json.dump(m, open("MANIFEST.json", "w"), indent=1)
print("claimed", sorted(CLAIMS))
