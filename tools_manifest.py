#!/usr/bin/env python3
"""Regenerate MANIFEST.json from the table below (kept by hand)."""
import json

T_PYVC = "contract-based deductive verification (pyvc: real Python ASTs + sidecar contracts -> VCs -> z3/cvc5)"
CLAIMS = {
 "C01": ("proof", "5.1", "Call-site precondition of Operation.start_execution (every dependency SUCCEEDED) proved at the only call site for all graphs/orders; SUCCEEDED is only set after finish_execution returned normally (exit status 0 of a reaped pid); waiting_on == number of uncompleted dependencies (counting lemmas by induction) so an operation becomes ready only when all its dependencies completed. Planner (create_plan_for, proved): the operation of every executed dependency of a lowered task is one of its execution dependencies. Assumed and bounded: the deps_of mirror of the edges (A-PLAN, exhaustive small DAGs). Known finding K1 (dependency reached only through a cached task).", T_PYVC + " + bounded planner / executor runs"),
 "C02": ("proof", "5.2", "Planner create_plan_for proved for every closure (acyclic by C14), listing order, cache state and mode: each task is lowered to at most one operation (ghost phases NEW/OPEN/DONE/PRUNED, rank argument for the DFS stack), cached and executed are disjoint, the requested task and every dependency of a lowered task is lowered or cached, the progress total equals the number of operations, one cache decision per task; dependencies are listed once (_materialize_raw_task proved); executor side: each ready operation is dequeued and started at most once. Bounded only: 'nothing outside the needed closure is lowered' beyond membership in the closure and the cache decision (exhaustive DAGs with <= 4 tasks on the real planner).", T_PYVC + " + bounded planner / executor runs"),
 "C03": ("proof", "5.3", "Executor class invariant (waiting_on counts uncompleted dependencies; an operation starts only if all its dependencies SUCCEEDED, is SKIPPED iff one did not; FAILED keeps its error) proved preserved by every executor method for all graphs / completion orders; report contract (exit 0 only if everything succeeded, raises the first failure); stop-early: nothing starts after a failure, in-flight groups SIGTERMed; CLI wrapper maps ConductorError to exit 1. The closing step 'every planned operation is completed when the loop ends' is a stated assumption of the proof (ghost assume) and decided by the bounded executor driver.", T_PYVC + " + bounded executor driver"),
 "C04": ("proof", "5.4", "Slot / mode invariant of the real Executor proved inductive for all graphs, jobs values and completion orders: in-flight <= JOBS, a sequential operation is alone in flight, in-flight slots distinct, in [0,JOBS) and disjoint from the free list, slot None iff not parallelizable or JOBS == 1; COND_SLOT exported iff a slot was assigned (postcondition of the real start_execution over the Popen call); --jobs validation.", T_PYVC),
 "C05": ("proof", "5.5", "The real search loop is proved equal to the documented selection rule (macro is_selected) for every index content, commit graph and HEAD, unbounded; --at-least rule, flag validation, ancestor check in main and the argv of the git calls by contract.", T_PYVC),
 "C06": ("proof", "5.6", "finish_execution: the index row is inserted/committed only in a state computed from real fields (exit status 0, both output handlers finished, args/options written) -- call-site preconditions of insert/commit plus a program-point invariant after every statement (crash points) and abort points; restore commits only after the copy loop ran to completion and rolls back on ANY exception; versions carry HEAD's hash and dirty flag.", T_PYVC + " + crash-point enumeration on the real code"),
 "C07": ("proof", "5.7", "Postcondition of the real start_execution over the arguments received by subprocess.Popen: bash, shell, new session, cwd, command string, COND_NAME, COND_OUT (directory created first), COND_DEPS = ':'.join of the dependency directories in declared order. Snapshot consistency of the dependency directories (planner) and the support library: bounded.", T_PYVC + " + bounded planner / lib runs"),
 "C08": ("proof", "5.8", "generate_new_output_version proved strictly increasing above the last handed-out id for an arbitrary clock; create_new_version never reuses an existing directory (loop contract); copytree/rmtree call-site preconditions (never onto an existing directory, only the staging directory is removed).", T_PYVC),
 "C09": ("proof", "5.9", "SIGCHLD hand-off: handler / wait / _add_returncode / _extract_any proved against a rely condition for the asynchronous handler (pops <= reads <= writes <= appends, pop never on an empty list, handler reaps until no exited child is left, signalled => non-zero); wait_for_next_op attributes a status to the handle registered under the reaped pid and ignores unknown pids; the Popen object stays owned by the handle. Termination itself is relative to A-OS and bounded.", T_PYVC + " + bounded runs with real child processes"),
 "C10": ("proof", "5.10", "Loop contract of the real tee worker over an abstract byte monoid: log file and forwarded stream receive exactly the bytes the pipe delivers, final flush, file closed; OutputHandler (pipe iff teed, log file handed to the child iff only-logged, finish joins/closes); record type and log paths at the spawn; args.json/options.json exactly when non-empty.", T_PYVC),
 "C11": ("proof", "5.11", "traverse proved to call the visitor exactly once for every task of the closure and for nothing else (both inclusions by closed-set arguments, unbounded); restore copies exactly the listed directories under the same relative path; SQL selection and tar are assumptions with bounded round-trip runs.", T_PYVC + " + bounded archive/restore round trips"),
 "C12": ("proof", "5.12", "restore.main: every exit by any exception leaves the index rolled back with no commit; the only commit is dominated by the completed copy loop; copytree is never applied to an existing directory; only the staging directory is removed.", T_PYVC),
 "C13": ("proof", "5.13", "gc.main: only directories whose name is in the experiment grammar and whose (identifier, timestamp) is not recorded are deleted, task directories are never entered, --dry-run never deletes; the real patterns are proved language-equal to the grammar. Completeness of the walk (every such directory IS deleted) is bounded.", T_PYVC + " + bounded file-system trees"),
 "C14": ("proof", "5.14", "load_transitive_closure proved sound for every graph: normal return => the closure is loaded, complete and acyclic (ghost finish time is a rank); TaskNotFound => an undefined task is reachable; CyclicDependency => a cycle is reachable (TC constrained by introduction rules only); main plans/runs only after validation and --check never does. Whole-project validation and termination: bounded.", T_PYVC + " + bounded digraph enumeration"),
 "C15": ("proof", "5.15", "Exception-flow obligations with exec() modelled as 'may raise any Exception': nothing but a ConductorError carrying the file leaves parse_cond_file / _run_include; unique names per file (shim); include() only of .cond files; name grammar; CLI wrapper => ERROR + exit 1; --check returns before planning. The schema validator itself is bounded.", T_PYVC + " + bounded validator runs"),
 "C16": ("proof", "5.16", "Asynchronous-abort obligations at every statement boundary (and after every call before its result is stored) of start_execution / finish_execution: the abort leaves as ConductorAbort, a spawned child is signalled or gone, nothing is recorded for a task that did not exit 0; an abort raised inside an included file stays an abort. Known findings K2, K3 (abort between spawn and registration). Found and fixed by this check: K5.", T_PYVC + " + abort injection at every line of the real code"),
 "C17": ("proof", "5.17", "from_cwd returns the first of [cwd] ++ parents(cwd) that contains the config file (loop contract), MissingProjectRoot iff none; gc renders paths through a helper proved never to raise. Equality of effects from two directories is bounded.", T_PYVC + " + bounded runs from different directories"),
 "C18": ("proof", "5.18", "CombineOutputs.start_execution over a ghost file system: every non-empty dependency directory is linked under the dependency's name and the link resolves to that directory (relpath law), entries of other names untouched, foreign entries never replaced (conflict error). Planner side proved: the combine operation is given the output directory of every dependency that has one, and nothing but its dependencies (loop contract with ghost witnesses); stability of a task's output directory during planning is assumed (bounded: planner snapshot check).", T_PYVC + " + bounded planner runs"),
 "C19": ("proof", "5.19", "run_experiment_group proved equal to its documented expansion for every finite instance sequence: ghost log of the constructor calls == [run_experiment(name, run, parallelizable, args, options, deps (+ previous when chained))] ++ [combine(name, [':'+e.name])]; rejected only for a non-instance, a duplicate name or a rejecting constructor.", T_PYVC),
 "C20": ("proof", "5.20", "The real regular expressions (translated with Python's own regex parser on every run) are proved language-equal to the documented grammar as SMT regexes; decomposition / canonical form / structural equality by contract; injectivity of output directory names as string lemmas.", T_PYVC + " (string theory: cvc5 + z3)"),
}
NA_REASON = "contracts for this property are still being written in this round (machinery exists; not yet claimed)"

props = [json.loads(l) for l in open("properties.jsonl")]
checks = []
for p in props:
    pid = p["id"]
    if pid in CLAIMS:
        cat, ref, text, tech = CLAIMS[pid]
        checks.append({
            "property_id": pid,
            "quick_cmd": "./check %s --tier quick" % pid,
            "thorough_cmd": "./check %s --tier thorough" % pid,
            "evidence_file": "/verif/evidence/%s.json" % pid,
            "replay_cmd_template": "cat {path}   # the replay file names the failed obligation / failing real input; ./check %s regenerates it" % pid,
            "engine": "pyvc",
            "level_claimed": {"category": cat, "text": text, "design_ref": "DESIGN.md section " + ref},
            "level_note": "trusted base: pyvc's Python semantics (A-PY), the ext:: contracts of /verif/contracts (library / OS / git / sqlite models) listed in the evidence under trusted_base; bounded stand-ins are listed separately under coverage.bounded_checks and never counted as proved",
            "technique": tech,
        })
m = {
 "version": 1,
 "setup_cmd": "true",
 "hooks": {"guard": "CONDUCTOR_VERIF", "enable": "no hooks: contracts live in the sidecar /verif/contracts, the concrete back end patches at run time", "baseline_off_cmd": "cd /repo && /venv/bin/python -m pytest -ra -q -p no:cacheprovider --timeout=900 --continue-on-collection-errors", "source_commits": [], "add_only": True},
 "engines": [
   {"name": "pyvc", "path": "/verif/pyvc", "serves_properties": sorted(CLAIMS), "kind_free_text": "deductive verifier for the Python subset used by conductor: real function ASTs (re-read from /repo/src on every run) + sidecar contracts -> verification conditions -> z3 5.1 / cvc5 1.0 / z3 4.8"},
   {"name": "runtime", "path": "/verif/runtime", "serves_properties": sorted(CLAIMS), "kind_free_text": "concrete back end: bounded stand-ins / replay / non-vacuity witnesses on the real code under /venv/bin/python"},
 ],
 "checks": checks,
 "notes": "exit 0 held / 1 VIOLATION / 2 undecided / 3 checker error. Known findings: /verif/known_findings.txt.",
 "not_applicable": [{"property_id": p["id"], "reason": NA_REASON} for p in props if p["id"] not in CLAIMS],
}
json.dump(m, open("MANIFEST.json", "w"), indent=1)
print("claimed", sorted(CLAIMS))
