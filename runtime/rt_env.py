"""C07 (task environment contract) and the environment part of C04 (COND_SLOT).

Real code driven: RunTaskExecutable.start_execution with subprocess.Popen replaced by a
recorder (nothing is spawned), conductor.lib.path.{get_output_path, get_deps_paths,
in_output_dir} with os.environ patched, RunArguments/RunOptions.serialize_cmdline.
"""
import itertools
import json
import multiprocessing
import os
import pathlib
import shutil
import tempfile
import time
import types


def _mkscratch():
    """tempfile.mkdtemp(prefix="verif-"), on tmpfs when TMPDIR is not set (directory-heavy scenarios
    are ~4x faster there and do not contend on the ext4 journal when sharded over 16 workers)."""
    base = os.environ.get("TMPDIR") or ("/dev/shm" if os.access("/dev/shm", os.W_OK | os.X_OK) else None)
    return tempfile.mkdtemp(prefix="verif-", dir=base)


_POOL_TIMEOUT_S = 3600    # a dead worker must not hang the driver for ever


def _safe(fn):
    """Pool workers must only raise picklable exceptions (a ConductorError with keyword-only
    constructor arguments cannot be unpickled in the parent and would hang the pool)."""
    import functools
    import traceback

    @functools.wraps(fn)
    def wrapper(job):
        try:
            return fn(job)
        except BaseException:
            raise RuntimeError("harness worker %s crashed on job %r:\n%s"
                               % (fn.__name__, job, traceback.format_exc())) from None
    return wrapper


# --------------------------------------------------------------------------- accumulator
def _size(inp):
    text = json.dumps(inp, default=str, sort_keys=True)
    return (len(text), text)


class Acc:
    def __init__(self):
        self.ev = 0
        self.nt = 0
        self.nf = 0
        self.fails = []
        self.samples = []
        self.classes = {}

    def sample(self, inp, cap=3):
        if len(self.samples) < cap:
            self.samples.append(inp)

    def fail(self, clause, cls, inp, expected, observed):
        self.nf += 1
        self.classes[cls] = self.classes.get(cls, 0) + 1
        self.fails.append({"clause": clause, "class": cls, "input": inp,
                           "expected": str(expected), "observed": str(observed)})
        if len(self.fails) > 200:
            self._trim()

    def _trim(self):
        per = {}
        for f in sorted(self.fails, key=lambda f: _size(f["input"])):
            per.setdefault(f["class"], [])
            if len(per[f["class"]]) < 5:
                per[f["class"]].append(f)
        self.fails = [f for fs in per.values() for f in fs]

    def merge(self, other):
        self.ev += other.ev
        self.nt += other.nt
        self.nf += other.nf
        for k, v in other.classes.items():
            self.classes[k] = self.classes.get(k, 0) + v
        self.fails.extend(other.fails)
        self._trim()
        for s in other.samples:
            self.sample(s)

    def selected_failures(self):
        ordered = sorted(self.fails, key=lambda f: _size(f["input"]))
        first, seen = [], set()
        for f in ordered:
            if f["class"] not in seen:
                seen.add(f["class"])
                first.append(f)
        rest = [f for f in ordered if all(f is not g for g in first)]
        chosen = (first + rest)[:5]
        return sorted(chosen, key=lambda f: _size(f["input"]))

    def result(self, name, prop, function, scope, exhaustive, rule, wall):
        from runtime.common import result
        r = result(name, prop, function, scope, exhaustive=exhaustive, evaluations=self.ev,
                   distinct_nontrivial=self.nt, rule=rule, failures=self.selected_failures(),
                   samples=self.samples, wall_s=wall, n_failures=self.nf)
        r["failure_classes"] = dict(sorted(self.classes.items()))
        return r


# --------------------------------------------------------------------------- oracle
def o_fmt(v):
    if type(v) is bool:
        return "true" if v else "false"
    return str(v)


def o_args(args):
    return " ".join(o_fmt(v) for v in args)


def o_options(items):
    return " ".join("--" + k + "=" + o_fmt(v) for k, v in items)


# --------------------------------------------------------------------------- pools
ARGS_POOL = [
    [], ["a"], [True, False], [1, 2.5, "x y"], ["", 0], [-1, 1e-07, True, "true"],
]
OPTION_ITEMS_POOL = [
    [], [("b", 1), ("a", 2)], [("a", 2), ("b", 1)],
] + [list(p) for p in itertools.permutations([("flag", True), ("n", 0.5), ("s", "v w")])]
ENVIRONS = [
    ("clean", {"PATH": "/usr/bin:/bin", "HOME": "/root"}),
    ("junk-COND-vars", {"PATH": "/usr/bin:/bin", "COND_SLOT": "7", "COND_DEPS": "/junk/dep",
                        "COND_OUT": "/junk/out", "COND_NAME": "junk"}),
    ("only-COND_SLOT", {"PATH": "/bin", "COND_SLOT": "0"}),
]
SLOT_RECORD = [(None, False), (0, False), (2, False), (0, True), (2, True)]
IDENTS = [((), "t"), (("a", "b"), "n-1")]


class FakeProcess:
    def __init__(self):
        self.pid = 424242
        self.stdout = None
        self.stderr = None
        self.returncode = None
        self.args = None

    def poll(self):
        return None

    def wait(self, timeout=None):
        return 0

    def kill(self):
        pass

    def terminate(self):
        pass


def _dep_lists(root):
    pool = [root / "cond-out" / "d.task", root / "cond-out" / "x" / "e.task.5",
            root / "cond-out" / "with space.task"]
    out = [[]]
    for k in (1, 2, 3):
        out.extend([list(p) for p in itertools.permutations(pool, k)])
    return out


@_safe
def _spawn_worker(job):
    args_index, opt_index = job
    import conductor.execution.ops.run_task_executable as rte
    import conductor.lib.path as libpath
    from conductor.execution.operation_state import OperationState
    from conductor.execution.version_index import Version
    from conductor.task_identifier import TaskIdentifier
    from conductor.utils.run_arguments import RunArguments
    from conductor.utils.run_options import RunOptions
    from unittest import mock

    cmd, env_, slot_, lib_ = Acc(), Acc(), Acc(), Acc()
    raw_args = ARGS_POOL[args_index]
    scratch = _mkscratch()
    try:
        root = pathlib.Path(scratch, "proj")
        calls = []

        def recorder(*p_args, **p_kwargs):
            env = p_kwargs.get("env")
            out = None if env is None else env.get("COND_OUT")
            calls.append({"args": p_args, "kwargs": p_kwargs,
                          "out_is_dir": bool(out) and os.path.isdir(out)})
            return FakeProcess()

        class FakeTee:
            def tee_pipe(self, *a, **k):
                raise RuntimeError("harness: tee requested although no Teed case is enumerated")

            def shutdown(self):
                pass

        ctx = types.SimpleNamespace(tee_processor=FakeTee(), project_root=root,
                                    output_path=root / "cond-out")
        run_strings = ["./run.sh", "echo  hi;"]
        for (parts, name), opt_items, deps, (slot, record), (env_name, environ), run_str in itertools.product(
                IDENTS, [OPTION_ITEMS_POOL[opt_index]], _dep_lists(root), SLOT_RECORD, ENVIRONS, run_strings):
            if run_str != run_strings[0] and (deps or env_name != "clean"):
                continue      # the second run string only varies the command line
            ident = TaskIdentifier(pathlib.Path(*parts), name)
            versioned = record
            out_name = name + ".task" + (".17" if versioned else "")
            output_path = pathlib.Path(root, "cond-out", *parts, out_name)
            working_path = pathlib.Path(root, *parts)
            if output_path.exists():
                shutil.rmtree(output_path)
            options = dict(opt_items)
            op = rte.RunTaskExecutable(
                initial_state=OperationState.QUEUED, identifier=ident, task=None, run=run_str,
                args=RunArguments(list(raw_args)),
                options=RunOptions(options),
                working_path=working_path, output_path=output_path, deps_output_paths=list(deps),
                record_output=record, version_to_record=Version(17, None, False) if versioned else None,
                serialize_args_options=versioned, parallelizable=slot is not None)
            inp = {"identifier": "//" + "/".join(parts) + ":" + name, "run": run_str,
                   "args": list(raw_args), "options": [[k, v] for k, v in opt_items],
                   "deps_output_paths": [str(d.relative_to(root)) for d in deps], "slot": slot,
                   "record_output": record, "os_environ": environ}
            del calls[:]
            try:
                with mock.patch.object(os, "environ", dict(environ)), \
                        mock.patch.object(rte.subprocess, "Popen", recorder):
                    handle = op.start_execution(ctx, slot)
            except Exception as ex:  # the executor would report the task as failed / crash
                for acc in (cmd, env_, slot_):
                    acc.ev += 1
                cmd.fail("no_exception", "start_execution-raises", inp, "an execution handle",
                         ("%s: %s" % (type(ex).__name__, getattr(ex, "extra_context", None) or ex))
                         .replace(scratch, "<scratch>"))
                continue
            for h in (handle.stdout, handle.stderr):
                if h is not None:
                    h.finish()
            if len(calls) != 1:
                cmd.ev += 1
                cmd.fail("one_spawn", "popen-call-count", inp, 1, len(calls))
                continue
            call = calls[0]
            kw = call["kwargs"]
            p_args = call["args"][0] if call["args"] else kw.get("args")

            # ---- command line
            cmd.ev += 1
            if raw_args and opt_items:
                cmd.nt += 1
                cmd.sample(inp)
            exp_cmd = run_str + " " + o_args(raw_args) + " " + o_options(opt_items)
            if p_args != [exp_cmd]:
                got = p_args[0] if isinstance(p_args, list) and len(p_args) == 1 else p_args
                cls = "wrong-command-line"
                if isinstance(got, str) and sorted(got.split()) == sorted(exp_cmd.split()):
                    cls = "command-line-order-differs"
                cmd.fail("command_line", cls, inp, [exp_cmd], p_args)
            elif kw.get("shell") is not True:
                cmd.fail("shell", "not-run-through-shell", inp, True, kw.get("shell"))
            elif kw.get("executable") != "/bin/bash":
                cmd.fail("executable", "shell-is-not-bash", inp, "/bin/bash", kw.get("executable"))
            elif kw.get("cwd") is None or pathlib.Path(kw.get("cwd")) != working_path:
                cmd.fail("cwd", "wrong-working-directory", inp, working_path, kw.get("cwd"))
            elif kw.get("start_new_session") is not True:
                cmd.fail("start_new_session", "no-new-session", inp, True, kw.get("start_new_session"))

            # ---- environment
            env = kw.get("env")
            env_.ev += 1
            if deps:
                env_.nt += 1
                env_.sample(inp)
            exp_deps = ":".join(str(d) for d in deps)
            if env is None:
                env_.fail("env_passed", "no-env-passed", inp, "env mapping", None)
            elif env.get("COND_NAME") != name:
                env_.fail("COND_NAME", "inherited-COND_NAME" if ("COND_NAME" in environ and
                                                             env.get("COND_NAME") == environ["COND_NAME"])
                          else ("COND_NAME-missing" if "COND_NAME" not in env else "wrong-COND_NAME"), inp, name, env.get("COND_NAME"))
            elif env.get("COND_OUT") != str(output_path):
                env_.fail("COND_OUT", "inherited-COND_OUT" if ("COND_OUT" in environ and
                                                           env.get("COND_OUT") == environ["COND_OUT"])
                          else ("COND_OUT-missing" if "COND_OUT" not in env else "wrong-COND_OUT"), inp, output_path, env.get("COND_OUT"))
            elif not os.path.isabs(env["COND_OUT"]):
                env_.fail("COND_OUT_absolute", "relative-COND_OUT", inp, "absolute", env["COND_OUT"])
            elif not call["out_is_dir"]:
                env_.fail("COND_OUT_exists_at_spawn", "COND_OUT-missing-at-spawn", inp,
                          "directory exists when the child starts", "missing")
            elif env.get("COND_DEPS") != exp_deps:
                env_.fail("COND_DEPS", "inherited-COND_DEPS" if (environ.get("COND_DEPS") is not None and
                                                                  env.get("COND_DEPS") == environ.get("COND_DEPS"))
                          else ("COND_DEPS-missing" if "COND_DEPS" not in env else "wrong-COND_DEPS"), inp, repr(exp_deps), repr(env.get("COND_DEPS")))
            elif env.get("PATH") != environ.get("PATH"):
                env_.fail("inherits_environment", "parent-environment-not-inherited", inp,
                          environ.get("PATH"), env.get("PATH"))

            # ---- COND_SLOT
            slot_.ev += 1
            if "COND_SLOT" in environ:
                slot_.nt += 1
                slot_.sample(inp)
            if env is not None:
                got_slot = env.get("COND_SLOT")
                if slot is None and got_slot is not None:
                    slot_.fail("cond_slot_iff_slot", "inherited-COND_SLOT" if got_slot == environ.get("COND_SLOT")
                               else "COND_SLOT-set-without-slot", inp, "COND_SLOT unset", got_slot)
                elif slot is not None and got_slot != str(slot):
                    cls = "COND_SLOT-missing" if got_slot is None else (
                        "inherited-COND_SLOT" if got_slot == environ.get("COND_SLOT") else "wrong-COND_SLOT")
                    slot_.fail("cond_slot_iff_slot", cls, inp, str(slot), got_slot)

            # ---- the library reads back what the executor handed over (round trip)
            if env is not None and run_str == run_strings[0] and slot is None and env_name == "clean" \
                    and not opt_items:
                lib_.ev += 1
                inp3 = {"source": "env built by start_execution", "deps_output_paths": inp["deps_output_paths"]}
                with mock.patch.object(os, "environ", dict(env)):
                    try:
                        got_paths = libpath.get_deps_paths()
                    except Exception as ex:
                        got_paths = "%s: %s" % (type(ex).__name__, ex)
                if got_paths != [pathlib.Path(d) for d in deps]:
                    cls = "empty-COND_DEPS-gives-dot" if (not deps and got_paths == [pathlib.Path(".")]) \
                        else "deps-paths-roundtrip-mismatch"
                    lib_.fail("roundtrip_from_executor", cls, inp3, [str(d) for d in deps], got_paths)
    finally:
        shutil.rmtree(scratch, ignore_errors=True)
    return cmd, env_, slot_, lib_


# --------------------------------------------------------------------------- lib.path
def _lib_checks():
    import conductor.lib.path as libpath
    from unittest import mock

    outp, deps_, ino = Acc(), Acc(), Acc()
    out_values = ["/p/cond-out/a.task", "/p/cond-out/x/e.task.5", "rel/out", "/with space/o.task", "/"]
    base_env = {"PATH": "/bin"}
    for v in out_values + [None]:
        env = dict(base_env) if v is None else dict(base_env, COND_OUT=v)
        inp = {"COND_OUT": v}
        outp.ev += 1
        if v is not None:
            outp.nt += 1
            outp.sample(inp)
        with mock.patch.object(os, "environ", dict(env)):
            try:
                got = libpath.get_output_path()
            except RuntimeError:
                got = "RuntimeError"
            except Exception as ex:
                got = "other " + type(ex).__name__
        exp = "RuntimeError" if v is None else pathlib.Path(v)
        if got != exp or (v is not None and not isinstance(got, pathlib.Path)):
            outp.fail("get_output_path", "wrong-output-path" if v is not None else "missing-COND_OUT-not-reported",
                      inp, exp, got)

    pool = ["/p/cond-out/d.task", "/p/cond-out/x/e.task.5", "rel/dir", "/with space/o.task", "a", "/"]
    lists = [[]]
    for k in (1, 2, 3):
        lists.extend([list(p) for p in itertools.product(pool, repeat=k)])
    for paths in lists + [None]:
        env = dict(base_env) if paths is None else dict(base_env, COND_DEPS=":".join(paths))
        inp = {"paths": paths, "COND_DEPS": env.get("COND_DEPS")}
        deps_.ev += 1
        if paths is not None and len(paths) != 1:
            deps_.nt += 1
            deps_.sample(inp)
        with mock.patch.object(os, "environ", dict(env)):
            try:
                got = libpath.get_deps_paths()
            except RuntimeError:
                got = "RuntimeError"
            except Exception as ex:
                got = "other " + type(ex).__name__
        exp = "RuntimeError" if paths is None else [pathlib.Path(p) for p in paths]
        if got != exp:
            if paths == [] and got == [pathlib.Path(".")]:
                cls = "empty-COND_DEPS-gives-dot"
            elif paths is None:
                cls = "missing-COND_DEPS-not-reported"
            else:
                cls = "deps-paths-roundtrip-mismatch"
            deps_.fail("get_deps_paths_roundtrip", cls, inp, exp, got)

    files = ["f.csv", "sub/f.csv", pathlib.Path("f.csv"), pathlib.Path("sub", "f.csv"), "", "."]
    for v in out_values + [None]:
        for fp in files:
            env = dict(base_env) if v is None else dict(base_env, COND_OUT=v)
            inp = {"COND_OUT": v, "file_path": str(fp), "file_path_type": type(fp).__name__}
            ino.ev += 1
            if v is not None:
                ino.nt += 1
                ino.sample(inp)
            with mock.patch.object(os, "environ", dict(env)):
                try:
                    got = libpath.in_output_dir(fp)
                except Exception as ex:
                    got = "raises " + type(ex).__name__
            exp = pathlib.Path(fp) if v is None else pathlib.Path(v) / fp
            if got != exp or not isinstance(got, pathlib.Path):
                ino.fail("in_output_dir", "wrong-path-under-output-dir" if v is not None
                         else "path-changed-outside-conductor", inp, exp, got)
    return outp, deps_, ino


# --------------------------------------------------------------------------- serialize_cmdline
VALUES = ["", "a", "a b", True, False, 0, -1, 10 ** 20, 0.5, 1e-07, "true", "--x=1"]


def _serialize_args(tier):
    from conductor.utils.run_arguments import RunArguments
    a = Acc()
    max_len = 3 if tier == "quick" else 4
    for k in range(0, max_len + 1):
        for values in itertools.product(VALUES, repeat=k):
            a.ev += 1
            if any(type(v) is bool for v in values) and len(values) > 1:
                a.nt += 1
                a.sample({"args": list(values)})
            try:
                got = RunArguments(list(values)).serialize_cmdline()
            except Exception as ex:
                got = "raises %s" % type(ex).__name__
            exp = o_args(values)
            if got != exp:
                a.fail("serialize_cmdline", "wrong-args-serialisation", {"args": list(values)},
                       repr(exp), repr(got))
    return a


def _serialize_options(tier):
    from conductor.utils.run_options import RunOptions
    a = Acc()
    keys = ["b", "a", "long-key", "k_1"]
    values = VALUES if tier != "quick" else ["", "a b", True, False, 0, 10 ** 20, 0.5, 1e-07, "true"]
    for k in range(0, 4):
        for ks in itertools.permutations(keys, k):
            for vs in itertools.product(values, repeat=k):
                items = list(zip(ks, vs))
                a.ev += 1
                if k >= 2 and list(ks) != sorted(ks):
                    a.nt += 1
                    a.sample({"options": [list(i) for i in items]})
                try:
                    got = RunOptions(dict(items)).serialize_cmdline()
                except Exception as ex:
                    got = "raises %s" % type(ex).__name__
                exp = o_options(items)
                if got != exp:
                    cls = "options-order-not-declared-order" if sorted(got.split(" ")) == sorted(exp.split(" ")) \
                        else "wrong-options-serialisation"
                    a.fail("serialize_cmdline", cls, {"options": [list(i) for i in items]},
                           repr(exp), repr(got))
    return a


@_safe
def _serialize_worker(job):
    which, tier = job
    return which, (_serialize_args(tier) if which == "args" else _serialize_options(tier))


# --------------------------------------------------------------------------- driver
def _launch_failures():
    """C03 ("cannot be launched"): every way in which the REAL start_execution fails to start the task's process is
    reported as a failure of that task (a ConductorError: the executor then skips its dependents and goes on), never
    as a raw Python / OS exception."""
    import conductor.execution.ops.run_task_executable as rte
    import conductor.errors as errors
    from conductor.execution.operation_state import OperationState
    from conductor.task_identifier import TaskIdentifier
    from conductor.utils.run_arguments import RunArguments
    from conductor.utils.run_options import RunOptions

    a = Acc()
    scratch = _mkscratch()
    try:
        root = pathlib.Path(scratch, "proj")
        (root / "cond-out").mkdir(parents=True)
        (root / "pkg").mkdir()
        (root / "cond-out" / "blocked.task").write_text("a regular file where the output directory should be")
        (root / "cond-out" / "afile").write_text("x")
        ctx = types.SimpleNamespace(tee_processor=None, project_root=root, output_path=root / "cond-out")
        cases = [
            ("output-directory-path-is-a-regular-file", root / "cond-out" / "blocked.task", root / "pkg"),
            ("parent-of-output-directory-is-a-regular-file", root / "cond-out" / "afile" / "t.task", root / "pkg"),
            ("working-directory-does-not-exist", root / "cond-out" / "ok.task", root / "no-such-dir"),
            ("working-directory-is-a-file", root / "cond-out" / "ok2.task", root / "cond-out" / "afile"),
        ]
        for label, out, cwd in cases:
            for record in (False, True):
                inp = {"failure": label, "record_output": record}
                op = rte.RunTaskExecutable(
                    initial_state=OperationState.QUEUED, identifier=TaskIdentifier(pathlib.Path("pkg"), "t"), task=None, run="true",
                    args=RunArguments([]), options=RunOptions({}), working_path=cwd, output_path=out, deps_output_paths=[],
                    record_output=record, version_to_record=None, serialize_args_options=False, parallelizable=True)
                a.ev += 1
                a.nt += 1
                a.sample(inp)
                try:
                    h = op.start_execution(ctx, 0 if record else None)
                    got = "started"
                    try:
                        if getattr(h, "pid", None):
                            os.kill(h.pid, 9)
                    except OSError:
                        pass
                except errors.ConductorError as ex:
                    got = "ConductorError:" + type(ex).__name__
                except BaseException as ex:      # noqa
                    got = "raw:" + type(ex).__name__
                if not got.startswith("ConductorError"):
                    a.fail("launch_failure_is_a_task_failure", "launch-failure-escapes-as-" + got.replace(":", "-"), inp, "a ConductorError (TaskFailed)", got)
    finally:
        shutil.rmtree(scratch, ignore_errors=True)
    return a


def _from_raw_isolation():
    """C10: what is recorded (args.json / options.json) and passed on the command line is what THIS task declared:
    RunArguments.from_raw / RunOptions.from_raw of one task never hand out values of another task, also when the
    values are equal under Python's == but differ in type (1 == True == 1.0)."""
    import tempfile as _tf
    from conductor.task_identifier import TaskIdentifier
    from conductor.utils.run_arguments import RunArguments
    from conductor.utils.run_options import RunOptions

    a = Acc()
    ident1, ident2 = TaskIdentifier(pathlib.Path("p"), "t1"), TaskIdentifier(pathlib.Path("p"), "t2")
    arg_pool = [[1], [True], [1.0], [0], [False], [0.0], [2, "x"], [2.0, "x"], ["1"], []]
    opt_pool = [{"k": 1}, {"k": True}, {"k": 1.0}, {"k": "1"}, {}]

    def strict(v):
        return json.dumps(v, sort_keys=True), [type(x).__name__ for x in (v.values() if isinstance(v, dict) else v)]
    scratch = _mkscratch()
    try:
        for pool, cls, which in ((arg_pool, RunArguments, "args"), (opt_pool, RunOptions, "options")):
            for x in pool:
                for y in pool:
                    inp = {"kind": which, "first_task_declares": repr(x), "second_task_declares": repr(y)}
                    first = cls.from_raw(ident1, type(x)(x))
                    second = cls.from_raw(ident2, type(y)(y))
                    a.ev += 1
                    if x == y and strict(x) != strict(y):
                        a.nt += 1
                        a.sample(inp)
                    out = pathlib.Path(scratch, "o.json")
                    second.serialize_json(out)
                    rec = json.loads(out.read_text(encoding="UTF-8"))
                    if strict(rec) != strict(y):
                        a.fail("recorded_value_is_the_declared_value", which + "-of-another-task-recorded", inp, strict(y), strict(rec))
                    elif first.serialize_cmdline() != cls.from_raw(ident1, type(x)(x)).serialize_cmdline():
                        a.fail("stable", which + "-cmdline-not-stable", inp, "same text", "differs")
    finally:
        shutil.rmtree(scratch, ignore_errors=True)
    return a


def run(tier, seed):
    n_proc = min(16, os.cpu_count() or 1)
    mp = multiprocessing.get_context("fork")
    cmd, env_, slot_, lib_deps = Acc(), Acc(), Acc(), Acc()
    ser = {}
    with mp.Pool(processes=n_proc) as pool:
        t0 = time.time()
        spawn_job = pool.map_async(_spawn_worker, [(i, j) for i in range(len(ARGS_POOL))
                                                     for j in range(len(OPTION_ITEMS_POOL))], chunksize=1)
        ser_job = pool.map_async(_serialize_worker, [("args", tier), ("options", tier)], chunksize=1)
        t1 = time.time()
        outp, deps_, ino = _lib_checks()
        launch = _launch_failures()
        fromraw = _from_raw_isolation()
        wall_lib = time.time() - t1
        for c, e, s, l in spawn_job.get(_POOL_TIMEOUT_S):
            cmd.merge(c)
            env_.merge(e)
            slot_.merge(s)
            lib_deps.merge(l)
        wall_spawn = time.time() - t0
        for which, acc in ser_job.get(_POOL_TIMEOUT_S):
            ser[which] = acc
        wall_ser = time.time() - t0
    deps_.merge(lib_deps)

    spawn_scope = ("2 identifiers x %d argument lists (str/bool/int/float) x %d option dicts (insertion orders) x "
                   "all ordered deps_output_paths lists of length 0..3 over 3 paths x (slot, record_output) in "
                   "%s x 3 os.environ variants (clean, COND_* junk preset, COND_SLOT preset); Popen recorded"
                   % (len(ARGS_POOL), len(OPTION_ITEMS_POOL), SLOT_RECORD))
    fn = "execution/ops/run_task_executable.py::RunTaskExecutable.start_execution"
    return [
        cmd.result("C07.spawn.command_line", "C07", fn, spawn_scope + " (+ a second run string)", True,
                   "distinct enumerated tuples; non-trivial = both args and options non-empty", wall_spawn),
        env_.result("C07.spawn.env_vars", ["C07", "C08"], fn, spawn_scope, True,
                    "distinct enumerated tuples; non-trivial = at least one dependency output path", wall_spawn),
        slot_.result("C04.spawn.cond_slot_iff_slot", ["C04", "C07"], fn, spawn_scope, True,
                     "distinct enumerated tuples; non-trivial = COND_SLOT already present in os.environ",
                     wall_spawn),
        launch.result("C03.spawn.launch_failure_is_a_task_failure", ["C03", "C16"], fn,
                      "output directory blocked by a file / below a file, working directory missing / a file x record_output in {False, True}", True,
                      "distinct (failure, record_output); every case is non-trivial", wall_lib),
        fromraw.result("C10.from_raw.each_task_records_its_own_declared_values", ["C10", "C07"],
                       "utils/run_arguments.py::RunArguments.from_raw, utils/run_options.py::RunOptions.from_raw",
                       "all ordered pairs over 10 argument lists / 5 option dicts that include values equal under == but of different type (1, True, 1.0)", True,
                       "distinct ordered pairs; non-trivial = the two declarations are == but differ in type", wall_lib),
        outp.result("C07.lib.get_output_path", "C07", "lib/path.py::get_output_path",
                    "COND_OUT in 5 values (absolute, relative, with space, '/') or unset", True,
                    "distinct COND_OUT settings; non-trivial = variable set", wall_lib),
        deps_.result("C07.lib.get_deps_paths_roundtrip", "C07", "lib/path.py::get_deps_paths",
                     "all path lists of length 0..3 over 6 ':'-free path strings joined by ':' (and COND_DEPS unset); "
                     "plus the environment built by the real start_execution for every deps list of the spawn scope",
                     True, "distinct path lists (+ executor-built environments); non-trivial = list length != 1",
                     wall_lib + wall_spawn),
        ino.result("C07.lib.in_output_dir", "C07", "lib/path.py::in_output_dir",
                   "COND_OUT in 5 values or unset x 6 file paths (str and pathlib.Path)", True,
                   "distinct (COND_OUT, file path); non-trivial = COND_OUT set", wall_lib),
        ser["args"].result("C07.serialize_cmdline.args", "C07",
                           "utils/run_arguments.py::RunArguments.serialize_cmdline",
                           "all lists of length <= %d over %d primitive values (incl. '', 'a b', bools, 0, 1e+20 int, "
                           "floats, the string 'true')" % (3 if tier == "quick" else 4, len(VALUES)), True,
                           "distinct lists; non-trivial = length >= 2 containing a bool", wall_ser),
        ser["options"].result("C07.serialize_cmdline.options", "C07",
                              "utils/run_options.py::RunOptions.serialize_cmdline",
                              "all ordered selections of <= 3 distinct keys out of 4 (every insertion order) x all "
                              "value tuples over %d primitive values" % (9 if tier == "quick" else len(VALUES)), True,
                              "distinct ordered (key, value) lists; non-trivial = >= 2 keys inserted in non-sorted order",
                              wall_ser),
    ]


if __name__ == "__main__":
    from runtime.common import main
    main(run)
