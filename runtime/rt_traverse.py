"""Bounded stand-in for the task-selection part of C11: the REAL
`TaskType.traverse` and the REAL `conductor.cli.archive.compute_tasks_to_archive`
on pre-populated task indexes.

Scope
  traverse : all *labelled* DAGs with <= 4 tasks x every listing order x every
             root (thorough: plus all forward DAGs with 5 tasks x orders x root t0).
  archive  : all forward DAGs with <= 4 tasks (root t0) x every listing order x
             kinds {run_experiment (archivable), run_command, group, combine}
             per task; identifier given as "//:t0", and one call with no
             identifier per case (thorough: plus 5 tasks with kinds
             {run_experiment, run_command}).
"""
import itertools
import pathlib
import shutil
import tempfile
import time

from runtime import graphs as G
from runtime.common import result

F_TRAVERSE = "task_types/base.py::TaskType.traverse"
F_ARCHIVE = "cli/archive.py::compute_tasks_to_archive"

TRAV = "C11.traverse.visits_closure_exactly_once"
ARCH = "C11.archive.task_selection"
NAMES = [TRAV, ARCH]
RULES = {
    TRAV: "distinct (labelled DAG, listing order, root) tuples; non-trivial = some task of the "
          "closure is a dependency of >= 2 tasks of the closure",
    ARCH: "distinct (DAG, listing order, kinds) tuples; non-trivial = the closure contains an "
          "archivable and a non-archivable task, or an archivable task with >= 2 dependents",
}
_ARCH_ALPHA = "ecgm"
_ARCH_ALPHA_5 = "ec"
_TRAV_KINDS = "cgec" + "c"


def _scope(name, tier):
    if name == TRAV:
        s = "all labelled DAGs with <=4 tasks x all dep listing orders x every root"
        if tier == "thorough":
            s += "; plus forward DAGs with 5 tasks x orders x root t0"
        return s
    s = ("forward DAGs with <=4 tasks (root t0) x all dep listing orders x kinds "
         "{run_experiment,run_command,group,combine}; identifier '//:t0' and None")
    if tier == "thorough":
        s += "; plus 5 tasks with kinds {run_experiment,run_command}"
    return s


class _Env:
    def __init__(self, root):
        from conductor.cli.archive import compute_tasks_to_archive

        self.root = pathlib.Path(root)
        self.factory = G.IndexFactory(self.root)
        self.cond_abs = self.root / "COND"
        self.compute = compute_tasks_to_archive
        self.wd = G.Watchdog()
        self.vif = G.VersionIndexFactory()
        self.idents = [G.ident(i) for i in range(6)]
        self.id_index = {str(x): i for i, x in enumerate(self.idents)}
        self._raw = {}

    def raw(self, i, kind, dep_tuple):
        key = (i, kind, dep_tuple)
        r = self._raw.get(key)
        if r is None:
            r = G.make_raw_task(G.KIND_NAMES[kind], G.task_name(i),
                                [":" + G.task_name(j) for j in dep_tuple], self.cond_abs)
            self._raw[key] = r
        return dict(r)

    def index(self, deps, kinds):
        tasks = {G.task_name(i): self.raw(i, kinds[i], deps[i]) for i in range(len(deps))}
        return self.factory.make({G.COND: tasks})


def _dup_class(deps, closure):
    # a duplicate visit needs a task pushed by two parents before its first pop
    return "node-pushed-twice-before-first-pop"


def _eval_traverse(env, deps, root, tally):
    n = len(deps)
    kinds = _TRAV_KINDS[:n]
    ti = env.index(deps, kinds)
    ctx = G.StubContext(env.root, ti)
    rid = env.idents[root]
    env.wd.call(ti.load_transitive_closure, rid)  # pre-load as the CLI does; not under test here
    task = ti.get_task(rid)
    log = []
    _, err = env.wd.call(task.traverse, ctx, lambda t: log.append(str(t.identifier)))
    closure = G.reach_star(deps, root)
    par = G.parents_within(deps, closure)
    tally.ev(TRAV, any(len(p) >= 2 for p in par.values()))
    want = sorted(G.task_id_str(i) for i in closure)
    size = (n, G.n_edges(deps), root)
    inp = G.graph_json(deps, kinds=kinds, extra={"root": G.task_id_str(root)})
    if err is not None:
        tally.fail(TRAV, size, {"clause": "traverse",
                                "class": "non-termination" if isinstance(err, G.NonTermination)
                                else "traverse-raised-" + type(err).__name__,
                                "input": inp, "expected": want,
                                "observed": "%s: %s" % (type(err).__name__, err)})
        return
    if sorted(log) != want:
        if len(set(log)) != len(log):
            cls = _dup_class(deps, closure)
        elif set(log) - set(want):
            cls = "visited-outside-closure"
        else:
            cls = "closure-member-not-visited"
        tally.fail(TRAV, size, {"clause": "traverse", "class": cls, "input": inp,
                                "expected": {"visited_once_each": want}, "observed": {"visits": log}})


def _eval_archive(env, deps, kinds, tally):
    """What `cond archive <task>` selects = the recorded versions of the archivable tasks of the closure.  The
    selection is compared on the tasks that HAVE recorded versions (selecting a task without versions selects
    nothing), once with every experiment recorded and once with only the odd-numbered ones recorded (so that the
    closure is reached through experiments that never completed)."""
    n = len(deps)
    closure = G.reach_star(deps, 0)
    par = G.parents_within(deps, closure)
    nontrivial = (any(kinds[i] == "e" for i in closure) and any(kinds[i] != "e" for i in closure)) \
        or any(kinds[v] == "e" and len(p) >= 2 for v, p in par.items())
    size = (n, G.n_edges(deps), sum(1 for k in kinds if k != "c"))
    for mode in ("all-recorded", "odd-recorded"):
        recorded = [i for i in range(n) if kinds[i] == "e" and (mode == "all-recorded" or i % 2 == 1)]
        if mode == "odd-recorded" and not any(kinds[i] == "e" and i % 2 == 0 for i in closure):
            continue        # same case as all-recorded
        ti = env.index(deps, kinds)
        vi = env.vif.fresh([(env.idents[i], 5 + i) for i in recorded])
        ctx = G.StubContext(env.root, ti, vi)
        rec_ids = {G.task_id_str(i) for i in recorded}
        want = sorted(G.task_id_str(i) for i in closure if kinds[i] == "e" and i in recorded)
        tally.ev(ARCH, nontrivial)
        inp = G.graph_json(deps, kinds=kinds, extra={"task_identifier": "//:t0", "experiments_with_recorded_versions": sorted(rec_ids)})
        got, ex = env.wd.call(env.compute, ctx, "//:t0")
        none_case, ex2 = env.wd.call(env.compute, ctx, None)
        ex = ex or ex2
        if ex is not None:
            if isinstance(ex, G.HarnessError):
                raise ex
            tally.fail(ARCH, size, {"clause": "archive",
                                    "class": "non-termination" if isinstance(ex, G.NonTermination)
                                    else "archive-raised-" + type(ex).__name__,
                                    "input": inp, "expected": want,
                                    "observed": "%s: %s" % (type(ex).__name__, ex)})
            return
        if none_case is not None:
            tally.fail(ARCH, size, {"clause": "archive_none", "class": "no-identifier-not-none",
                                    "input": dict(inp, task_identifier=None), "expected": None,
                                    "observed": repr(none_case)})
        if got is None:
            tally.fail(ARCH, size, {"clause": "archive_none", "class": "identifier-given-but-none",
                                    "input": inp, "expected": want, "observed": None})
            return
        got_all = [str(x) for x in got]
        got_s = [x for x in got_all if x in rec_ids]
        if sorted(got_s) != want:
            if len(set(got_s)) != len(got_s):
                cls = _dup_class(deps, closure)
            elif set(got_s) - set(want):
                cls = "non-archivable-or-foreign-task-selected"
            else:
                cls = "recorded-experiment-of-the-closure-missing"
            tally.fail(ARCH, size, {"clause": "archive", "class": cls, "input": inp,
                                    "expected": want, "observed": got_all})
            return


def _worker(arg):
    shard, nshards, payload = arg
    tier = payload["tier"]
    env = _Env(payload["root"])
    tally = G.Tally(NAMES)
    item = 0
    # traverse: labelled DAGs x orders x roots
    trav = [(deps, r) for deps in G.labelled_dag_orders(4) for r in range(len(deps))]
    if tier == "thorough":
        trav += [(deps, 0) for deps in G.forward_dag_orders(5, 5)]
    first = (shard - item) % nshards
    for k in range(first, len(trav), nshards):
        if env.wd.exhausted:
            break
        _eval_traverse(env, trav[k][0], trav[k][1], tally)
    for k in range(first, len(trav), nshards):
        deps, r = trav[k]
        if len(deps) >= 3 and G.n_edges(deps) >= 3 and r == 0:
            tally.sample(TRAV, G.graph_json(deps, extra={"root": G.task_id_str(r)}), limit=1)
            break
    item += len(trav)
    # archive: forward DAGs x orders x kinds
    blocks = [(G.forward_dag_orders(n, n), list(itertools.product(_ARCH_ALPHA, repeat=n)))
              for n in range(1, 5)]
    if tier == "thorough":
        blocks.append((G.forward_dag_orders(5, 5), list(itertools.product(_ARCH_ALPHA_5, repeat=5))))
    for gos, kl in blocks:
        total = len(gos) * len(kl)
        first = (shard - item) % nshards
        for k in range(first, total, nshards):
            g, o = divmod(k, len(kl))
            if env.wd.exhausted:
                break
            _eval_archive(env, gos[g], kl[o], tally)
            if k == first and len(gos[g]) >= 3:
                tally.sample(ARCH, G.graph_json(gos[g], kinds=kl[o], extra={"task_identifier": "//:t0"}))
        item += total
    return tally, not env.wd.exhausted


def run(tier, seed):
    t0 = time.time()
    root = tempfile.mkdtemp(prefix="verif-")
    try:
        tallies = G.run_sharded(_worker, {"tier": tier, "root": root}, nshards=G.n_processes() * 4)
    finally:
        shutil.rmtree(root, ignore_errors=True)
    total = G.merge_tallies([t for t, _ in tallies], NAMES)
    complete = all(c for _, c in tallies)
    wall = time.time() - t0
    out = []
    for name, fn in ((TRAV, F_TRAVERSE), (ARCH, F_ARCHIVE)):
        c = total.get(name)
        out.append(result(
            name, "C11", fn, _scope(name, tier), exhaustive=complete, evaluations=c["ev"],
            distinct_nontrivial=c["nt"], rule=RULES[name], failures=total.failures(name),
            samples=c["samples"], wall_s=wall, n_failures=c["nf"]))
    return out


if __name__ == "__main__":
    from runtime.common import main

    main(run)
