"""C13 (gc removes exactly the unrecorded experiment outputs), C17 (same behaviour from any
directory of the project; nearest-ancestor project root) and C18 (combine links).

Real code driven: conductor.cli.gc.main (through the cli_command wrapper, after chdir into a
scratch project with a real sqlite version index), Context.from_cwd,
CombineOutputs.start_execution.
"""
import argparse
import contextlib
import io
import itertools
import json
import multiprocessing
import os
import pathlib
import shutil
import signal
import tempfile
import time


def _mkscratch():
    """tempfile.mkdtemp(prefix="verif-"), on tmpfs when TMPDIR is not set (directory-heavy scenarios
    are ~4x faster there and do not contend on the ext4 journal when sharded over 16 workers)."""
    base = os.environ.get("TMPDIR") or ("/dev/shm" if os.access("/dev/shm", os.W_OK | os.X_OK) else None)
    return tempfile.mkdtemp(prefix="verif-", dir=base)


_POOL_TIMEOUT_S = 3600    # a dead worker must not hang the driver for ever


def _safe(fn):
    """Pool workers must only raise picklable exceptions (a ConductorError with keyword-only
    constructor arguments cannot be unpickled in the parent and would hang the pool)."""
    import functools
    import traceback

    @functools.wraps(fn)
    def wrapper(job):
        try:
            return fn(job)
        except BaseException:
            raise RuntimeError("harness worker %s crashed on job %r:\n%s"
                               % (fn.__name__, job, traceback.format_exc())) from None
    return wrapper


# --------------------------------------------------------------------------- accumulator
def _size(inp):
    text = json.dumps(inp, default=str, sort_keys=True)
    return (len(text), text)


class Acc:
    def __init__(self):
        self.ev = 0
        self.nt = 0
        self.nf = 0
        self.fails = []
        self.samples = []
        self.classes = {}

    def sample(self, inp, cap=3):
        if len(self.samples) < cap:
            self.samples.append(inp)

    def fail(self, clause, cls, inp, expected, observed):
        self.nf += 1
        self.classes[cls] = self.classes.get(cls, 0) + 1
        self.fails.append({"clause": clause, "class": cls, "input": inp,
                           "expected": str(expected), "observed": str(observed)})
        if len(self.fails) > 200:
            self._trim()

    def _trim(self):
        per = {}
        for f in sorted(self.fails, key=lambda f: _size(f["input"])):
            per.setdefault(f["class"], [])
            if len(per[f["class"]]) < 5:
                per[f["class"]].append(f)
        self.fails = [f for fs in per.values() for f in fs]

    def merge(self, other):
        self.ev += other.ev
        self.nt += other.nt
        self.nf += other.nf
        for k, v in other.classes.items():
            self.classes[k] = self.classes.get(k, 0) + v
        self.fails.extend(other.fails)
        self._trim()
        for s in other.samples:
            self.sample(s)

    def selected_failures(self):
        ordered = sorted(self.fails, key=lambda f: _size(f["input"]))
        first, seen = [], set()
        for f in ordered:
            if f["class"] not in seen:
                seen.add(f["class"])
                first.append(f)
        rest = [f for f in ordered if all(f is not g for g in first)]
        chosen = (first + rest)[:5]
        return sorted(chosen, key=lambda f: _size(f["input"]))

    def result(self, name, prop, function, scope, exhaustive, rule, wall):
        from runtime.common import result
        r = result(name, prop, function, scope, exhaustive=exhaustive, evaluations=self.ev,
                   distinct_nontrivial=self.nt, rule=rule, failures=self.selected_failures(),
                   samples=self.samples, wall_s=wall, n_failures=self.nf)
        r["failure_classes"] = dict(sorted(self.classes.items()))
        return r


# --------------------------------------------------------------------------- grammar oracle
_NAME_CHARS = set("abcdefghijklmnopqrstuvwxyzABCDEFGHIJKLMNOPQRSTUVWXYZ0123456789_-")
_DIGITS = set("0123456789")


def g_name(s):
    return len(s) > 0 and all(ch in _NAME_CHARS for ch in s)


def g_experiment_dir(s):
    i = s.find(".")
    if i < 0 or not g_name(s[:i]) or not s[i:].startswith(".task."):
        return None
    ts = s[i + len(".task."):]
    if len(ts) == 0 or not all(ch in _DIGITS for ch in ts) or ts[0] == "0":
        return None
    return (s[:i], int(ts))


def g_task_dir(s):
    i = s.find(".")
    return i >= 0 and g_name(s[:i]) and s[i:] == ".task"


def o_to_delete(cond_out, recorded):
    """Experiment output directories that are not nested inside a task output directory and
    whose (identifier, timestamp) is not recorded.  recorded: set of (path parts, name, ts)."""
    out = []

    def explore(d, parts):
        for child in sorted(os.listdir(d)):
            full = os.path.join(d, child)
            if os.path.islink(full) or not os.path.isdir(full):
                continue
            e = g_experiment_dir(child)
            if e is not None:
                if (parts, e[0], e[1]) not in recorded:
                    out.append(full)
                continue
            if g_task_dir(child):
                continue
            explore(full, parts + (child,))

    explore(str(cond_out), ())
    return sorted(out)


# --------------------------------------------------------------------------- gc scenarios
# (label, directories to create (relative to cond-out), files to create, recorded rows)
GC_ENTRIES = [
    ("recorded x.task.5", ["x.task.5"], ["x.task.5/out.txt"], [("//:x", 5)]),
    ("unrecorded x.task.6", ["x.task.6"], ["x.task.6/out.txt"], []),
    ("task dir x.task holding y.task.7", ["x.task/y.task.7"], ["x.task/y.task.7/keep.txt"], []),
    ("FILE z.task.5", [], ["z.task.5"], []),
    ("plain dir with w.task.8 (unrecorded) and w.task.9 (recorded)", ["plain/w.task.8", "plain/w.task.9"],
     ["plain/note.txt"], [("//plain:w", 9)]),
    ("recorded v.task.3 holding inner.task.4", ["v.task.3/inner.task.4"], ["v.task.3/inner.task.4/f"], [("//:v", 3)]),
    ("unrecorded u.task.2 holding inner.task.4", ["u.task.2/inner.task.4"], [], []),
    ("leading zero q.task.05", ["q.task.05"], ["q.task.05/f"], []),
    ("newline dir n.task.5\\n", ["n.task.5\n"], ["n.task.5\n/f"], []),
    ("nested a/b: x.task.5 (unrecorded there) and r.task.5 (recorded)", ["a/b/x.task.5", "a/b/r.task.5"], [],
     [("//a/b:r", 5), ("//:gone", 4)]),
]
FLAG_SETS = [("", False, False), ("-n", True, False), ("-v", False, True), ("-n -v", True, True)]


_INDEX_TEMPLATES = {}


def _index_template(scratch, rows):
    """A committed real version index holding `rows`, built once per distinct row set and copied
    into every scenario (sqlite commits fsync; building one per scenario dominates the run)."""
    import conductor.execution.version_index as vi
    key = (str(scratch), tuple(rows))
    if key not in _INDEX_TEMPLATES:
        path = scratch / "templates" / ("t%d" % len(_INDEX_TEMPLATES)) / "version_index.sqlite"
        import sqlite3
        index = vi.VersionIndex.create_or_load(path)      # the real schema / format version
        index._conn.close()
        conn = sqlite3.connect(str(path))                 # rows by explicit column names (fixture)
        conn.executemany("INSERT INTO version_index (task_identifier, timestamp, git_commit_hash, has_uncommitted_changes) VALUES (?, ?, ?, ?)",
                         [(ident, ts, None, 0) for ident, ts in rows])
        conn.commit()
        conn.close()
        _INDEX_TEMPLATES[key] = path
    return _INDEX_TEMPLATES[key]


def _build_project(scratch, root, present):

    cond_out = root / "cond-out"
    (root / "sub" / "dir").mkdir(parents=True)
    (root / "cond_config.toml").write_text("")
    cond_out.mkdir()
    rows = []
    for i in present:
        _, dirs, files, recs = GC_ENTRIES[i]
        for d in dirs:
            (cond_out / d).mkdir(parents=True, exist_ok=True)
        for f in files:
            p = cond_out / f
            p.parent.mkdir(parents=True, exist_ok=True)
            p.write_text("data:" + f)
        rows.extend(recs)
    shutil.copyfile(_index_template(scratch, rows), cond_out / "version_index.sqlite")
    recorded = set()
    for ident, ts in rows:
        path, name = ident[2:].split(":")
        recorded.add((tuple(p for p in path.split("/") if p), name, ts))
    return cond_out, recorded, sorted(rows)


def _snapshot(cond_out):
    out = set()
    for base, dirs, files in os.walk(str(cond_out)):
        for n in dirs + files:
            out.add(os.path.join(base, n))
    return out


def _index_rows(cond_out):
    import sqlite3
    conn = sqlite3.connect(str(cond_out / "version_index.sqlite"))
    try:
        return sorted(conn.execute("SELECT task_identifier, timestamp FROM version_index").fetchall())
    finally:
        conn.close()


def _run_gc(cwd, dry_run, verbose):
    """Runs the real `cond gc` entry point in-process.  Returns (exit, stdout)."""
    import conductor.cli.gc as gc
    args = argparse.Namespace(dry_run=dry_run, verbose=verbose, debug=False)
    old_cwd = os.getcwd()
    old_int, old_term = signal.getsignal(signal.SIGINT), signal.getsignal(signal.SIGTERM)
    out, err = io.StringIO(), io.StringIO()
    try:
        os.chdir(cwd)
        with contextlib.redirect_stdout(out), contextlib.redirect_stderr(err):
            try:
                gc.main(args)
                status = "ok"
            except SystemExit as ex:
                status = "exit(%s): %s" % (ex.code, err.getvalue().strip())
            except Exception as ex:  # what the user would see as a traceback
                status = "%s: %s" % (type(ex).__name__, ex)
    finally:
        os.chdir(old_cwd)
        signal.signal(signal.SIGINT, old_int)
        signal.signal(signal.SIGTERM, old_term)
    return status, out.getvalue()


def _listed(stdout, prefix, cwd):
    """Absolute paths listed with the given prefix ('Would delete' / 'Deleting')."""
    items = stdout.split(prefix + " ")[1:]
    paths = []
    for it in items:
        if it.endswith("\n"):
            it = it[:-1]
        paths.append(os.path.normpath(os.path.join(str(cwd), it)))
    return sorted(paths)


def _classify_extra(path, cond_out, recorded):
    rel = os.path.relpath(path, str(cond_out))
    parts = rel.split(os.sep)
    name = parts[-1]
    if any(g_task_dir(p) or g_experiment_dir(p) is not None for p in parts[:-1]):
        return "deleted-inside-task-dir"
    if name.endswith("\n") and g_experiment_dir(name[:-1]) is not None:
        return "trailing-newline-accepted"
    e = g_experiment_dir(name)
    if e is not None and (tuple(parts[:-1]), e[0], e[1]) in recorded:
        return "recorded-version-deleted"
    if g_task_dir(name):
        return "regular-task-dir-deleted"
    return "non-experiment-dir-deleted"


def _crash_class(status):
    if status.startswith("ValueError") and "subpath" in status:
        return "relative_to-cwd-ValueError"
    if status.startswith("exit("):
        return "gc-exits-with-error"
    return "gc-crashes-" + status.split(":")[0]


@_safe
def _gc_worker(job):
    shard, n_shards, n_entries = job
    t_begin = time.time()
    dele, dry, same = Acc(), Acc(), Acc()
    scratch = pathlib.Path(_mkscratch()).resolve()
    try:
        counter = 0
        for mask in range(2 ** n_entries):
            if mask % n_shards != shard:
                continue
            present = [i for i in range(n_entries) if (mask >> i) & 1]
            labels = [GC_ENTRIES[i][0] for i in present]
            results = {}
            for flags, dry_run, verbose in FLAG_SETS:
                for where in ("root", "sub"):
                    counter += 1
                    root = scratch / ("p%d" % counter)
                    root.mkdir()
                    cond_out, recorded, rows = _build_project(scratch, root, present)
                    before = _snapshot(cond_out)
                    expected = o_to_delete(cond_out, recorded)
                    cwd = root if where == "root" else root / "sub" / "dir"
                    status, stdout = _run_gc(cwd, dry_run, verbose)
                    status = status.replace(str(root), "<root>")
                    after = _snapshot(cond_out)
                    gone_roots = sorted(p for p in before - after
                                        if os.path.dirname(p) in after or os.path.dirname(p) == str(cond_out))
                    rel = lambda ps: [os.path.relpath(p, str(root)) for p in ps]
                    inp = {"cond_out_entries": labels, "recorded_rows": rows, "flags": flags,
                           "cwd": "." if where == "root" else "sub/dir"}
                    listed = _listed(stdout, "Would delete" if dry_run else "Deleting", cwd)
                    results[(flags, where)] = (status, rel(gone_roots), rel(listed))
                    rows_after = _index_rows(cond_out)
                    new_stuff = after - before
                    if where == "root" and not dry_run:
                        a = dele
                        a.ev += 1
                        if expected and len(present) >= 2:
                            a.nt += 1
                            a.sample(inp)
                        if status != "ok":
                            a.fail("no_exception", _crash_class(status), inp, "ok", status)
                        else:
                            extra = [p for p in gone_roots if p not in expected]
                            missing = [p for p in expected if p not in gone_roots]
                            if extra:
                                a.fail("deletes_only_unrecorded", _classify_extra(extra[0], cond_out, recorded), inp,
                                       rel(expected), rel(gone_roots))
                            elif missing:
                                a.fail("deletes_all_unrecorded", "unrecorded-output-kept", inp, rel(expected),
                                       rel(gone_roots))
                            elif rows_after != rows:
                                a.fail("index_untouched", "gc-changes-version-index", inp, rows, rows_after)
                            elif new_stuff:
                                a.fail("creates_nothing", "gc-creates-files", inp, "nothing new", rel(sorted(new_stuff)))
                            elif verbose and listed != expected:
                                a.fail("verbose_lists_exactly", "verbose-listing-differs", inp, rel(expected), rel(listed))
                            elif not verbose and stdout != "":
                                a.fail("quiet_without_verbose", "prints-without-verbose", inp, "", stdout)
                    if where == "root" and dry_run:
                        a = dry
                        a.ev += 1
                        if expected and len(present) >= 2:
                            a.nt += 1
                            a.sample(inp)
                        if status != "ok":
                            a.fail("no_exception", _crash_class(status), inp, "ok", status)
                        elif gone_roots or new_stuff:
                            a.fail("deletes_nothing", "dry-run-deletes", inp, "nothing deleted", rel(gone_roots))
                        elif rows_after != rows:
                            a.fail("index_untouched", "gc-changes-version-index", inp, rows, rows_after)
                        elif listed != expected:
                            extra = [p for p in listed if p not in expected]
                            cls = _classify_extra(extra[0], cond_out, recorded).replace("deleted", "listed") if extra \
                                else "unrecorded-output-not-listed"
                            a.fail("lists_exactly", cls, inp, rel(expected), rel(listed))
                    shutil.rmtree(root, ignore_errors=True)
            for flags, _, _ in FLAG_SETS:
                r, s = results[(flags, "root")], results[(flags, "sub")]
                inp = {"cond_out_entries": labels, "flags": flags, "cwd": ["." , "sub/dir"]}
                same.ev += 2
                if r[1] or r[2]:
                    same.nt += 1
                    same.sample(inp)
                if r[0] != s[0]:
                    bad = s[0] if s[0] != "ok" else r[0]
                    same.fail("same_exit_behaviour", _crash_class(bad), inp, "from root: " + r[0],
                              "from sub/dir: " + s[0])
                elif r[1] != s[1]:
                    same.fail("same_deletions", "deletions-depend-on-cwd", inp, r[1], s[1])
                elif r[2] != s[2]:
                    same.fail("same_listing", "listing-depends-on-cwd", inp, r[2], s[2])
    finally:
        shutil.rmtree(scratch, ignore_errors=True)
    return dele, dry, same, time.time() - t_begin


# --------------------------------------------------------------------------- from_cwd
def _from_cwd():
    from conductor.context import Context
    import conductor.errors as errors

    a = Acc()
    scratch = pathlib.Path(_mkscratch()).resolve()
    old_cwd = os.getcwd()
    try:
        for anc in [scratch] + list(scratch.parents):
            if (anc / "cond_config.toml").is_file():
                raise RuntimeError("harness: %s has a cond_config.toml; cannot test MissingProjectRoot" % anc)
        outer = scratch / "outer"
        proj = outer / "proj"
        nested = proj / "nested"
        for d in (proj / "a" / "b", nested / "c" / "d", proj / "cond-out" / "x", outer / "other" / "deep",
                  outer / "dircfg" / "cond_config.toml", outer / "dircfg" / "below",
                  proj / "cfgdir" / "cond_config.toml" / "inner"):
            d.mkdir(parents=True)
        (proj / "cond_config.toml").write_text("")
        (nested / "cond_config.toml").write_text("disable_git = true\n")
        cases = [
            (proj, proj), (proj / "a", proj), (proj / "a" / "b", proj), (proj / "cond-out", proj),
            (proj / "cond-out" / "x", proj), (nested, nested), (nested / "c", nested), (nested / "c" / "d", nested),
            (proj / "cfgdir", proj), (proj / "cfgdir" / "cond_config.toml" / "inner", proj),
            (outer, None), (outer / "other", None), (outer / "other" / "deep", None),
            (outer / "dircfg", None), (outer / "dircfg" / "below", None), (scratch, None),
        ]
        links = scratch / "links"          # symlinks that live OUTSIDE every project and point into the tree
        links.mkdir()
        old_pwd = os.environ.get("PWD")
        for k, (cwd, exp_root) in enumerate(cases):
            link = links / ("l%d" % k)
            os.symlink(cwd, link)
            # how the directory was entered / what the shell exported: $PWD unset, physical, logical (through the
            # symlink, as `cd ~/shortcut` leaves it), stale (left over from another directory)
            for how, enter, pwd in (("PWD-unset", cwd, None), ("PWD-physical", cwd, str(cwd)),
                                    ("entered-through-symlink-PWD-logical", link, str(link)),
                                    ("PWD-stale", cwd, str(outer / "other"))):
                inp = {"cwd": str(cwd.relative_to(scratch)), "entered_as": how,
                       "config_files": ["outer/proj/cond_config.toml", "outer/proj/nested/cond_config.toml"],
                       "config_named_directories": ["outer/dircfg/cond_config.toml/", "outer/proj/cfgdir/cond_config.toml/"]}
                a.ev += 1
                if exp_root is not None and cwd != exp_root:
                    a.nt += 1
                    a.sample(inp)
                os.chdir(enter)
                if pwd is None:
                    os.environ.pop("PWD", None)
                else:
                    os.environ["PWD"] = pwd
                try:
                    ctx = Context.from_cwd()
                    got = ctx.project_root
                    got_out = ctx.output_path
                    ctx.version_index._conn.close()
                except errors.MissingProjectRoot:
                    got, got_out = None, None
                except Exception as ex:
                    got, got_out = "%s: %s" % (type(ex).__name__, ex), None
                finally:
                    os.chdir(old_cwd)
                    if old_pwd is None:
                        os.environ.pop("PWD", None)
                    else:
                        os.environ["PWD"] = old_pwd
                if got != exp_root:
                    if exp_root is None:
                        cls = "project-root-found-outside-a-project"
                    elif got is None:
                        cls = "project-root-not-found"
                    elif isinstance(got, str):
                        cls = "from_cwd-raises"
                    else:
                        cls = "not-the-nearest-ancestor"
                    if how != "PWD-unset":
                        cls += "-when-" + how
                    a.fail("nearest_ancestor", cls, inp, exp_root, got)
                elif exp_root is not None and got_out != exp_root / "cond-out":
                    a.fail("output_path", "output-path-not-under-root", inp, exp_root / "cond-out", got_out)
    finally:
        os.chdir(old_cwd)
        shutil.rmtree(scratch, ignore_errors=True)
    return a


# --------------------------------------------------------------------------- combine
DEP_STATES = ["non-empty", "empty", "missing"]
PRE_STATES = ["none", "symlink", "dir", "file"]
DEP_SPECS = [("d1", ("x",), "x/d1.task"), ("e2", (), "e2.task.5"), ("d3", ("y", "z"), "y/z/d3.task")]


def _describe(path):
    """A comparable description of a directory entry (without following the entry itself)."""
    p = str(path)
    if os.path.islink(p):
        return ("symlink", os.readlink(p))
    if os.path.isdir(p):
        return ("dir", tuple(sorted(os.listdir(p))))
    if os.path.isfile(p):
        with open(p, "rb") as f:
            return ("file", f.read())
    return ("absent",)


@_safe
def _combine_worker(job):
    shard, n_shards, n_deps_list = job
    t_begin = time.time()
    from conductor.execution.ops.combine_outputs import CombineOutputs
    from conductor.execution.operation_state import OperationState
    from conductor.task_identifier import TaskIdentifier
    import conductor.errors as errors

    a = Acc()
    scratch = pathlib.Path(_mkscratch()).resolve()
    try:
        n = -1
        for n_deps in n_deps_list:
            specs = DEP_SPECS[:n_deps]
            for states in itertools.product(DEP_STATES, repeat=n_deps):
                for pres in itertools.product(PRE_STATES, repeat=n_deps):
                    for out_exists in (True, False):
                        if not out_exists and any(p != "none" for p in pres):
                            continue
                        n += 1
                        if n % n_shards != shard:
                            continue
                        root = scratch / ("c%d" % n)
                        cond_out = root / "cond-out"
                        output = cond_out / "x" / "comb.task"
                        elsewhere = cond_out / "old" / "target.task.1"
                        elsewhere.mkdir(parents=True)
                        (elsewhere / "old.txt").write_text("old")
                        if out_exists:
                            output.mkdir(parents=True)
                            (output / "keep.txt").write_text("keep")
                            (output / "otherdir").mkdir()
                            (output / "otherlink").symlink_to(os.path.relpath(elsewhere, output))
                        deps = []
                        for (name, parts, rel), st, pre in zip(specs, states, pres):
                            d = cond_out / rel
                            if st != "missing":
                                d.mkdir(parents=True)
                            if st == "non-empty":
                                (d / "result.csv").write_text("r:" + name)
                            deps.append((TaskIdentifier(pathlib.Path(*parts), name), d))
                            entry = output / name
                            if pre == "symlink":
                                entry.symlink_to(os.path.relpath(elsewhere, output))
                            elif pre == "dir":
                                entry.mkdir()
                                (entry / "mine.txt").write_text("mine")
                            elif pre == "file":
                                entry.write_text("a file")
                        before = {nm: _describe(output / nm) for nm in
                                  ["keep.txt", "otherdir", "otherlink"] + [s[0] for s in specs]}
                        dep_before = {s[0]: _describe(cond_out / s[2]) for s in specs}
                        inp = {"deps": [{"name": s[0], "dir": "cond-out/" + s[2], "state": st, "existing_entry": pre}
                                        for s, st, pre in zip(specs, states, pres)],
                               "output_dir_exists": out_exists}
                        op = CombineOutputs(initial_state=OperationState.QUEUED, task=None,
                                            identifier=TaskIdentifier(pathlib.Path("x"), "comb"),
                                            output_path=output, deps_output_paths=deps)
                        a.ev += 1
                        if sum(1 for st in states if st == "non-empty") >= 1 and any(p != "none" for p in pres):
                            a.nt += 1
                            a.sample(inp)
                        try:
                            handle = op.start_execution(None, None)
                            got = "ok"
                        except errors.CombineOutputFileConflict:
                            got = "CombineOutputFileConflict"
                        except Exception as ex:
                            got = "%s: %s" % (type(ex).__name__, ex)
                        conflict = any(st == "non-empty" and pre in ("dir", "file") for st, pre in zip(states, pres))
                        exp = "CombineOutputFileConflict" if conflict else "ok"
                        after = {nm: _describe(output / nm) for nm in before}
                        problem = None
                        if got != exp:
                            if got == "ok":
                                cls = "conflicting-entry-overwritten-or-ignored"
                            elif exp == "ok":
                                cls = "combine-raises" if not got.startswith("CombineOutputFileConflict") \
                                    else "conflict-reported-without-conflict"
                            else:
                                cls = "conflict-raises-other-error"
                            problem = ("conflict_iff", cls, exp, got)
                        elif got == "ok" and (handle is None or not handle.is_sync):
                            problem = ("sync_handle", "combine-handle-not-sync", "sync handle", handle)
                        if problem is None:
                            for nm in ("keep.txt", "otherdir", "otherlink"):
                                if after[nm] != before[nm]:
                                    problem = ("other_entries_untouched", "unrelated-entry-modified", before[nm], after[nm])
                            for s in specs:
                                if _describe(cond_out / s[2]) != dep_before[s[0]]:
                                    problem = ("dep_dirs_untouched", "dependency-output-modified",
                                               dep_before[s[0]], _describe(cond_out / s[2]))
                        if problem is None:
                            for (name, parts, rel), st, pre in zip(specs, states, pres):
                                entry = output / name
                                if st == "non-empty" and pre in ("dir", "file"):
                                    if after[name] != before[name]:
                                        problem = ("conflicting_entry_untouched", "conflicting-entry-modified",
                                                   before[name], after[name])
                                elif st == "non-empty" and not conflict:
                                    target = cond_out / rel
                                    if not os.path.islink(str(entry)):
                                        problem = ("entry_is_link", "dependency-not-linked", "symlink " + name, after[name])
                                    elif os.path.realpath(str(entry)) != os.path.realpath(str(target)):
                                        problem = ("link_resolves_to_dep_dir", "link-resolves-elsewhere",
                                                   os.path.realpath(str(target)), os.path.realpath(str(entry)))
                                    elif sorted(os.listdir(str(entry))) != ["result.csv"]:
                                        problem = ("link_shows_dep_output", "link-content-differs", ["result.csv"],
                                                   os.listdir(str(entry)))
                                elif st != "non-empty" and after[name] != before[name]:
                                    problem = ("skipped_dep_entry_untouched", "entry-of-skipped-dependency-modified",
                                               before[name], after[name])
                                if problem is not None:
                                    break
                        if problem is not None:
                            a.fail(problem[0], problem[1], inp, problem[2], problem[3])
                        shutil.rmtree(root, ignore_errors=True)
    finally:
        shutil.rmtree(scratch, ignore_errors=True)
    return a, time.time() - t_begin


@_safe
def _from_cwd_worker(_):
    t0 = time.time()
    return _from_cwd(), time.time() - t0


# --------------------------------------------------------------------------- driver
def run(tier, seed):
    quick = tier == "quick"
    n_proc = min(16, os.cpu_count() or 1)
    mp = multiprocessing.get_context("fork")
    n_entries = len(GC_ENTRIES)
    n_shards = n_proc * 2
    dele, dry, same, comb = Acc(), Acc(), Acc(), Acc()
    with mp.Pool(processes=n_proc) as pool:
        t0 = time.time()
        gc_job = pool.map_async(_gc_worker, [(i, n_shards, n_entries) for i in range(n_shards)], chunksize=1)
        comb_job = pool.map_async(_combine_worker, [(i, n_shards, [1, 2, 3])
                                                    for i in range(n_shards)], chunksize=1)
        cwd_job = pool.map_async(_from_cwd_worker, [0])
        for d, r, s, _w in gc_job.get(_POOL_TIMEOUT_S):
            dele.merge(d)
            dry.merge(r)
            same.merge(s)
        wall_gc = time.time() - t0
        wall_comb = 0.0
        for c, w in comb_job.get(_POOL_TIMEOUT_S):
            comb.merge(c)
            wall_comb = max(wall_comb, w)
        cwd_acc, wall_cwd = cwd_job.get(_POOL_TIMEOUT_S)[0]
    entry_labels = [e[0] for e in GC_ENTRIES[:n_entries]]
    gc_scope = ("all %d subsets of %d cond-out entries %s in a scratch project with a real sqlite version index"
                % (2 ** n_entries, n_entries, json.dumps(entry_labels)))
    return [
        dele.result("C13.gc.deletes_exactly_unrecorded", ["C13", "C06", "C08"], "cli/gc.py::main",
                    gc_scope + " x {no flag, -v}, run from the project root", True,
                    "distinct (tree, flags); non-trivial = at least two entries and something to delete", wall_gc),
        dry.result("C13.gc.dry_run_lists_exactly_and_deletes_nothing", "C13", "cli/gc.py::main",
                   gc_scope + " x {-n, -n -v}, run from the project root", True,
                   "distinct (tree, flags); non-trivial = at least two entries and something to list", wall_gc),
        same.result("C17.gc.same_from_subdirectory", ["C17", "C13"], "cli/gc.py::main",
                    gc_scope + " x {no flag, -n, -v, -n -v}, each run from the project root and from sub/dir on "
                    "identical trees; exit behaviour, deletions and listed paths compared", True,
                    "distinct (tree, flags) pairs of runs; non-trivial = something is deleted or listed from the root",
                    wall_gc),
        cwd_acc.result("C17.from_cwd.nearest_ancestor", "C17", "context.py::Context.from_cwd",
                       "16 working directories x 4 ways of entering them ($PWD unset / physical / logical through a symlink outside the project / stale) in a scratch tree: project root, nested directories, inside cond-out, "
                       "a nested project (own cond_config.toml), directories named cond_config.toml, outside any "
                       "project", True,
                       "distinct working directories; non-trivial = inside a project but not at its root", wall_cwd),
        comb.result("C18.combine.links_resolve_to_dep_dirs", "C18",
                    "execution/ops/combine_outputs.py::CombineOutputs.start_execution",
                    "%s dependencies (different depths under cond-out) x dependency dir {non-empty, empty, missing} x "
                    "existing entry of that name {none, symlink, real dir, real file} x output dir pre-existing (with "
                    "unrelated file / dir / link) or not; dangling links excluded (stated assumption of C18)"
                    % "1..3", True,
                    "distinct scenarios; non-trivial = a non-empty dependency and some pre-existing entry", wall_comb),
    ]


if __name__ == "__main__":
    from runtime.common import main
    main(run)
