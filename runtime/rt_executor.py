"""Bounded stand-in for the scheduler contracts (C01 executor part, C03, C04,
C09): the REAL `Executor.run_plan` with real `ExecutionPlan` objects whose
operations are a test double `FakeOp(Operation)`; child processes are simulated:
`SigchldHelper` (as seen from `conductor.execution.executor`) is replaced by a
fake whose `wait()` answers with a (pid, returncode) chosen by an enumerated
completion policy, and `os.getpgid` / `os.killpg` of that module record kills.

Scope
  forward DAGs with <= N ops (op i may depend on op j only for i < j; listing
  order of exe_deps fixed) x parallelizable assignment x outcome per op in
  {ok, nonzero, launch_error, sync} x jobs in {1,2,3} (jobs = 3 for configurations
  with >= 3 parallelizable ops; otherwise it cannot differ from jobs = 2) x
  stop_on_first_error x unknown-pid injection {never, one unknown pid before
  every real completion} (injection under jobs = 2) x ALL completion orders
  (every choice of the next finishing in-flight pid).
      quick    : N = 4; for 4 ops at most two ops deviate from "ok"
      thorough : N = 4 with the full outcome product; plus 5 ops with at most
                 one op deviating from "ok"
  If a configuration had more than _ORDER_CAP completion orders the rest would
  be sampled with `seed` and `exhaustive` reported False (does not happen for
  these sizes: the cap was never reached).
"""
import contextlib
import functools
import io
import itertools
import random
import re
import signal
import time

from runtime import graphs as G
from runtime.common import result

FUNCTION = "execution/executor.py::Executor.run_plan"

C01 = "C01.executor.start_only_after_deps_succeeded"
SKIP = "C03.executor.skip_closure"
REPORT = "C03.executor.report_and_exit"
STOP = "C03.executor.stop_early"
C04 = "C04.executor.jobs_bound_exclusive_slots"
C09 = "C09.executor.terminates_every_op_one_outcome"
NAMES = [C01, SKIP, REPORT, STOP, C04, C09]
PROPS = {C01: "C01", SKIP: "C03", REPORT: "C03", STOP: "C03", C04: "C04", C09: "C09"}
RULES = {
    C01: "distinct (DAG, parallelizable, outcomes, jobs, stop, unknown-pid mode, completion order) "
         "runs; non-trivial = the plan has at least one dependency edge",
    SKIP: "distinct runs without stop-early; non-trivial = an op that fails has at least one "
          "transitive dependent",
    REPORT: "distinct runs; non-trivial = at least one op fails",
    STOP: "distinct runs with stop_on_first_error; non-trivial = a failure is observed while "
          "another process is in flight or while ops are still waiting",
    C04: "distinct runs; non-trivial = jobs >= 2 and at least two ops were in flight together",
    C09: "distinct runs; non-trivial = at least two ops and (a failure, or two pids in flight "
         "together, or an unknown pid was delivered)",
}
OUTCOMES = ("ok", "nonzero", "launch_error", "sync")
_ORDER_CAP = 2000
_PGID_OFFSET = 100000
_UNKNOWN_PID = 999999


def _scope(tier):
    s = ("forward DAGs with <=4 ops x parallelizable assignments x outcomes {ok,nonzero,launch_error,"
         "sync} (4 ops: <=2 not ok) x jobs {1,2,3} (3 only with >=3 parallelizable ops) x "
         "stop_on_first_error x unknown-pid injection (with jobs=2) x all completion orders")
    if tier == "thorough":
        s = s.replace("(4 ops: <=2 not ok)", "(full product)") + "; plus 5 ops with <=1 op not ok"
    return s


@functools.lru_cache(maxsize=None)
def _configs(tier):
    """[(deps, par, outcomes)] identical in every process (cached per process)."""
    out = []
    for n in range(1, 5):
        dags = list(G.forward_dags(n))
        pars = list(itertools.product((False, True), repeat=n))
        outs = list(itertools.product(OUTCOMES, repeat=n))
        if n == 4 and tier != "thorough":
            outs = [o for o in outs if sum(1 for x in o if x != "ok") <= 2]
        for d in dags:
            for p in pars:
                for o in outs:
                    out.append((d, p, o))
    if tier == "thorough":
        n = 5
        outs = [o for o in itertools.product(OUTCOMES, repeat=n) if sum(1 for x in o if x != "ok") <= 1]
        for d in G.forward_dags(n):
            for p in itertools.product((False, True), repeat=n):
                for o in outs:
                    out.append((d, p, o))
    return out


def _run_modes(par):
    """(jobs, stop_on_first_error, unknown-pid mode) combinations of one
    configuration.  jobs = 3 only differs from jobs = 2 when three parallelizable
    ops can be in flight, so it is run for configurations with >= 3
    parallelizable ops; unknown pids are injected under jobs = 2 (the handling
    of an unknown pid does not depend on the number of slots)."""
    modes = []
    for jobs in (1, 2, 3):
        if jobs == 3 and sum(1 for p in par if p) < 3:
            continue
        for stop in (False, True):
            for unknown_mode in ((False, True) if jobs == 2 else (False,)):
                modes.append((jobs, stop, unknown_mode))
    return modes


# --------------------------------------------------------------------------
# the simulated world
# --------------------------------------------------------------------------


class _Blocked(BaseException):
    """The real program would block forever here (or exceeded the step budget)."""


class _World:
    def __init__(self, outcomes, choices, unknown_mode, budget):
        self.outcomes = outcomes
        self.choices = choices      # prefix of decisions; beyond it: choice 0
        self.trace = []             # [(choice, arity)] of all decisions taken
        self.unknown_mode = unknown_mode
        self.budget = budget
        self.t = 0
        self.events = []            # (t, kind, ...)
        self.running = []           # pids in start order
        self.pid_of = {}            # op index -> pid
        self.op_of = {}             # pid -> op index
        self.next_pid = 4000
        self.waits = 0
        self._owe_unknown = unknown_mode
        self.unknown_delivered = 0
        self.max_pids_inflight = 0

    def ev(self, kind, *rest):
        self.t += 1
        self.events.append((self.t, kind) + rest)
        return self.t

    def alloc_pid(self, idx):
        self.next_pid += 7
        pid = self.next_pid
        self.pid_of[idx] = pid
        self.op_of[pid] = idx
        self.running.append(pid)
        self.max_pids_inflight = max(self.max_pids_inflight, len(self.running))
        return pid

    def wait(self):
        self.waits += 1
        if self.waits > self.budget:
            raise _Blocked("step budget exceeded")
        if not self.running:
            raise _Blocked("wait() with no child process: blocks forever")
        if self.unknown_mode and self._owe_unknown:
            self._owe_unknown = False
            self.unknown_delivered += 1
            self.ev("unknown", _UNKNOWN_PID)
            return (_UNKNOWN_PID, 1)
        self._owe_unknown = self.unknown_mode
        arity = len(self.running)
        k = len(self.trace)
        c = self.choices[k] if k < len(self.choices) else 0
        if c >= arity:
            raise G.HarnessError("replay diverged: choice %d of %d" % (c, arity))
        self.trace.append((c, arity))
        pid = self.running.pop(c)
        rc = 3 if self.outcomes[self.op_of[pid]] == "nonzero" else 0
        self.ev("reaped", self.op_of[pid], pid, rc)
        return (pid, rc)


class _FakeSigchld:
    world = None

    @staticmethod
    def instance():
        return _FakeSigchld

    @staticmethod
    @contextlib.contextmanager
    def track():
        yield

    @staticmethod
    def wait():
        return _FakeSigchld.world.wait()


class _FakeOs:
    """Stands in for the `os` module inside conductor.execution.executor."""

    world = None

    def __init__(self, real):
        self._real = real

    def __getattr__(self, name):
        return getattr(self._real, name)

    def getpgid(self, pid):
        _FakeOs.world.ev("getpgid", pid)
        return pid + _PGID_OFFSET

    def killpg(self, pgid, sig):
        _FakeOs.world.ev("kill", pgid, int(sig))


class _FakeTask:
    def __init__(self, identifier):
        self.identifier = identifier


def _make_fakeop_class():
    from conductor.execution.ops.operation import Operation
    from conductor.execution.operation_state import OperationState
    from conductor.execution.handle import OperationExecutionHandle
    from conductor.errors import TaskFailed, TaskNonZeroExit

    class FakeOp(Operation):
        def __init__(self, world, idx, par, outcome, identifier):
            super().__init__(OperationState.QUEUED)
            self._w = world
            self.idx = idx
            self._par = par
            self.outcome = outcome
            self._task = _FakeTask(identifier)
            self.error = None

        @property
        def associated_task(self):
            return self._task

        @property
        def main_task(self):
            return self._task

        @property
        def parallelizable(self):
            return self._par

        def start_execution(self, ctx, slot):
            self._w.ev("start", self.idx, slot)
            if self.outcome == "launch_error":
                self.error = TaskFailed(task_identifier=self._task.identifier)
                self._w.ev("launch_error", self.idx)
                raise self.error
            if self.outcome == "sync":
                return OperationExecutionHandle.from_sync_execution()
            return OperationExecutionHandle.from_async_process(self._w.alloc_pid(self.idx))

        def finish_execution(self, handle, ctx):
            self._w.ev("finish", self.idx, handle.pid, handle.returncode)
            if handle.pid is not None and handle.returncode != 0:
                self.error = TaskNonZeroExit(task_identifier=self._task.identifier,
                                             code=handle.returncode)
                raise self.error

    return FakeOp


class _Env:
    def __init__(self):
        import os as real_os
        import conductor.execution.executor as X
        from conductor.execution.plan import ExecutionPlan
        from conductor.execution.operation_state import OperationState
        from conductor.errors import ConductorError

        self.X = X
        self.ExecutionPlan = ExecutionPlan
        self.State = OperationState
        self.ConductorError = ConductorError
        self.FakeOp = _make_fakeop_class()
        self.idents = [G.ident("//:op%d" % i) for i in range(6)]
        self.wd = G.Watchdog()
        self._saved = (X.SigchldHelper, X.os)
        X.SigchldHelper = _FakeSigchld
        X.os = _FakeOs(real_os)

    def restore(self):
        self.X.SigchldHelper, self.X.os = self._saved


# --------------------------------------------------------------------------
# oracle on the configuration
# --------------------------------------------------------------------------


def _expected_states(deps, outcomes):
    """SUCCEEDED / FAILED / SKIPPED per op without stop-early, from the property
    statement: an op fails iff it is started and its outcome is a failure; it is
    skipped iff some (transitive) dependency failed; everything else succeeds."""
    n = len(deps)
    st = [None] * n
    for i in reversed(range(n)):  # forward DAG: deps have larger indices
        if any(st[j] != "SUCCEEDED" for j in deps[i]):
            st[i] = "SKIPPED"
        elif outcomes[i] in ("nonzero", "launch_error"):
            st[i] = "FAILED"
        else:
            st[i] = "SUCCEEDED"
    return st


def _case_json(deps, par, outcomes, jobs, stop, unknown_mode, choices):
    n = len(deps)
    return {
        "ops": {"op%d" % i: {"exe_deps": ["op%d" % j for j in deps[i]],
                             "parallelizable": bool(par[i]), "outcome": outcomes[i]}
                for i in range(n)},
        "jobs": jobs, "stop_on_first_error": bool(stop),
        "unknown_pid_before_each_completion": bool(unknown_mode),
        "completion_choices": list(choices),
    }


def _section(lines, header):
    """Identifiers listed (two-space indented lines) under the line that
    contains `header`, up to the next empty line."""
    out = None
    for k, ln in enumerate(lines):
        if header in ln:
            out = []
            for nxt in lines[k + 1:]:
                if nxt.strip() == "":
                    break
                if nxt.startswith("  ") and not nxt.startswith("    "):
                    out.append(nxt.strip())
            break
    return out


# --------------------------------------------------------------------------
# one run + its checks
# --------------------------------------------------------------------------


def _run_once(env, deps, par, outcomes, jobs, stop, unknown_mode, choices, tally, tc):
    n = len(deps)
    world = _World(outcomes, choices, unknown_mode, budget=4 * n + 8)
    _FakeSigchld.world = world
    _FakeOs.world = world
    ops = [env.FakeOp(world, i, par[i], outcomes[i], env.idents[i]) for i in range(n)]
    for i in range(n):
        for j in deps[i]:
            ops[i].add_exe_dep(ops[j])
            ops[j].add_dep_of(ops[i])
    plan = env.ExecutionPlan(task_to_run=ops[0].main_task, all_ops=list(ops),
                             initial_ops=[o for o in ops if not o.exe_deps],
                             cached_tasks=[], num_tasks_to_run=n)
    executor = env.X.Executor(execution_slots=jobs)
    buf = io.StringIO()
    raised = None
    blocked = None
    with contextlib.redirect_stdout(buf):
        env.wd.arm()
        try:
            executor.run_plan(plan, object(), stop_on_first_error=stop)
        except _Blocked as b:
            blocked = b
        except G.NonTermination as nt:
            env.wd.trips += 1
            blocked = nt
        except env.ConductorError as ex:
            # includes the errors FakeOp raises on purpose and run_plan re-raises
            raised = ex
        except Exception as ex:  # noqa: BLE001 -- observation about the code under test
            if G.raised_by_harness(ex):
                raise
            raised = ex
        finally:
            env.wd.disarm()
    ev = world.events
    names = ["op%d" % i for i in range(n)]
    inp = None

    def the_input():
        nonlocal inp
        if inp is None:
            inp = _case_json(deps, par, outcomes, jobs, stop, unknown_mode,
                             [c for c, _ in world.trace])
        return inp

    n_bad = sum(1 for o in outcomes if o != "ok")
    size = (n, G.n_edges(deps), n_bad, jobs, int(stop), int(unknown_mode), len(world.trace))
    exp_state = _expected_states(deps, outcomes)
    exp_failed = {i for i in range(n) if exp_state[i] == "FAILED"}

    # ---- derived facts from the event log
    starts = {}      # op -> [t]
    start_slot = {}
    finish = {}      # op -> [(t, pid, rc)]
    reaped = {}      # op -> (t, rc)
    launch_err = {}  # op -> t
    kills = []       # (t, pgid, sig)
    fail_events = [] # (t, op)
    for e in ev:
        t, kind = e[0], e[1]
        if kind == "start":
            starts.setdefault(e[2], []).append(t)
            start_slot.setdefault(e[2], []).append(e[3])
        elif kind == "finish":
            finish.setdefault(e[2], []).append((t, e[3], e[4]))
            if e[3] is not None and e[4] != 0:
                fail_events.append((t, e[2]))
        elif kind == "reaped":
            reaped[e[2]] = (t, e[4])
        elif kind == "launch_error":
            launch_err[e[2]] = t
            fail_events.append((t, e[2]))
        elif kind == "kill":
            kills.append((t, e[2], e[3]))
    fail_events.sort()
    unexpected_exc = raised is not None and not isinstance(raised, env.ConductorError)

    # ---- C09 termination first: a blocked run has no meaningful final state
    nontrivial9 = n >= 2 and (n_bad > 0 or world.max_pids_inflight >= 2 or world.unknown_delivered > 0)
    tally.ev(C09, nontrivial9)
    if blocked is not None:
        tally.fail(C09, size, {
            "clause": "terminates", "class": "non-termination", "input": the_input(),
            "expected": "run_plan returns or raises after finitely many steps",
            "observed": str(blocked)})
        for nm in (C01, SKIP, REPORT, STOP, C04):
            if (nm == SKIP and stop) or (nm == STOP and not stop):
                continue
            tally.ev(nm, False)
        return world.trace
    problems9 = []
    for i in range(n):
        fl = finish.get(i, [])
        if len(fl) > 1:
            problems9.append("%s finished %d times" % (names[i], len(fl)))
        if len(starts.get(i, [])) > 1:
            problems9.append("%s started %d times" % (names[i], len(starts[i])))
        for (t, pid, rc) in fl:
            if i not in starts:
                problems9.append("%s finished but never started" % names[i])
            if outcomes[i] == "sync":
                if pid is not None:
                    problems9.append("%s (sync) finished with pid %r" % (names[i], pid))
            else:
                if pid != world.pid_of.get(i):
                    problems9.append("%s finished with pid %r, owns %r" % (names[i], pid, world.pid_of.get(i)))
                elif i not in reaped or reaped[i][0] > t or reaped[i][1] != rc:
                    problems9.append("%s finished with returncode %r, delivered %r" % (
                        names[i], rc, reaped.get(i)))
    if not stop and not unexpected_exc:
        for i in range(n):
            if ops[i].state not in (env.State.SUCCEEDED, env.State.FAILED, env.State.SKIPPED):
                problems9.append("%s ends in state %s" % (names[i], ops[i].state.name))
            started_ok = i in starts and i not in launch_err
            if started_ok and len(finish.get(i, [])) != 1:
                problems9.append("%s started but finish_execution called %d times" % (
                    names[i], len(finish.get(i, []))))
        completed = getattr(executor, "_completed_ops", None)
        if completed is not None:
            cnt = [sum(1 for c in completed if c is o) for o in ops]
            if any(c != 1 for c in cnt) or len(completed) != n:
                problems9.append("completed list counts %r" % (cnt,))
        if not hasattr(executor, "_num_tasks_dequeued"):
            raise G.HarnessError("Executor has no _num_tasks_dequeued")
        if executor._num_tasks_dequeued != plan.num_tasks_to_run:
            problems9.append("_num_tasks_dequeued=%r, num_tasks_to_run=%r" % (
                executor._num_tasks_dequeued, plan.num_tasks_to_run))
    if unexpected_exc:
        problems9.append("run_plan raised %s: %s" % (type(raised).__name__, raised))
    if problems9:
        cls = "unexpected-exception-" + type(raised).__name__ if unexpected_exc else (
            "completion-misattributed" if any("finished with" in p for p in problems9)
            else "op-without-single-outcome")
        tally.fail(C09, size, {
            "clause": "one_outcome", "class": cls, "input": the_input(),
            "expected": "every op exactly one of SUCCEEDED/FAILED/SKIPPED, each completion attributed "
                        "to the owner of the pid, dequeued == num_tasks_to_run",
            "observed": problems9})

    # ---- C01
    tally.ev(C01, G.n_edges(deps) > 0)
    problems = []
    for i, ts in starts.items():
        for t in ts:
            for d in sorted(tc[i]):
                ok_fin = [ft for (ft, pid, rc) in finish.get(d, [])
                          if ft < t and (pid is None or rc == 0) and outcomes[d] in ("ok", "sync")]
                if not ok_fin:
                    problems.append("%s started at t=%d before %s finished successfully" % (
                        names[i], t, names[d]))
    if problems:
        tally.fail(C01, size, {
            "clause": "start_after_deps", "class": "started-before-dependency-succeeded",
            "input": the_input(),
            "expected": "every (transitive) exe_dep finished successfully before the start",
            "observed": {"violations": problems[:6], "events": _show(ev)}})

    # ---- C03 skip closure (no stop-early)
    if not stop:
        tally.ev(SKIP, any(any(i in tc[u] for u in range(n)) for i in exp_failed))
        problems = []
        cls = None
        if not unexpected_exc:
            for i in range(n):
                got = ops[i].state.name
                if got != exp_state[i]:
                    problems.append("%s: expected %s, observed %s" % (names[i], exp_state[i], got))
                    if exp_state[i] == "SKIPPED":
                        cls = cls or "dependent-of-failed-op-not-skipped"
                    elif got == "SKIPPED":
                        cls = cls or "skipped-without-failed-dependency"
                    else:
                        cls = cls or "wrong-final-state"
                if exp_state[i] == "SKIPPED" and i in starts:
                    problems.append("%s must be skipped but was started" % names[i])
                    cls = cls or "dependent-of-failed-op-not-skipped"
                if exp_state[i] != "SKIPPED" and len(starts.get(i, [])) != 1:
                    problems.append("%s must run once, started %d times" % (
                        names[i], len(starts.get(i, []))))
                    cls = cls or "independent-op-not-run"
        if problems:
            tally.fail(SKIP, size, {
                "clause": "skip_closure", "class": cls, "input": the_input(),
                "expected": dict(zip(names, exp_state)), "observed": problems})

    # ---- C03 report and exit status
    tally.ev(REPORT, bool(exp_failed))
    out_lines = _ANSI.sub("", buf.getvalue()).split("\n")
    failed_sec = _section(out_lines, "Failed task(s)")
    skipped_sec = _section(out_lines, "Skipped task(s)")
    problems = []
    cls = None
    if not exp_failed:
        if raised is not None:
            problems.append("raised %s although no op fails" % type(raised).__name__)
            cls = "error-exit-without-failure"
        if failed_sec or skipped_sec:
            problems.append("failure sections printed without failure")
            cls = cls or "error-exit-without-failure"
    else:
        if raised is None:
            problems.append("returned normally although an op failed")
            cls = "failure-swallowed"
        elif not unexpected_exc:
            first = ops[fail_events[0][1]].error if fail_events else None
            if raised is not first:
                problems.append("raised %r, first failure stored %r" % (raised, first))
                cls = "wrong-error-raised"
        else:
            problems.append("raised %s: %s" % (type(raised).__name__, raised))
            cls = "unexpected-exception-" + type(raised).__name__
        want_failed = sorted(str(env.idents[i]) for _, i in fail_events)
        if sorted(failed_sec or []) != want_failed:
            problems.append("Failed task(s) section %r, failed ops %r" % (failed_sec, want_failed))
            cls = cls or "failed-section-wrong"
        if not stop:
            want_skipped = sorted(str(env.idents[i]) for i in range(n) if exp_state[i] == "SKIPPED")
        else:
            want_skipped = sorted(str(env.idents[i]) for i in range(n)
                                  if ops[i].state == env.State.SKIPPED)
            desc = set()
            for _, f in fail_events:
                desc.update(u for u in range(n) if f in tc[u])
            for i in range(n):
                if ops[i].state == env.State.SKIPPED and (i not in desc or i in starts):
                    problems.append("%s skipped without failed dependency" % names[i])
                    cls = cls or "skipped-without-failed-dependency"
        if sorted(skipped_sec or []) != want_skipped:
            problems.append("Skipped task(s) section %r, skipped ops %r" % (skipped_sec, want_skipped))
            cls = cls or "skipped-section-wrong"
    if problems:
        tally.fail(REPORT, size, {
            "clause": "report_and_exit", "class": cls, "input": the_input(),
            "expected": "normal return iff all ops succeed; else raise the first failure and list "
                        "exactly the failed / skipped tasks",
            "observed": problems})

    # ---- C03 stop early
    if stop:
        t_fail = fail_events[0][0] if fail_events else None
        inflight_at_fail = []
        if t_fail is not None:
            for i, pid in world.pid_of.items():
                st = starts[i][0]
                if st < t_fail and (i not in reaped or reaped[i][0] > t_fail):
                    inflight_at_fail.append(pid)
        not_started = [i for i in range(n) if i not in starts]
        tally.ev(STOP, t_fail is not None and (bool(inflight_at_fail) or bool(not_started)))
        problems = []
        cls = None
        if t_fail is not None:
            late = [names[i] for i, ts in starts.items() for t in ts if t > t_fail]
            if late:
                problems.append("started after the first failure: %r" % late)
                cls = "start-after-first-failure"
            want = {(pid + _PGID_OFFSET, int(signal.SIGTERM)) for pid in inflight_at_fail}
        else:
            want = set()
        got = {(pg, sg) for (t, pg, sg) in kills}
        if got != want:
            problems.append("killpg calls %r, expected %r" % (sorted(got), sorted(want)))
            cls = cls or ("inflight-process-group-not-terminated" if want - got else "unexpected-kill")
        if problems:
            tally.fail(STOP, size, {
                "clause": "stop_early", "class": cls, "input": the_input(),
                "expected": "no start after the first observed failure; SIGTERM to the process "
                            "group of every in-flight pid",
                "observed": {"problems": problems, "events": _show(ev)}})

    # ---- C04
    problems = []
    inflight = {}  # op -> slot
    overlapped = False
    for e in ev:
        t, kind = e[0], e[1]
        if kind == "start":
            i, slot = e[2], e[3]
            want_none = (not par[i]) or jobs == 1
            if (slot is None) != want_none:
                problems.append("%s got slot %r (parallelizable=%s, jobs=%d)" % (names[i], slot, par[i], jobs))
            if slot is not None:
                if not (isinstance(slot, int) and 0 <= slot < jobs):
                    problems.append("%s got slot %r outside [0,%d)" % (names[i], slot, jobs))
                if slot in [s for s in inflight.values() if s is not None]:
                    problems.append("%s got slot %r already held" % (names[i], slot))
            if inflight:
                overlapped = True
                if not par[i]:
                    problems.append("sequential %s started while %r in flight" % (
                        names[i], [names[k] for k in inflight]))
                if any(not par[k] for k in inflight):
                    problems.append("%s started while a sequential op is in flight" % names[i])
            if len(inflight) + 1 > jobs:
                problems.append("%d ops in flight with jobs=%d" % (len(inflight) + 1, jobs))
            inflight[i] = slot
        elif kind == "launch_error":
            inflight.pop(e[2], None)
        elif kind == "reaped":
            inflight.pop(e[2], None)
        elif kind == "finish":
            inflight.pop(e[2], None)
    tally.ev(C04, jobs >= 2 and overlapped)
    if problems:
        tally.fail(C04, size, {
            "clause": "jobs_slots",
            "class": "slot-contract-violated" if any("slot" in p for p in problems) else "concurrency-bound-violated",
            "input": the_input(),
            "expected": "in-flight <= jobs; sequential ops exclusive; distinct slots in [0,jobs); "
                        "slot None iff not parallelizable or jobs == 1",
            "observed": {"problems": problems[:6], "events": _show(ev)}})
    return world.trace


_ANSI = re.compile(r"\033\[[0-9;]*m")


def _show(ev):
    return ["%d:%s%s" % (e[0], e[1], list(e[2:])) for e in ev if e[1] != "getpgid"][:40]


def _explore(env, deps, par, outcomes, jobs, stop, unknown_mode, tally, tc, rng):
    """All completion orders by re-execution with decision prefixes (stateless
    search).  Returns (runs, exhaustive)."""
    pending = [[]]
    runs = 0
    while pending:
        prefix = pending.pop()
        trace = _run_once(env, deps, par, outcomes, jobs, stop, unknown_mode, prefix, tally, tc)
        runs += 1
        for pos in range(len(prefix), len(trace)):
            c, arity = trace[pos]
            for alt in range(1, arity):
                pending.append([x for x, _ in trace[:pos]] + [alt])
        if runs >= _ORDER_CAP and pending:
            rng.shuffle(pending)
            for prefix in pending[:50]:
                _run_once(env, deps, par, outcomes, jobs, stop, unknown_mode, prefix, tally, tc)
                runs += 1
            return runs, False
    return runs, True


def _worker(arg):
    shard, nshards, payload = arg
    env = _Env()
    tally = G.Tally(NAMES)
    rng = random.Random(payload["seed"] * 1000003 + shard)
    exhaustive = True
    try:
        cfgs = _configs(payload["tier"])
        last_deps, tc = None, None
        sampled = False
        for k in G.shard_range(len(cfgs), shard, nshards):
            deps, par, outcomes = cfgs[k]
            if env.wd.exhausted:
                exhaustive = False
                break
            if deps is not last_deps:
                last_deps, tc = deps, G.transitive_closure(deps)
            for jobs, stop, unknown_mode in _run_modes(par):
                _, ex = _explore(env, deps, par, outcomes, jobs, stop, unknown_mode,
                                 tally, tc, rng)
                exhaustive = exhaustive and ex
            if not sampled and len(deps) >= 3 and G.n_edges(deps) >= 2 and any(par):
                sampled = True
                for nm in NAMES:
                    tally.sample(nm, _case_json(deps, par, outcomes, 2, False, False, []))
    finally:
        env.restore()
    return tally, exhaustive


def run(tier, seed):
    t0 = time.time()
    res = G.run_sharded(_worker, {"tier": tier, "seed": seed}, nshards=G.n_processes() * 8)
    total = G.merge_tallies([r[0] for r in res], NAMES)
    exhaustive = all(r[1] for r in res)
    wall = time.time() - t0
    out = []
    for name in NAMES:
        c = total.get(name)
        out.append(result(
            name, PROPS[name], FUNCTION, _scope(tier), exhaustive=exhaustive,
            evaluations=c["ev"], distinct_nontrivial=c["nt"], rule=RULES[name],
            failures=total.failures(name), samples=c["samples"], wall_s=wall, n_failures=c["nf"]))
    return out


if __name__ == "__main__":
    from runtime.common import main

    main(run)
