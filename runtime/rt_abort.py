"""C16 -- abort-point injection on the REAL executor.

For three small plans of real RunTaskExecutable operations (built by the real
task loader + planner in a scratch project with a real Context) and for every
source line (function, line) that is reached inside

    Executor.run_plan, Executor._launch_ops_if_able,
    Executor._wait_for_next_inflight_op, Executor._process_finished_op,
    _InflightOperations.wait_for_next_op,
    RunTaskExecutable.start_execution, RunTaskExecutable.finish_execution,
    SigchldHelper.wait

and for each k-th time it is reached (k <= 2 quick / 4 thorough), the plan is
run in a FRESH process with a sys.settrace line hook that raises
conductor.errors.ConductorAbort exactly there (what the SIGINT/SIGTERM handler
of the CLI does at a statement boundary).  Observed at the exit of run_plan:

  * the exception that leaves run_plan,
  * every process this process spawned that is still unreaped (alive or
    zombie; read from /proc, independent of conductor's book-keeping) and
    whether its process group was sent SIGTERM (os.killpg / os.kill(-pgid)
    are recorded),
  * the rows of the version index (committed: fresh sqlite connection; pending:
    through ctx.version_index) and whether the task of each row had finished
    (its command's last act is `touch $COND_OUT/finished`).

Failure `class` = "<function>@<normalised text of the statement at which the
abort was injected>" -- an anchor that survives line renumbering.

Nothing is assumed about which points fail: the module reports what it sees.
"""
import ast
import inspect
import json
import multiprocessing
import os
import pathlib
import select
import shutil
import signal
import sqlite3
import sys
import tempfile
import textwrap
import time
import traceback

sys.dont_write_bytecode = True      # nothing may be written under /verif
from runtime.common import result  # noqa: E402

CHECK_EXC = "C16.abort.leaves_run_plan_as_ConductorAbort"
CHECK_TERM = "C16.abort.every_live_child_group_gets_SIGTERM"
CHECK_ROWS = "C16.abort.no_version_recorded_for_unfinished"

FUNCTION = ("execution/executor.py::Executor.run_plan (+ _launch_ops_if_able, _wait_for_next_inflight_op, "
            "_process_finished_op, _InflightOperations.wait_for_next_op), "
            "execution/ops/run_task_executable.py::RunTaskExecutable.{start,finish}_execution, "
            "utils/sigchld.py::SigchldHelper.wait")

OCCURRENCES = {"quick": 2, "thorough": 4}
SCENARIO_TIMEOUT = 15.0
CONFIG = "disable_git = true\n"

# Every experiment's last act is `touch $COND_OUT/finished`: a recorded version whose
# directory lacks it belongs to a task that had not finished (successfully).
FIXTURES = {
    "single": {
        "jobs": 1, "root": "//:s",
        "cond": 'run_experiment(name="s", run="sleep 0.4 && touch $COND_OUT/finished")\n',
        "must_finish": ["s"],
    },
    "parallel2": {
        "jobs": 2, "root": "//:all",
        "cond": (
            'run_experiment(name="p1", parallelizable=True, run="sleep 0.3 && touch $COND_OUT/finished")\n'
            'run_experiment(name="p2", parallelizable=True, run="sleep 0.5 && touch $COND_OUT/finished")\n'
            'run_command(name="all", deps=[":p1", ":p2"], run="sleep 0.1")\n'),
        "must_finish": ["p1", "p2"],
    },
    "chain": {
        # q -> r run; f fails; s and top are skipped
        "jobs": 1, "root": "//:top",
        "cond": (
            'run_experiment(name="q", run="sleep 0.1 && touch $COND_OUT/finished")\n'
            'run_command(name="r", deps=[":q"], run="sleep 0.3")\n'
            'run_experiment(name="f", run="sleep 0.1; exit 3")\n'
            'run_command(name="s", deps=[":f"], run="sleep 0.1")\n'
            'run_command(name="top", deps=[":r", ":s"], run="sleep 0.1")\n'),
        "must_finish": ["q"],
    },
}
FIXTURE_ORDER = ["single", "parallel2", "chain"]


# --------------------------------------------------------------------------- /proc helpers
def pid_state(pid):
    try:
        with open("/proc/{}/stat".format(pid), "rb") as f:
            data = f.read().decode("ascii", "replace")
    except OSError:
        return None
    return data[data.rfind(")") + 2:].split()[0]


def pid_ppid(pid):
    try:
        with open("/proc/{}/stat".format(pid), "rb") as f:
            data = f.read().decode("ascii", "replace")
    except OSError:
        return None
    return int(data[data.rfind(")") + 2:].split()[1])


def children_of(pid):
    res = []
    try:
        for t in os.listdir("/proc/{}/task".format(pid)):
            try:
                with open("/proc/{}/task/{}/children".format(pid, t)) as f:
                    res.extend(int(x) for x in f.read().split())
            except OSError:
                pass
    except OSError:
        pass
    return res


def descendants_of(pid):
    out, todo = [], [pid]
    while todo:
        p = todo.pop()
        for c in children_of(p):
            if c not in out:
                out.append(c)
                todo.append(c)
    return out


def kill_hard(pids):
    for p in pids:
        for fn, target in ((os.killpg, p), (os.kill, p)):
            try:
                fn(target, signal.SIGKILL)
            except OSError:
                pass


def kill_and_reap_children():
    """In a scenario process: SIGKILL every child (group) and reap it."""
    kids = children_of(os.getpid())
    kill_hard(kids)
    for p in kids:
        try:
            os.waitpid(p, 0)
        except OSError:
            pass


# --------------------------------------------------------------------------- supervised fork
def supervised_fork(fn, timeout, hang_info=None):
    """Runs fn(write_line) in a forked process; fn reports JSON-able objects with
    write_line(obj).  Returns (lines, hung, exit_status).  The forked process and
    everything below it is killed when it does not finish in `timeout` seconds; if a
    dict `hang_info` is given it then receives the processes found below it
    ({"descendants": [(pid, state), ...]}) as seen just before the kill."""
    rfd, wfd = os.pipe()
    sys.stdout.flush()
    sys.stderr.flush()
    pid = os.fork()
    if pid == 0:
        code = 0
        try:
            os.close(rfd)
            try:
                os.setpgid(0, 0)    # own group: helpers it leaves behind (tar, ...) can be found
            except OSError:
                pass
            signal.signal(signal.SIGCHLD, signal.SIG_DFL)
            signal.signal(signal.SIGTERM, signal.SIG_DFL)
            signal.signal(signal.SIGINT, signal.SIG_DFL)

            def write_line(obj):
                os.write(wfd, (json.dumps(obj, default=str) + "\n").encode("utf-8"))

            try:
                fn(write_line)
            except BaseException:  # pylint: disable=broad-except
                write_line({"harness_error": traceback.format_exc()})
                code = 3
        finally:
            os._exit(code)  # pylint: disable=protected-access
    os.close(wfd)
    try:
        os.setpgid(pid, pid)
    except OSError:
        pass
    buf = b""
    hung = False
    deadline = time.time() + timeout
    try:
        while True:
            left = deadline - time.time()
            if left <= 0:
                hung = True
                break
            ready, _, _ = select.select([rfd], [], [], left)
            if not ready:
                hung = True
                break
            chunk = os.read(rfd, 65536)
            if not chunk:
                break
            buf += chunk
    finally:
        os.close(rfd)
        status = None
        if hung:
            below = descendants_of(pid)
            if hang_info is not None:
                hang_info["descendants"] = [(p, pid_state(p)) for p in below]
                hang_info["state"] = pid_state(pid)
            kill_hard([pid])
            kill_hard(below)
        try:
            _, status = os.waitpid(pid, 0)
        except OSError:
            pass
        # processes the scenario left behind in its own group (e.g. a `tar` whose parent
        # was killed): kill them and wait until the group is empty, so that the caller's
        # removal of the scratch directory is final
        end = time.time() + 3.0
        while time.time() < end:
            try:
                os.killpg(pid, signal.SIGKILL)
            except OSError:
                break
            time.sleep(0.005)
    lines = []
    for raw in buf.decode("utf-8", "replace").splitlines():
        try:
            lines.append(json.loads(raw))
        except ValueError:
            pass
    for l in lines:
        if isinstance(l, dict) and "harness_error" in l:
            raise RuntimeError("harness error in forked scenario:\n" + l["harness_error"])
    return lines, hung, status


def silence_stdio():
    devnull = os.open(os.devnull, os.O_RDWR)
    os.dup2(devnull, 1)
    os.dup2(devnull, 2)
    sys.stdout = open(os.devnull, "w", encoding="utf-8")  # has .buffer (the tee threads need it)
    sys.stderr = open(os.devnull, "w", encoding="utf-8")


# --------------------------------------------------------------------------- targets and anchors
def target_functions():
    from conductor.execution.executor import Executor, _InflightOperations
    from conductor.execution.ops.run_task_executable import RunTaskExecutable
    from conductor.utils.sigchld import SigchldHelper

    return {
        "Executor.run_plan": Executor.run_plan,
        "Executor._launch_ops_if_able": Executor._launch_ops_if_able,
        "Executor._wait_for_next_inflight_op": Executor._wait_for_next_inflight_op,
        "Executor._process_finished_op": Executor._process_finished_op,
        "_InflightOperations.wait_for_next_op": _InflightOperations.wait_for_next_op,
        "RunTaskExecutable.start_execution": RunTaskExecutable.start_execution,
        "RunTaskExecutable.finish_execution": RunTaskExecutable.finish_execution,
        "SigchldHelper.wait": SigchldHelper.wait,
    }


def _header(node):
    if isinstance(node, ast.If):
        return "if {}:".format(ast.unparse(node.test))
    if isinstance(node, ast.While):
        return "while {}:".format(ast.unparse(node.test))
    if isinstance(node, (ast.For, ast.AsyncFor)):
        return "for {} in {}:".format(ast.unparse(node.target), ast.unparse(node.iter))
    if isinstance(node, (ast.With, ast.AsyncWith)):
        return "with {}:".format(", ".join(ast.unparse(i) for i in node.items))
    if isinstance(node, ast.Try) or node.__class__.__name__ == "TryStar":
        return "try:"
    if isinstance(node, ast.ExceptHandler):
        if node.type is None:
            return "except:"
        return "except {}{}:".format(ast.unparse(node.type), " as " + node.name if node.name else "")
    if isinstance(node, (ast.FunctionDef, ast.AsyncFunctionDef, ast.ClassDef)):
        return "def {}".format(node.name)
    return ast.unparse(node)


class Anchors:
    """Maps (function or code object, absolute line number) to the normalised text of
    the innermost statement that contains the line (compound statements: the header)."""

    def __init__(self):
        self._cache = {}

    def _nodes(self, code):
        if code not in self._cache:
            nodes = []
            try:
                lines, first = inspect.getsourcelines(code)
                tree = ast.parse(textwrap.dedent("".join(lines)))
                top = tree.body[0] if len(tree.body) == 1 and isinstance(
                    tree.body[0], (ast.FunctionDef, ast.AsyncFunctionDef, ast.ClassDef)) else None
                if first == 0:      # module-level code object
                    first = 1
                for node in ast.walk(tree):
                    if node is top:
                        continue
                    if isinstance(node, (ast.stmt, ast.ExceptHandler)):
                        nodes.append((node.lineno + first - 1, node.end_lineno + first - 1, node))
            except (OSError, TypeError, SyntaxError):
                nodes = []
            self._cache[code] = nodes
        return self._cache[code]

    def anchor(self, fn, line):
        code = getattr(fn, "__code__", fn)
        best = None
        for lo, hi, node in self._nodes(code):
            if lo <= line <= hi:
                if best is None or lo > best[0] or (lo == best[0] and hi < best[1]):
                    best = (lo, hi, node)
        if best is None:
            return "<no source statement>", 0
        text = " ".join(_header(best[2]).split())
        return text, line - best[0]


# --------------------------------------------------------------------------- the scenario (runs in a fresh process)
def write_project(root, fix):
    root = pathlib.Path(root)
    (root / "cond_config.toml").write_text(CONFIG, encoding="utf-8")
    (root / "COND").write_text(FIXTURES[fix]["cond"], encoding="utf-8")


def _scenario(fix, root, inject, write_line):
    """inject: None (record every line event) or (function key, line, occurrence)."""
    silence_stdio()
    import subprocess
    from conductor.context import Context
    from conductor.errors import ConductorAbort
    from conductor.execution.executor import Executor
    from conductor.execution.planning.planner import ExecutionPlanner
    from conductor.task_identifier import TaskIdentifier

    spec = FIXTURES[fix]
    targets = target_functions()
    code_to_key = {fn.__code__: key for key, fn in targets.items()}

    spawned, kills, reaps = [], [], []
    real_popen, real_killpg, real_kill, real_waitpid = subprocess.Popen, os.killpg, os.kill, os.waitpid

    class RecPopen(real_popen):
        def __init__(self, *a, **kw):
            super().__init__(*a, **kw)
            spawned.append((self.pid, (kw.get("env") or {}).get("COND_NAME")))

    def rec_killpg(pgid, sig):
        kills.append(("killpg", pgid, int(sig)))
        return real_killpg(pgid, sig)

    def rec_kill(pid, sig):
        kills.append(("kill", pid, int(sig)))
        return real_kill(pid, sig)

    def rec_waitpid(pid, options):
        res = real_waitpid(pid, options)
        if res[0] != 0:
            reaps.append(res)
        return res

    ctx = Context(pathlib.Path(root))
    tid = TaskIdentifier.from_str(spec["root"], require_prefix=False)
    ctx.task_index.load_transitive_closure(tid)
    plan = ExecutionPlanner(ctx).create_plan_for(tid)

    counts = {}
    events = []
    fired = []

    def local(frame, event, arg):
        if event == "line":
            key = code_to_key[frame.f_code]
            point = (key, frame.f_lineno)
            n = counts[point] = counts.get(point, 0) + 1
            if inject is None:
                events.append(point)
            elif not fired and key == inject[0] and frame.f_lineno == inject[1] and n == inject[2]:
                fired.append(time.time())
                write_line({"fired": True})
                raise ConductorAbort()
        return local

    def tracer(frame, event, arg):
        if frame.f_code in code_to_key:
            return local
        return None

    subprocess.Popen = RecPopen
    os.killpg, os.kill, os.waitpid = rec_killpg, rec_kill, rec_waitpid
    exc = None
    try:
        sys.settrace(tracer)
        try:
            Executor(execution_slots=spec["jobs"]).run_plan(plan, ctx)
        except BaseException as ex:  # pylint: disable=broad-except
            exc = ex
        finally:
            sys.settrace(None)

        # ---- observation at the exit of run_plan
        me = os.getpid()
        kids = {p for p, _ in spawned} | set(children_of(me))
        names = dict(spawned)
        unreaped = []
        for p in sorted(kids):
            st = pid_state(p)
            if st is None or pid_ppid(p) != me:
                continue            # reaped (by whoever)
            try:
                pgid = os.getpgid(p)
            except OSError:
                continue
            termed = any(
                (k == "killpg" and t == pgid and s == signal.SIGTERM)
                or (k == "kill" and t == -pgid and s == signal.SIGTERM)
                for k, t, s in kills)
            unreaped.append({"pid": p, "task": names.get(p), "state": st, "pgid": pgid,
                             "group_got_SIGTERM": termed})

        rows = set()
        dbp = pathlib.Path(root) / "cond-out" / "version_index.sqlite"
        if dbp.exists():
            conn = sqlite3.connect(str(dbp))
            try:
                for r in conn.execute("SELECT task_identifier, timestamp FROM version_index"):
                    rows.add((r[0], r[1], "committed"))
            finally:
                conn.close()
        committed = {(a, b) for a, b, _ in rows}
        for t, v in ctx.version_index.get_all_versions():
            if (str(t), v.timestamp) not in committed:
                rows.add((str(t), v.timestamp, "pending"))
        row_info = []
        for t, ts, how in sorted(rows):
            name = t.split(":")[-1]
            d = pathlib.Path(root) / "cond-out" / "{}.task.{}".format(name, ts)
            row_info.append({"task": t, "timestamp": ts, "state": how,
                             "finished": (d / "finished").is_file()})
        finished_tasks = sorted(
            x.name.split(".task.")[0] for x in (pathlib.Path(root) / "cond-out").glob("*.task.*")
            if (x / "finished").is_file())
    finally:
        subprocess.Popen = real_popen
        os.killpg, os.kill, os.waitpid = real_killpg, real_kill, real_waitpid
        kill_and_reap_children()

    write_line({
        "done": True,
        "fired": bool(fired),
        "exc_type": type(exc).__name__ if exc is not None else None,
        "exc_is_abort": isinstance(exc, ConductorAbort),
        "exc_text": (str(exc) or repr(exc))[:200] if exc is not None else None,
        "n_spawned": len(spawned),
        "n_reaped": len(reaps),
        "kills": kills,
        "unreaped": unreaped,
        "rows": row_info,
        "finished_tasks": finished_tasks,
        "events": events,
    })


def run_scenario(fix, inject, timeout=SCENARIO_TIMEOUT):
    root = tempfile.mkdtemp(prefix="verif-")
    try:
        write_project(root, fix)
        lines, hung, status = supervised_fork(
            lambda write_line: _scenario(fix, root, inject, write_line), timeout)
    finally:
        shutil.rmtree(root, ignore_errors=True)
    res = {"fixture": fix, "inject": inject, "hung": hung, "fired": any(l.get("fired") for l in lines)}
    final = [l for l in lines if l.get("done")]
    if final:
        res.update(final[-1])
    elif not hung:
        raise RuntimeError("scenario process for {} {} died without a result (status {})".format(
            fix, inject, status))
    return res


def _job(job):
    fix, inject = job
    return run_scenario(fix, inject)


# --------------------------------------------------------------------------- run
def _order_failures(fails):
    """One failure per class first (smallest first), then the remaining ones."""
    fails = sorted(fails, key=lambda f: f["_key"])
    seen, first, rest = set(), [], []
    for f in fails:
        (rest if f["class"] in seen else first).append(f)
        seen.add(f["class"])
    out = first + rest
    for f in out:
        f.pop("_key", None)
    return out


def run(tier, seed):  # pylint: disable=unused-argument
    t0 = time.time()
    kmax = OCCURRENCES.get(tier, OCCURRENCES["quick"])
    targets = target_functions()
    import conductor.execution.planning.planner  # noqa: F401  pylint: disable=unused-import
    from conductor.envs.manager import EnvManager
    EnvManager.create()     # warms the (optional, slow) imports Context.__init__ triggers
    anchors = Anchors()
    ctx = multiprocessing.get_context("fork")

    with ctx.Pool(processes=min(16, os.cpu_count() or 1)) as pool:
        # 1. discovery: one clean run per fixture, every line event recorded
        clean = pool.map(_job, [(fix, None) for fix in FIXTURE_ORDER], chunksize=1)
        jobs = []
        for fix, res in zip(FIXTURE_ORDER, clean):
            if res["hung"] or not res.get("done"):
                raise RuntimeError("fixture {}: the run without injection did not terminate".format(fix))
            missing = [t for t in FIXTURES[fix]["must_finish"] if t not in res["finished_tasks"]]
            if missing or res["n_spawned"] == 0:
                raise RuntimeError("fixture {}: tasks {} did not run to their end in the clean run "
                                   "(exception {} {})".format(fix, missing, res["exc_type"], res["exc_text"]))
            seen = {}
            for key, line in res["events"]:
                seen[(key, line)] = seen.get((key, line), 0) + 1
            for (key, line), n in sorted(seen.items()):
                for k in range(1, min(n, kmax) + 1):
                    jobs.append((fix, (key, line, k)))
        # 2. one fresh process per (fixture, function, line, occurrence)
        results = pool.map(_job, jobs, chunksize=1)

    fails = {CHECK_EXC: [], CHECK_TERM: [], CHECK_ROWS: []}
    evals = {CHECK_EXC: 0, CHECK_TERM: 0, CHECK_ROWS: 0}
    nontriv = {CHECK_EXC: set(), CHECK_TERM: set(), CHECK_ROWS: set()}
    samples = []
    unreached = 0
    hung_unfired = 0
    reached_points = set()
    for res in results:
        fix = res["fixture"]
        key, line, k = res["inject"]
        if not res["fired"]:
            # the k-th occurrence was not reached in this run (scheduling differs from
            # the discovery run): nothing was injected, nothing to judge
            unreached += 1
            if res["hung"]:
                hung_unfired += 1
            continue
        stmt, off = anchors.anchor(targets[key], line)
        inp = {"fixture": fix, "function": key, "statement": stmt, "occurrence": k,
               "line_in_statement": off}
        cls = "{}@{}".format(key, stmt)
        order = (FIXTURE_ORDER.index(fix), key, line, k)
        reached_points.add((key, stmt))
        if len(samples) < 3 and k == 1 and key.endswith(("start_execution", "wait", "_launch_ops_if_able")):
            samples.append(inp)

        evals[CHECK_EXC] += 1
        nontriv[CHECK_EXC].add((fix, key, line, k))
        if res["hung"]:
            fails[CHECK_EXC].append({
                "clause": "abort-propagates", "class": cls, "input": inp, "_key": order,
                "expected": "run_plan raises ConductorAbort",
                "observed": "run_plan had not returned {} s after the abort was raised".format(
                    SCENARIO_TIMEOUT)})
            continue
        if not res["exc_is_abort"]:
            fails[CHECK_EXC].append({
                "clause": "abort-propagates", "class": cls, "input": inp, "_key": order,
                "expected": "run_plan raises ConductorAbort",
                "observed": "run_plan {}".format(
                    "returned normally" if res["exc_type"] is None else
                    "raised {}: {}".format(res["exc_type"], res["exc_text"]))})

        evals[CHECK_TERM] += 1
        if res["unreaped"]:
            nontriv[CHECK_TERM].add((fix, key, line, k))
        missed = [u for u in res["unreaped"] if not u["group_got_SIGTERM"]]
        if missed:
            fails[CHECK_TERM].append({
                "clause": "spawned-minus-reaped subset of killed", "class": cls, "input": inp, "_key": order,
                "expected": "every spawned, unreaped process group was sent SIGTERM when run_plan exits",
                "observed": "unreaped without SIGTERM: {}; SIGTERMs sent to process groups: {}; "
                            "spawned {}; run_plan raised {}".format(
                                [{"task": u["task"], "state": u["state"]} for u in missed],
                                sum(1 for a, t, s in res["kills"] if s == int(signal.SIGTERM)
                                    and (a == "killpg" or t < 0)),
                                res["n_spawned"], res["exc_type"])})

        evals[CHECK_ROWS] += 1
        if res["n_spawned"] > 0:
            nontriv[CHECK_ROWS].add((fix, key, line, k))
        bad = [r for r in res["rows"] if not r["finished"]]
        if bad:
            fails[CHECK_ROWS].append({
                "clause": "recorded => exited 0", "class": cls, "input": inp, "_key": order,
                "expected": "only tasks whose command ran to its end (exit 0) have a row in the version index",
                "observed": "rows for unfinished tasks: {}".format(
                    [{"task": r["task"], "state": r["state"]} for r in bad])})

    wall = time.time() - t0
    scope = ("fixtures {} x every (function, line) reached in the 8 abortable functions x occurrence "
             "k <= {}: {} injection runs, {} of them reached their point ({} distinct function@statement "
             "anchors); {} runs did not reach the k-th occurrence ({} of those timed out)".format(
                 FIXTURE_ORDER, kmax, len(results), evals[CHECK_EXC], len(reached_points), unreached,
                 hung_unfired))
    rules = {
        CHECK_EXC: "distinct (fixture, function, line, occurrence); all non-trivial",
        CHECK_TERM: "distinct injection points; non-trivial = at least one spawned process was still "
                    "unreaped (alive or zombie) when run_plan exited",
        CHECK_ROWS: "distinct injection points; non-trivial = at least one task process had been spawned "
                    "before run_plan exited",
    }
    out = []
    for name in (CHECK_EXC, CHECK_TERM, CHECK_ROWS):
        fl = _order_failures(fails[name])
        classes = {}
        for f in fl:
            classes[f["class"]] = classes.get(f["class"], 0) + 1
        r = result(name, "C16", FUNCTION, scope, exhaustive=True, evaluations=evals[name],
                   distinct_nontrivial=len(nontriv[name]), rule=rules[name], failures=fl,
                   samples=samples, wall_s=wall, n_failures=len(fl))
        r["failure_classes"] = classes      # all classes, not only those of the 5 kept failures
        out.append(r)
    return out


if __name__ == "__main__":
    from runtime.common import main

    main(run)
