"""C20 (feeds C15/C13): task identifier grammar, canonical form, distinct output dirs.

Bounded stand-in: exhaustive strings over a small alphabet against a hand-written
recogniser of the documented grammar

    name       = [A-Za-z0-9_-]+
    identifier = ("//")? (name "/")* (name)? ":" name
    relative   = ":" name

The real functions are conductor.task_identifier.TaskIdentifier.{is_name_valid,
from_str, from_relative_str, __repr__, __eq__, __hash__}, conductor.filename.
task_output_dir, TaskType/RunExperiment.get_output_path and the two regular
expressions of conductor.cli.gc.
"""
import itertools
import json
import multiprocessing
import os
import pathlib
import time
import types

ALPHABET = ["a", "-", "/", ":", "\n", " ", ".", "_"]   # the full alphabet is used in both tiers
EXTRA_STRINGS = [
    "A", "Z9", "0", "a0:Z", "//A/0:z_-", "//a/b/c:d", "a/b/c/:d", "//a//b:c", "é", ":é", "//é:a",
    "٥", ":٥", "a\x00", ":a\x00", "//a:b\r", "a\r", ":a\r\n", "//a:b\n\n", "a\n\n", "//a\n:b",
    "//a:b:c", "//:", ":", "//", "", "///:a", "//a/:b", "a/:b", "/a:b", "//a:b ", " //a:b",
    "//a b:c", "//a:b c", "a.b", "//a.b:c", "//a:b.c", "//./a:b", "//../a:b", "//a/../b:c",
]

_NAME_CHARS = set("abcdefghijklmnopqrstuvwxyzABCDEFGHIJKLMNOPQRSTUVWXYZ0123456789_-")


# --------------------------------------------------------------------------- oracle
def g_name(s):
    return len(s) > 0 and all(ch in _NAME_CHARS for ch in s)


def g_ident(s):
    """None, or (has_prefix, parts, name): the unique decomposition."""
    has_prefix = s.startswith("//")
    rest = s[2:] if has_prefix else s
    if rest.count(":") != 1:
        return None
    path_str, name = rest.split(":")
    if not g_name(name):
        return None
    if path_str == "":
        parts = []
    else:
        parts = path_str.split("/")
        if parts[-1] == "":          # one trailing slash is allowed by (name "/")*
            parts = parts[:-1]
        if len(parts) == 0 or not all(g_name(p) for p in parts):
            return None
    return (has_prefix, tuple(parts), name)


def g_rel(s):
    if s.startswith(":") and g_name(s[1:]):
        return s[1:]
    return None


def g_canonical(parts, name):
    return "//" + "/".join(parts) + ":" + name


_DIGITS = set("0123456789")


def g_posint(s):
    return len(s) > 0 and all(ch in _DIGITS for ch in s) and s[0] != "0"


def g_gc_experiment(s):
    i = s.find(".")
    if i < 0:
        return None
    name, rest = s[:i], s[i:]
    if not g_name(name) or not rest.startswith(".task."):
        return None
    ts = rest[len(".task."):]
    if not g_posint(ts):
        return None
    return (name, int(ts))


def g_gc_regular(s):
    i = s.find(".")
    if i < 0:
        return None
    name, rest = s[:i], s[i:]
    if not g_name(name) or rest != ".task":
        return None
    return name


_POOL_TIMEOUT_S = 3600    # a dead worker must not hang the driver for ever


def _safe(fn):
    """Pool workers must only raise picklable exceptions (a ConductorError with keyword-only
    constructor arguments cannot be unpickled in the parent and would hang the pool)."""
    import functools
    import traceback

    @functools.wraps(fn)
    def wrapper(job):
        try:
            return fn(job)
        except BaseException:
            raise RuntimeError("harness worker %s crashed on job %r:\n%s"
                               % (fn.__name__, job, traceback.format_exc())) from None
    return wrapper


# --------------------------------------------------------------------------- accumulator
def _size(inp):
    text = json.dumps(inp, default=str, sort_keys=True)
    return (len(text), text)


class Acc:
    def __init__(self):
        self.ev = 0
        self.nt = 0
        self.nf = 0
        self.fails = []
        self.samples = []
        self.classes = {}

    def sample(self, inp, cap=3):
        if len(self.samples) < cap:
            self.samples.append(inp)

    def fail(self, clause, cls, inp, expected, observed):
        self.nf += 1
        self.classes[cls] = self.classes.get(cls, 0) + 1
        self.fails.append({"clause": clause, "class": cls, "input": inp,
                           "expected": str(expected), "observed": str(observed)})
        if len(self.fails) > 200:
            self._trim()

    def _trim(self):
        per = {}
        for f in sorted(self.fails, key=lambda f: _size(f["input"])):
            per.setdefault(f["class"], [])
            if len(per[f["class"]]) < 5:
                per[f["class"]].append(f)
        self.fails = [f for fs in per.values() for f in fs]

    def merge(self, other):
        self.ev += other.ev
        self.nt += other.nt
        self.nf += other.nf
        for k, v in other.classes.items():
            self.classes[k] = self.classes.get(k, 0) + v
        self.fails.extend(other.fails)
        self._trim()
        for s in other.samples:
            self.sample(s)

    def selected_failures(self):
        ordered = sorted(self.fails, key=lambda f: _size(f["input"]))
        first, seen = [], set()
        for f in ordered:
            if f["class"] not in seen:
                seen.add(f["class"])
                first.append(f)
        rest = [f for f in ordered if all(f is not g for g in first)]
        chosen = (first + rest)[:5]
        return sorted(chosen, key=lambda f: _size(f["input"]))

    def result(self, name, prop, function, scope, exhaustive, rule, wall):
        from runtime.common import result
        r = result(name, prop, function, scope, exhaustive=exhaustive, evaluations=self.ev,
                   distinct_nontrivial=self.nt, rule=rule, failures=self.selected_failures(),
                   samples=self.samples, wall_s=wall, n_failures=self.nf)
        r["failure_classes"] = dict(sorted(self.classes.items()))
        return r


CHECKS = ["name", "from_str", "from_rel", "roundtrip", "gc"]


def _newline_class(s, accepts_grammar):
    """Stable class for an acceptance mismatch on input s."""
    if s.endswith("\n") and accepts_grammar(s[:-1]):
        return "trailing-newline-accepted"
    return None


# --------------------------------------------------------------------------- workers
def _check_strings(strings):
    """Runs the string-level checks on an iterable of distinct strings."""
    from conductor.task_identifier import TaskIdentifier
    from conductor.errors import InvalidTaskIdentifier, ConductorError

    accs = {k: Acc() for k in CHECKS if k != "gc"}
    rel_dirs = [pathlib.Path(), pathlib.Path("a"), pathlib.Path("a", "b")]

    for s in strings:
        # ---- is_name_valid
        a = accs["name"]
        exp = g_name(s)
        try:
            obs = TaskIdentifier.is_name_valid(s)
        except Exception as ex:
            obs = "raises %s" % type(ex).__name__
        a.ev += 1
        if exp or g_name(s[:-1]) or g_name(s[1:]):
            a.nt += 1
        a.sample({"s": s}) if exp else None
        if isinstance(obs, str):
            a.fail("iff_grammar", "is_name_valid-raises", {"s": s}, exp, obs)
        elif bool(obs) != exp or not isinstance(obs, bool):
            cls = _newline_class(s, g_name) if obs else None
            a.fail("iff_grammar", cls or ("accepts-non-name" if obs else "rejects-name"),
                   {"s": s}, exp, obs)

        # ---- from_str (both require_prefix values)
        a = accs["from_str"]
        dec = g_ident(s)
        near = dec is not None or g_ident(s[:-1]) is not None or g_ident(s[1:]) is not None
        for require_prefix in (True, False):
            exp_accept = dec is not None and (dec[0] or not require_prefix)
            a.ev += 1
            if near:
                a.nt += 1
            inp = {"s": s, "require_prefix": require_prefix}
            try:
                ident = TaskIdentifier.from_str(s, require_prefix=require_prefix)
            except InvalidTaskIdentifier:
                ident = None
            except Exception as ex:  # any other exception: the clause says InvalidTaskIdentifier
                a.fail("rejects_with_InvalidTaskIdentifier", "rejects-with-other-exception",
                       inp, "InvalidTaskIdentifier" if not exp_accept else "accept",
                       type(ex).__name__)
                continue
            if exp_accept:
                a.sample(inp)
            if ident is None:
                if exp_accept:
                    a.fail("iff_grammar", "rejects-identifier", inp, "accept %r" % (dec,), "rejected")
                continue
            if not exp_accept:
                cls = None
                if s.endswith("\n"):
                    d2 = g_ident(s[:-1])
                    if d2 is not None and (d2[0] or not require_prefix):
                        cls = "trailing-newline-accepted"
                if cls is None and dec is not None and require_prefix and not dec[0]:
                    cls = "missing-prefix-accepted"
                a.fail("iff_grammar", cls or "accepts-non-identifier", inp, "rejected",
                       "accepted (path=%r, name=%r)" % (tuple(ident.path.parts), ident.name))
                continue
            if ident.name != dec[2] or tuple(ident.path.parts) != dec[1]:
                a.fail("decomposition", "wrong-decomposition", inp, (dec[1], dec[2]),
                       (tuple(ident.path.parts), ident.name))

        # ---- from_relative_str
        a = accs["from_rel"]
        rname = g_rel(s)
        for d in rel_dirs:
            a.ev += 1
            if rname is not None or g_rel(s[:-1]) is not None or g_rel(s[1:]) is not None \
                    or g_rel(":" + s) is not None:
                a.nt += 1
            inp = {"s": s, "rel_cond_file_dir": str(d)}
            try:
                ident = TaskIdentifier.from_relative_str(s, d)
            except InvalidTaskIdentifier:
                ident = None
            except Exception as ex:
                a.fail("rejects_with_InvalidTaskIdentifier", "rejects-with-other-exception",
                       inp, "InvalidTaskIdentifier" if rname is None else "accept",
                       type(ex).__name__)
                continue
            if rname is not None:
                a.sample(inp)
            if ident is None:
                if rname is not None:
                    a.fail("iff_grammar", "rejects-relative-identifier", inp, "accept", "rejected")
                continue
            if rname is None:
                cls = "trailing-newline-accepted" if (s.endswith("\n") and g_rel(s[:-1]) is not None) \
                    else "accepts-non-relative-identifier"
                a.fail("iff_grammar", cls, inp, "rejected",
                       "accepted (path=%r, name=%r)" % (str(ident.path), ident.name))
                continue
            if ident.name != rname or ident.path != d:
                a.fail("decomposition", "wrong-decomposition", inp, (str(d), rname),
                       (str(ident.path), ident.name))

        # ---- repr round trip for every string the real from_str accepts
        a = accs["roundtrip"]
        try:
            ident = TaskIdentifier.from_str(s, require_prefix=False)
        except ConductorError:
            ident = None
        except Exception:
            ident = None       # already reported by the from_str check
        if ident is not None:
            a.ev += 1
            inp = {"s": s}
            text = str(ident)
            canon = g_canonical(tuple(ident.path.parts), ident.name)
            if text != s:
                a.nt += 1      # the input was not already canonical
            a.sample(inp)
            if text != canon or g_ident(text) is None:
                a.fail("canonical", "repr-not-canonical", inp, canon, text)
            elif dec is not None and text != g_canonical(dec[1], dec[2]):
                a.fail("canonical", "repr-differs-from-grammar-canonical", inp,
                       g_canonical(dec[1], dec[2]), text)
            else:
                try:
                    again = TaskIdentifier.from_str(text, require_prefix=True)
                    same = (again == ident) and hash(again) == hash(ident) and str(again) == text
                except Exception as ex:
                    same = False
                    again = type(ex).__name__
                if not same:
                    a.fail("from_str(str(i)) == i", "roundtrip-mismatch", inp, text, again)
    return accs


@_safe
def _strings_shard(args):
    length, first = args
    if length == 0:
        strings = [""]
    else:
        strings = (first + "".join(t) for t in itertools.product(ALPHABET, repeat=length - 1))
    return _check_strings(strings)


@_safe
def _extra_shard(_):
    return _check_strings(EXTRA_STRINGS)


def _constructed_roundtrip():
    """from_str(str(i)) == i for identifiers constructed directly, + eq/hash consistency."""
    from conductor.task_identifier import TaskIdentifier
    a = Acc()
    names = ["a", "-", "_", "A0", "task", "a-b_c"]
    paths = [(), ("a",), ("a", "b"), ("-", "_"), ("task", "a")]
    for parts in paths:
        for name in names:
            for ctor in ("parts", "dot"):
                if ctor == "dot" and parts:
                    continue
                path = pathlib.Path(*parts) if ctor == "parts" else pathlib.Path(".")
                ident = TaskIdentifier(path, name)
                inp = {"path_parts": list(parts), "name": name, "ctor": ctor}
                a.ev += 1
                a.nt += 1
                a.sample(inp)
                text = str(ident)
                canon = g_canonical(parts, name)
                if text != canon:
                    a.fail("canonical", "repr-not-canonical", inp, canon, text)
                    continue
                for rp in (True, False):
                    again = TaskIdentifier.from_str(text, require_prefix=rp)
                    if not (again == ident and hash(again) == hash(ident)
                            and tuple(again.path.parts) == parts and again.name == name):
                        a.fail("from_str(str(i)) == i", "roundtrip-mismatch", inp, canon,
                               (tuple(again.path.parts), again.name))
    return a


def _eq_is_structural():
    """a == b, hash-based set / dict membership  <=>  same path segments and same name, exactly (identifiers are case
    sensitive: the grammar has no case folding, and the graph algorithms key their sets and dicts on identifiers)."""
    from conductor.task_identifier import TaskIdentifier
    a = Acc()
    pool = [((), "build"), ((), "Build"), ((), "BUILD"), ((), "build_"), ((), "build-"), (("a",), "build"), (("A",), "build"),
            (("a", "b"), "x"), (("a", "B"), "x"), (("ab",), "x"), (("a",), "b"), ((), "a"), ((), "A"), (("x",), "a0"), (("x",), "A0")]
    idents = [(parts, name, TaskIdentifier(pathlib.Path(*parts) if parts else pathlib.Path("."), name)) for parts, name in pool]
    for i, (p1, n1, x) in enumerate(idents):
        for j, (p2, n2, y) in enumerate(idents):
            inp = {"a": g_canonical(p1, n1), "b": g_canonical(p2, n2)}
            want = (p1, n1) == (p2, n2)
            a.ev += 1
            if i != j and (n1.lower() == n2.lower() and tuple(s_.lower() for s_ in p1) == tuple(s_.lower() for s_ in p2)):
                a.nt += 1
                a.sample(inp)
            got_eq = (x == y)
            got_set = len({x, y}) == 1
            got_dict = (y in {x: 1})
            if got_eq != want or got_set != want or got_dict != want:
                cls = "different-identifiers-compare-equal" if not want else "equal-identifiers-compare-different"
                a.fail("structural_equality", cls, inp, want, {"==": got_eq, "set": got_set, "dict": got_dict})
    return a


def _output_dir_injective(tier):
    import conductor.filename as f
    from conductor.execution.version_index import Version
    from conductor.task_identifier import TaskIdentifier
    from conductor.task_types.base import TaskType
    from conductor.task_types.run import RunExperiment, RunCommand

    a = Acc()
    names = ["a", "b", "task", "a-task", "task-5", "5", "a5", "a_task_5", "x"]
    paths = [(), ("a",), ("a", "b"), ("task",), ("a", "task"), ("5",)]
    stamps = [None, 1, 5, 15, 51, 151]
    if tier == "thorough":
        names += ["task5", "1", "15", "a-1", "T"]
        paths += [("a", "b", "c"), ("x", "task", "5")]
        stamps += [10, 100, 1790000000]
    root = pathlib.Path("/R")
    out = root / "cond-out"
    seen = {}

    class FakeIndex:
        def __init__(self):
            self.version = None

        def get_latest_output_version(self, ident):
            return self.version

    index = FakeIndex()
    ctx = types.SimpleNamespace(output_path=out, project_root=root, uses_git=False,
                                version_index=index)
    for parts in paths:
        for name in names:
            ident = TaskIdentifier(pathlib.Path(*parts), name)
            for ts in stamps:
                inp = {"path_parts": list(parts), "name": name, "timestamp": ts}
                version = None if ts is None else Version(ts, None, False)
                # (1) filename.task_output_dir joined under the identifier's path
                rel1 = str(pathlib.Path(ident.path, f.task_output_dir(ident, version)))
                # (2) the real task objects
                if ts is None:
                    task = RunCommand(identifier=ident, cond_file_path=root / "COND", deps=[],
                                      run="true", args=[], options={}, parallelizable=False)
                    base = TaskType(identifier=ident, cond_file_path=root / "COND", deps=[])
                    p_base = base.get_output_path(ctx)
                    p = task.get_output_path(ctx)
                    a.ev += 3
                    if p_base != p:
                        a.fail("same_function", "base-and-run-command-differ", inp, p_base, p)
                else:
                    task = RunExperiment(identifier=ident, cond_file_path=root / "COND", deps=[],
                                         run="true", args=[], options={}, parallelizable=False)
                    index.version = version
                    p = task.get_output_path(ctx)
                    a.ev += 2
                if p is None or not p.is_absolute():
                    a.fail("absolute_under_cond_out", "output-path-not-absolute", inp,
                           "absolute path under cond-out", p)
                    continue
                try:
                    rel2 = str(p.relative_to(out))
                except ValueError:
                    a.fail("absolute_under_cond_out", "output-path-outside-cond-out", inp,
                           "under %s" % out, p)
                    continue
                if rel1 != rel2:
                    a.fail("one_naming_function", "filename-and-task-type-differ", inp, rel1, rel2)
                expected = "/".join(list(parts) + [name + ".task" + ("" if ts is None else "." + str(ts))])
                if rel2 != expected:
                    a.fail("documented_layout", "unexpected-layout", inp, expected, rel2)
                key = (parts, name, ts)
                if "task" in name or "task" in parts:
                    a.nt += 1
                a.sample(inp)
                for rel in {rel1, rel2}:
                    if rel in seen and seen[rel] != key:
                        other = seen[rel]
                        a.fail("injective", "output-dir-collision",
                               {"a": {"path_parts": list(other[0]), "name": other[1], "timestamp": other[2]},
                                "b": inp}, "distinct directories", rel)
                    seen.setdefault(rel, key)
    return a


def _gc_strings(tier):
    base_alpha = ["a", "-", "_", "5", " ", "\n", ".", "/"]
    name_parts = {""}
    for n in (1, 2):
        name_parts.update("".join(t) for t in itertools.product(base_alpha, repeat=n))
    name_parts.update(["task", "a.task", "x", "A0", "é", "a\n"])
    middles = [".task", ".task.", ".tas", "task", ".task..", ".Task", "xtask", ".task\n",
               ".TASK.", ".task.task.", ".taskx", "-task-"]
    suf_alpha = ["0", "5", "1", "a", "\n", "-"]
    suffixes = {""}
    for n in (1, 2, 3) if tier == "quick" else (1, 2, 3, 4):
        suffixes.update("".join(t) for t in itertools.product(suf_alpha, repeat=n))
    suffixes.update(["٥", "5.5", "5 ", " 5", "+5", "5\r", "1790000000", "05", "5\n\n"])
    out = set()
    for n in name_parts:
        for m in middles:
            for s in suffixes:
                out.add(n + m + s)
    return sorted(out)


@_safe
def _gc_shard(strings):
    import conductor.cli.gc as gc
    a = Acc()
    for s in strings:
        exp_e = g_gc_experiment(s)
        exp_r = g_gc_regular(s)
        a.ev += 2
        if exp_e is not None or exp_r is not None or g_gc_experiment(s[:-1]) is not None \
                or g_gc_regular(s[:-1]) is not None or g_gc_experiment(s[1:]) is not None:
            a.nt += 1
        if exp_e is not None or exp_r is not None:
            a.sample({"dir_name": s})
        m = gc._EXPERIMENT_TASK_REGEX.match(s)
        if (m is not None) != (exp_e is not None):
            if m is not None:
                cls = "trailing-newline-accepted" if (s.endswith("\n") and g_gc_experiment(s[:-1]) is not None) \
                    else "experiment-regex-accepts-non-experiment-dir"
            else:
                cls = "experiment-regex-rejects-experiment-dir"
            a.fail("experiment_regex_iff", cls, {"dir_name": s, "regex": "_EXPERIMENT_TASK_REGEX"},
                   exp_e, None if m is None else m.groupdict())
        elif m is not None and (m.group("name"), int(m.group("timestamp"))) != exp_e:
            a.fail("experiment_regex_groups", "experiment-regex-wrong-groups",
                   {"dir_name": s, "regex": "_EXPERIMENT_TASK_REGEX"}, exp_e, m.groupdict())
        m = gc._REGULAR_TASK_REGEX.match(s)
        if (m is not None) != (exp_r is not None):
            if m is not None:
                cls = "trailing-newline-accepted" if (s.endswith("\n") and g_gc_regular(s[:-1]) is not None) \
                    else "regular-regex-accepts-non-task-dir"
            else:
                cls = "regular-regex-rejects-task-dir"
            a.fail("regular_regex_iff", cls, {"dir_name": s, "regex": "_REGULAR_TASK_REGEX"},
                   exp_r, None if m is None else m.groupdict())
        elif m is not None and m.group("name") != exp_r:
            a.fail("regular_regex_groups", "regular-regex-wrong-groups",
                   {"dir_name": s, "regex": "_REGULAR_TASK_REGEX"}, exp_r, m.groupdict())
    return a


# --------------------------------------------------------------------------- driver
def run(tier, seed):
    max_len = 5 if tier == "quick" else 6
    shards = [(0, "")] + [(n, c) for n in range(1, max_len + 1) for c in ALPHABET]
    gc_strings = _gc_strings(tier)
    n_proc = min(16, os.cpu_count() or 1)
    chunk = max(1, len(gc_strings) // (n_proc * 2))
    gc_chunks = [gc_strings[i:i + chunk] for i in range(0, len(gc_strings), chunk)]

    totals = {k: Acc() for k in CHECKS}
    walls = {}
    ctx = multiprocessing.get_context("fork")
    with ctx.Pool(processes=n_proc) as pool:
        t0 = time.time()
        # largest shards first
        string_jobs = pool.map_async(_strings_shard, sorted(shards, key=lambda x: -x[0]), chunksize=1)
        extra_job = pool.map_async(_extra_shard, [0])
        gc_job = pool.map_async(_gc_shard, gc_chunks, chunksize=1)
        for accs in string_jobs.get(_POOL_TIMEOUT_S) + extra_job.get(_POOL_TIMEOUT_S):
            for k, acc in accs.items():
                totals[k].merge(acc)
        walls["strings"] = time.time() - t0
        for acc in gc_job.get(_POOL_TIMEOUT_S):
            totals["gc"].merge(acc)
        walls["gc"] = time.time() - t0

    t0 = time.time()
    totals["roundtrip"].merge(_constructed_roundtrip())
    t1 = time.time()
    eqs = _eq_is_structural()
    inj = _output_dir_injective(tier)
    walls["inj"] = time.time() - t1

    n_strings = sum(len(ALPHABET) ** n for n in range(0, max_len + 1))
    scope_strings = ("all %d strings of length <= %d over the alphabet %s plus %d hand-picked probes "
                     "(upper case, digits, non-ASCII letters/digits, CR, NUL, '..')"
                     % (n_strings, max_len, json.dumps(ALPHABET), len(EXTRA_STRINGS)))
    out = [
        totals["name"].result(
            "C20.is_name_valid.iff_grammar", ["C20", "C15"],
            "task_identifier.py::TaskIdentifier.is_name_valid", scope_strings, True,
            "distinct strings; non-trivial = in the grammar, or in it after deleting the first or last character",
            walls["strings"]),
        totals["from_str"].result(
            "C20.from_str.accepts_iff_grammar", "C20",
            "task_identifier.py::TaskIdentifier.from_str",
            scope_strings + " x require_prefix in {True, False}", True,
            "distinct (string, require_prefix); non-trivial = the string is an identifier, or is one after "
            "deleting the first or last character", walls["strings"]),
        totals["from_rel"].result(
            "C20.from_relative_str.accepts_iff_grammar", "C20",
            "task_identifier.py::TaskIdentifier.from_relative_str",
            scope_strings + " x rel_cond_file_dir in {'.', 'a', 'a/b'}", True,
            "distinct (string, dir); non-trivial = relative identifier, or one after deleting the first/last "
            "character or after prepending ':'", walls["strings"]),
        totals["roundtrip"].result(
            "C20.repr_roundtrip", "C20",
            "task_identifier.py::TaskIdentifier.__repr__/from_str/__eq__/__hash__",
            "every string of the C20.from_str scope that the real from_str(require_prefix=False) accepts, "
            "plus 36 identifiers constructed directly (incl. Path('.'))", True,
            "distinct accepted strings / constructed identifiers; non-trivial = the input is not already "
            "the canonical form (or was constructed directly)", walls["strings"]),
        eqs.result(
            "C20.eq_hash_are_structural_and_case_sensitive", ["C20", "C14", "C02", "C11"],
            "task_identifier.py::TaskIdentifier.__eq__/__hash__",
            "all ordered pairs over 15 identifiers that differ in case, in one character, in a path segment or not at all; ==, set and dict membership", True,
            "distinct ordered pairs; non-trivial = the two identifiers differ only by letter case", walls["strings"]),
        inj.result(
            "C20.output_dir_injective", ["C20", "C13"],
            "filename.py::task_output_dir + task_types/base.py::TaskType.get_output_path + "
            "task_types/run.py::RunExperiment.get_output_path",
            "pool of paths x names (several containing 'task' / digits) x {no version, timestamps 1,5,15,51,151%s}; "
            "all pairs compared through a dictionary of produced directories"
            % ("" if tier == "quick" else ",10,100,1790000000"), True,
            "distinct (path, name, timestamp) triples; non-trivial = 'task' occurs in the name or in the path",
            walls["inj"]),
        totals["gc"].result(
            "C20.gc_regex.iff_grammar", ["C20", "C13"],
            "cli/gc.py::_EXPERIMENT_TASK_REGEX,_REGULAR_TASK_REGEX",
            "%d distinct strings: (strings of length <= 2 over %s and probes) ++ (12 middles around '.task') ++ "
            "(strings of length <= %d over ['0','5','1','a','\\n','-'] and probes)"
            % (len(gc_strings), json.dumps(["a", "-", "_", "5", " ", "\n", ".", "/"]),
               3 if tier == "quick" else 4), True,
            "distinct strings; non-trivial = a task / experiment directory name, or one after deleting the "
            "first or last character", walls["gc"]),
    ]
    return out


if __name__ == "__main__":
    from runtime.common import main
    main(run)
