"""Bounded stand-in for C14: the REAL `TaskIndex.load_transitive_closure`,
`TaskIndex.validate_all_loaded_tasks` and `_materialize_raw_task` (through
`get_task` / `load_transitive_closure`) on pre-populated raw tasks (no COND file
is parsed).

Scope
  main enumeration: n defined tasks t0..t(n-1) plus one name `zz` that is NOT
  defined; every task's dependency list is any listing order of any subset of
  {t0..t(n-1), zz} (so: all digraphs incl. self loops x optional dangling
  dependency x every listing order); every root in {t0..t(n-1), zz}.
      quick: n <= 3 (1,099,278 closure runs, 274,886 validate_all runs)
      thorough: n <= 3, plus n = 4 restricted to dependency lists of length <= 2
  duplicate enumeration: n tasks, each dependency list any *sequence* (repeats
  allowed) over the spellings {":tj", "//:tj"}; every root.
      quick: n = 2, length <= 3;  thorough: additionally n = 3, length <= 2.

Reading of C14 (DESIGN 5.14): with several defects the first one met is
reported, so: normal return <=> no defect reachable; the raised error must be
one that applies; hence with exactly one kind reachable it is that one.
"""
import itertools
import pathlib
import shutil
import tempfile
import time

from runtime import graphs as G
from runtime.common import result

F_CLOSURE = "parsing/task_index.py::TaskIndex.load_transitive_closure"
F_VALIDATE = "parsing/task_index.py::TaskIndex.validate_all_loaded_tasks"
F_MATERIALIZE = "parsing/task_index.py::TaskIndex._materialize_raw_task"

ACCEPT = "C14.closure.accepts_iff_acyclic_complete"
KIND = "C14.closure.error_kind_applies"
DUP = "C14.materialize.duplicate_dependency"
VREJ = "C14.validate_all.rejects_iff_cycle_or_dangling"
VROOT = "C14.validate_all.roots_exact"
NAMES = [ACCEPT, KIND, DUP, VREJ, VROOT]
FUNCS = {ACCEPT: F_CLOSURE, KIND: F_CLOSURE, DUP: F_MATERIALIZE, VREJ: F_VALIDATE,
         VROOT: F_VALIDATE}
RULES = {
    ACCEPT: "distinct (digraph with listing orders, dangling edges, root) tuples; non-trivial = "
            "the root is defined and has at least one dependency",
    KIND: "distinct tuples on which the real function raised; non-trivial = exactly one kind of "
          "defect (cycle / undefined dependency) is reachable from the root, so the kind is forced",
    DUP: "distinct (dependency spelling sequences, root) tuples and (sequences, task) tuples; "
         "non-trivial = some task lists one resolved identifier twice",
    VREJ: "distinct (digraph with listing orders, dangling edges) tuples; non-trivial = at least "
          "two tasks and one edge",
    VROOT: "distinct accepted graphs; non-trivial = at least one task is not a root",
}

_KINDS = "cgemc"  # t0 run_command, t1 group, t2 run_experiment, t3 combine, t4 run_command


def _main_blocks(tier):
    """[(n, per-node list of dependency lists)]"""
    blocks = []
    for n in (1, 2, 3):
        blocks.append((n, G.ordered_subsets(range(n + 1))))
    if tier == "thorough":
        blocks.append((4, [s for s in G.ordered_subsets(range(5)) if len(s) <= 2]))
    return blocks


def _dag_block_sizes(tier):
    """Extra block: all *labelled* DAGs (no dangling name) with exactly n tasks x
    every listing order x every root; gives the accepting paths (loaded set,
    exact roots) a non-negligible share.  n <= 3 is contained in the main
    enumeration."""
    return (4, 5) if tier == "thorough" else (4,)


def _dup_blocks(tier):
    """[(n, max_len)]"""
    return [(2, 3)] + ([(3, 2)] if tier == "thorough" else [])


def _scope_main(tier):
    s = ("all digraphs with <=3 tasks incl. self loops x optional dangling dependency x every "
         "listing order x every root (incl. an undefined root); plus all labelled DAGs with 4 "
         "tasks x every listing order x every root; raw tasks pre-populated")
    if tier == "thorough":
        s += "; plus 4 tasks with dependency lists of length <=2; plus all labelled DAGs with 5 tasks"
    return s


def _scope_dup(tier):
    s = "2 tasks x dependency sequences (repeats allowed) of length <=3 over spellings ':x' and '//:x' x every root, and get_task of every task"
    if tier == "thorough":
        s += "; plus 3 tasks with sequences of length <=2"
    return s


class _Env:
    def __init__(self, root):
        import conductor.errors as E

        self.root = pathlib.Path(root)
        self.factory = G.IndexFactory(self.root)
        self.cond_abs = self.root / "COND"
        self.E = E
        self.wd = G.Watchdog()
        self._raw = {}
        self.ids = {}

    def ident(self, name):
        i = self.ids.get(name)
        if i is None:
            i = G.ident("//:" + name)
            self.ids[name] = i
        return i

    def raw(self, i, dep_strs):
        key = (i, dep_strs)
        r = self._raw.get(key)
        if r is None:
            r = G.make_raw_task(G.KIND_NAMES[_KINDS[i]], G.task_name(i), dep_strs, self.cond_abs)
            self._raw[key] = r
        return dict(r)


def _name(j, n):
    return G.task_name(j) if j < n else "zz"


def _json(deps, n, root=None):
    d = {"tasks": {G.task_name(i): {"kind": G.KIND_NAMES[_KINDS[i]],
                                    "deps": [":" + _name(j, n) for j in deps[i]]}
                   for i in range(n)},
         "undefined_names": ["zz"]}
    if root is not None:
        d["root"] = "//:" + _name(root, n)
    return d


def _eval_main(env, n, deps, tally):
    E = env.E
    tasks = {G.task_name(i): env.raw(i, tuple(":" + _name(j, n) for j in deps[i]))
             for i in range(n)}
    tc = G.transitive_closure(deps, n)
    on_cycle = [v for v in range(n) if v in tc[v]]
    lists_undef = [v for v in range(n) if any(j >= n for j in deps[v])]
    edges = G.n_edges(deps)

    # ---------------- load_transitive_closure, every root
    for r in range(n + 1):
        ti = env.factory.make({G.COND: tasks})
        rid = env.ident(_name(r, n))
        _, ex = env.wd.call(ti.load_transitive_closure, rid)
        reach = G.reach_star(deps, r, n)
        cyc = any(v in reach for v in on_cycle)
        undef = r >= n or any(v in reach for v in lists_undef)
        size = (n, edges, r)
        nontrivial = r < n and len(deps[r]) > 0
        tally.ev(ACCEPT, nontrivial)
        if isinstance(ex, G.NonTermination):
            tally.fail(ACCEPT, size, {
                "clause": "terminates", "class": "non-termination", "input": _json(deps, n, r),
                "expected": "returns or raises", "observed": str(ex)})
            continue
        if ex is None:
            if cyc or undef:
                tally.fail(ACCEPT, size, {
                    "clause": "accepts_iff", "class": "accepted-defective-closure",
                    "input": _json(deps, n, r),
                    "expected": "error (cycle reachable=%s, undefined reachable=%s)" % (cyc, undef),
                    "observed": "normal return"})
            else:
                loaded = set(ti.get_all_loaded_tasks().keys())
                want = {env.ident(_name(v, n)) for v in reach}
                if loaded != want:
                    tally.fail(ACCEPT, size, {
                        "clause": "loaded_set", "class": "loaded-set-differs-from-closure",
                        "input": _json(deps, n, r),
                        "expected": sorted(str(x) for x in want),
                        "observed": sorted(str(x) for x in loaded)})
            continue
        # the call raised
        if not (cyc or undef):
            tally.fail(ACCEPT, size, {
                "clause": "accepts_iff", "class": "rejected-sound-closure",
                "input": _json(deps, n, r), "expected": "normal return",
                "observed": "%s: %s" % (type(ex).__name__, ex)})
        tally.ev(KIND, cyc != undef)
        if isinstance(ex, E.CyclicDependency):
            applies = cyc
        elif isinstance(ex, E.TaskNotFound):
            applies = undef
        else:
            applies = False
        if not applies:
            tally.fail(KIND, size, {
                "clause": "error_kind", "class": "error-kind-does-not-apply",
                "input": _json(deps, n, r),
                "expected": "one of: %s" % ", ".join(
                    k for k, a in (("CyclicDependency", cyc), ("TaskNotFound", undef)) if a) or "no error",
                "observed": "%s: %s" % (type(ex).__name__, ex)})

    # ---------------- validate_all_loaded_tasks on all tasks of the file
    ti = env.factory.make({G.COND: tasks})
    ti.load_all_tasks_in_cond_file(G.COND)
    val, ex = env.wd.call(ti.validate_all_loaded_tasks)
    any_cyc, any_undef = bool(on_cycle), bool(lists_undef)
    size = (n, edges, 0)
    tally.ev(VREJ, n >= 2 and edges >= 1)
    if isinstance(ex, G.NonTermination):
        tally.fail(VREJ, size, {
            "clause": "terminates", "class": "non-termination", "input": _json(deps, n),
            "expected": "returns or raises", "observed": str(ex)})
        return
    if ex is None and (any_cyc or any_undef):
        tally.fail(VREJ, size, {
            "clause": "rejects_iff", "class": "accepted-defective-project",
            "input": _json(deps, n),
            "expected": "error (cycle=%s, dangling=%s)" % (any_cyc, any_undef),
            "observed": "returned %r" % (val,)})
    elif ex is not None:
        if isinstance(ex, E.CyclicDependency):
            applies = any_cyc
        elif isinstance(ex, E.TaskNotFound):
            applies = any_undef
        else:
            applies = False
        if not applies:
            tally.fail(VREJ, size, {
                "clause": "rejects_iff",
                "class": "rejected-sound-project" if not (any_cyc or any_undef)
                else "error-kind-does-not-apply",
                "input": _json(deps, n),
                "expected": "normal return" if not (any_cyc or any_undef) else
                "an error that applies (cycle=%s, dangling=%s)" % (any_cyc, any_undef),
                "observed": "%s: %s" % (type(ex).__name__, ex)})
    if ex is None and not (any_cyc or any_undef):
        want = G.roots(deps, n)
        tally.ev(VROOT, len(want) < n)
        got = [str(x) for x in val]
        want_s = sorted(G.task_id_str(i) for i in want)
        if sorted(got) != want_s:
            tally.fail(VROOT, size, {
                "clause": "roots_exact",
                "class": "duplicate-root" if len(set(got)) != len(got) else "wrong-root-set",
                "input": _json(deps, n), "expected": want_s, "observed": got})


def _spell(tok):
    j, absolute = tok
    return ("//:" if absolute else ":") + G.task_name(j)


def _dup_json(seqs, n, root=None, task=None):
    d = {"tasks": {G.task_name(i): {"kind": G.KIND_NAMES[_KINDS[i]],
                                    "deps": [_spell(t) for t in seqs[i]]} for i in range(n)}}
    if root is not None:
        d["root"] = G.task_id_str(root)
    if task is not None:
        d["get_task"] = G.task_id_str(task)
    return d


def _eval_dup(env, n, seqs, tally):
    E = env.E
    tasks = {G.task_name(i): env.raw(i, tuple(_spell(t) for t in seqs[i])) for i in range(n)}
    resolved = [[t[0] for t in s] for s in seqs]
    has_dup = [len(set(r)) != len(r) for r in resolved]
    deps = tuple(tuple(sorted(set(r))) for r in resolved)
    tc = G.transitive_closure(deps, n)
    on_cycle = [v for v in range(n) if v in tc[v]]
    size_base = (n, sum(len(s) for s in seqs))
    any_dup = any(has_dup)

    # get_task(t): materialises exactly t
    for i in range(n):
        ti = env.factory.make({G.COND: tasks})
        _, ex = env.wd.call(ti.get_task, env.ident(G.task_name(i)))
        tally.ev(DUP, any_dup)
        raised_dup = isinstance(ex, E.DuplicateDependency)
        if isinstance(ex, G.NonTermination):
            tally.fail(DUP, size_base + (i,), {
                "clause": "terminates", "class": "non-termination",
                "input": _dup_json(seqs, n, task=i), "expected": "returns or raises",
                "observed": str(ex)})
        elif raised_dup != has_dup[i] or (ex is not None and not raised_dup):
            tally.fail(DUP, size_base + (i,), {
                "clause": "materialize",
                "class": "duplicate-dependency-accepted" if has_dup[i] else "distinct-dependencies-rejected",
                "input": _dup_json(seqs, n, task=i),
                "expected": "DuplicateDependency" if has_dup[i] else "task materialises",
                "observed": "normal return" if ex is None else "%s: %s" % (type(ex).__name__, ex)})

    # load_transitive_closure(root)
    for r in range(n):
        ti = env.factory.make({G.COND: tasks})
        _, ex = env.wd.call(ti.load_transitive_closure, env.ident(G.task_name(r)))
        reach = G.reach_star(deps, r, n)
        dup_r = any(has_dup[v] for v in reach)
        cyc_r = any(v in reach for v in on_cycle)
        tally.ev(DUP, any_dup)
        if isinstance(ex, G.NonTermination):
            tally.fail(DUP, size_base + (r,), {
                "clause": "terminates", "class": "non-termination",
                "input": _dup_json(seqs, n, root=r), "expected": "returns or raises",
                "observed": str(ex)})
            continue
        if ex is None:
            ok = not dup_r and not cyc_r
        elif isinstance(ex, E.DuplicateDependency):
            ok = dup_r
        elif isinstance(ex, E.CyclicDependency):
            ok = cyc_r
        else:
            ok = False
        if not ok:
            if dup_r and not cyc_r:
                want = "DuplicateDependency"
            elif cyc_r and not dup_r:
                want = "CyclicDependency"
            elif dup_r and cyc_r:
                want = "DuplicateDependency or CyclicDependency"
            else:
                want = "normal return"
            tally.fail(DUP, size_base + (r,), {
                "clause": "closure_duplicate",
                "class": "duplicate-dependency-accepted" if (dup_r and not isinstance(ex, E.DuplicateDependency))
                else "duplicate-dependency-misreported",
                "input": _dup_json(seqs, n, root=r), "expected": want,
                "observed": "normal return" if ex is None else "%s: %s" % (type(ex).__name__, ex)})


def _worker(arg):
    shard, nshards, payload = arg
    env = _Env(payload["root"])
    tally = G.Tally(NAMES)
    item = 0
    # main enumeration: item = one dependency configuration (all roots inside)
    for n, lists in _main_blocks(payload["tier"]):
        total = len(lists) ** n
        first = (shard - item) % nshards
        for k in range(first, total, nshards):
            idx, cfg = k, []
            for _ in range(n):
                idx, rem = divmod(idx, len(lists))
                cfg.append(lists[rem])
            deps = tuple(cfg)
            if env.wd.exhausted:
                break
            if n >= 4 and not G.has_cycle(deps, n) and all(j < n for d in deps for j in d):
                continue  # a dangling-free DAG: evaluated in the DAG block below
            _eval_main(env, n, deps, tally)
            if n == 3 and k == first:
                for nm in (ACCEPT, KIND, VREJ, VROOT):
                    tally.sample(nm, _json(deps, n, 0))
        item += total
    for n in _dag_block_sizes(payload["tier"]):
        dags = G.labelled_dags(n)  # cached per process; sharded by DAG, orders expanded here
        first = (shard - item) % nshards
        for k in range(first, len(dags), nshards):
            for deps in G.listing_orders(dags[k]):
                if env.wd.exhausted:
                    break
                _eval_main(env, n, deps, tally)
            if k == first:
                for nm in (ACCEPT, VROOT):
                    tally.sample(nm, _json(tuple(dags[k]), n, 0))
        item += len(dags)
    for n, max_len in _dup_blocks(payload["tier"]):
        toks = [(j, a) for j in range(n) for a in (False, True)]
        seqs_all = G.sequences_upto(toks, max_len)
        total = len(seqs_all) ** n
        first = (shard - item) % nshards
        for k in range(first, total, nshards):
            idx, cfg = k, []
            for _ in range(n):
                idx, rem = divmod(idx, len(seqs_all))
                cfg.append(seqs_all[rem])
            if env.wd.exhausted:
                break
            _eval_dup(env, n, tuple(cfg), tally)
            if k == first:
                tally.sample(DUP, _dup_json(tuple(cfg), n, root=0))
        item += total
    return tally, not env.wd.exhausted


def run(tier, seed):
    t0 = time.time()
    root = tempfile.mkdtemp(prefix="verif-")
    try:
        tallies = G.run_sharded(_worker, {"tier": tier, "root": root}, nshards=G.n_processes() * 8)
    finally:
        shutil.rmtree(root, ignore_errors=True)
    total = G.merge_tallies([t for t, _ in tallies], NAMES)
    complete = all(c for _, c in tallies)
    wall = time.time() - t0
    out = []
    for name in NAMES:
        c = total.get(name)
        out.append(result(
            name, "C14", FUNCS[name], _scope_dup(tier) if name == DUP else _scope_main(tier),
            exhaustive=complete, evaluations=c["ev"], distinct_nontrivial=c["nt"], rule=RULES[name],
            failures=total.failures(name), samples=c["samples"], wall_s=wall, n_failures=c["nf"]))
    return out


if __name__ == "__main__":
    from runtime.common import main

    main(run)
