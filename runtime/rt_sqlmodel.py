"""A-SQL made checkable: the contracts that /verif/contracts ASSUME for execution/version_index.py (the SQL text of
version_index_queries.py run by the real sqlite3) are evaluated here on the real class against an abstract table.

Abstract state: a set of rows (task, timestamp, commit, dirty) with (task, timestamp) unique, plus the order in
which the rows were inserted (so that "physical order" != "timestamp order" is covered: restore / bulk_load append
old rows after new ones).

  get_latest_output_version(t)   == the row of t with the greatest timestamp, None if t has none        (C05, C11)
  get_all_versions_for_task(t)   == the rows of t (as a set)                                             (C05, C11)
  get_all_versions()             == all rows (as a set)                                                  (C11, C13)
  copy_entries_to(dest, T, latest) : dest receives exactly  { r | (T is None or r.task in T) and
                                       (not latest or r.timestamp == max timestamp of r.task) }          (C11)
  create_or_load(file)._last_timestamp == max timestamp of the table (0 if empty), hence the next
                                       generated version id is greater than every recorded id            (C08)
  a transaction: insert / copy without commit_changes is invisible to a second connection, rollback_changes
                                       discards it, commit_changes makes exactly it visible; a row that is
                                       already recorded is rejected with IntegrityError                  (C06, C12, C08)

Scope (exhaustive): tasks {//:a, //x:b, //x/y:c} x timestamps {1,2,3}: every table with <= 3 rows (quick) /
<= 4 rows (thorough) x every insertion order x every task-selection argument.
"""
import itertools
import os
import pathlib
import shutil
import tempfile
import time

from runtime import common
from runtime import graphs

FUNCTION = ("execution/version_index.py::VersionIndex.{create_or_load,get_latest_output_version,get_all_versions_for_task,"
            "get_all_versions,copy_entries_to,bulk_load,commit_changes,rollback_changes,insert_output_version}")
TASKS = ["//:a", "//x:b", "//x/y:c"]
STAMPS = [1, 2, 3]


def _commit_of(task, ts):
    # deterministic, varied: None / a hash; dirty flag varies too
    k = (TASKS.index(task) + ts) % 3
    return (None, False) if k == 0 else (("c%d%d" % (TASKS.index(task), ts)) * 5, k == 2)


def run(tier, seed):
    from conductor.execution.version_index import VersionIndex, Version
    from conductor.task_identifier import TaskIdentifier

    t0 = time.time()
    max_rows = 3 if tier == "quick" else 4
    cells = [(t, s) for t in TASKS for s in STAMPS]
    idents = {t: TaskIdentifier.from_str(t) for t in TASKS}
    # None = "everything"; an EMPTY list = "the named task's closure has no archivable task" = nothing at all
    selections = [None, []] + [list(c) for k in (1, 2) for c in itertools.combinations(TASKS, k)]
    acc = {n: {"ev": 0, "nt": 0, "fails": [], "nf": 0, "samples": []} for n in
           ("C11.sql.selection_queries_match_the_abstract_table", "C08.sql.last_timestamp_is_the_table_maximum",
            "C12.sql.transactions_are_invisible_until_commit")}

    def fail(name, cls, inp, expected, observed):
        a = acc[name]
        a["nf"] += 1
        if len(a["fails"]) < 5:
            a["fails"].append({"clause": name.split(".", 2)[2], "class": cls, "input": inp, "expected": expected, "observed": observed})

    def rows_of(vi_rows):
        return sorted((str(t), v.timestamp, v.commit_hash, bool(v.has_uncommitted_changes)) for t, v in vi_rows)

    scratch = tempfile.mkdtemp(prefix="verif-", dir="/dev/shm" if os.path.isdir("/dev/shm") and os.access("/dev/shm", os.W_OK) else None)
    n_db = 0
    try:
        for k in range(0, max_rows + 1):
            for subset in itertools.combinations(cells, k):
                orders = list(itertools.permutations(subset)) if k <= 3 else list(itertools.permutations(subset))[::5]
                for order in orders:
                    n_db += 1
                    db = pathlib.Path(scratch, "d%d" % n_db, "version_index.sqlite")
                    vi = VersionIndex.create_or_load(db)
                    table = []
                    for (t, s) in order:
                        ch, dirty = _commit_of(t, s)
                        vi.insert_output_version(idents[t], Version(s, ch, dirty))
                        table.append((t, s, ch, dirty))
                    vi.commit_changes()
                    inp = {"rows_in_insertion_order": [[t, s] for (t, s) in order]}
                    out_of_order = any(order[i][1] > order[i + 1][1] for i in range(len(order) - 1))
                    shared_ts = len({s for _, s in order}) < len(order)

                    # ---- C08: reopen
                    a8 = acc["C08.sql.last_timestamp_is_the_table_maximum"]
                    a8["ev"] += 1
                    if out_of_order:
                        a8["nt"] += 1
                    vi2 = VersionIndex.create_or_load(db)
                    exp_last = max([s for _, s in order], default=0)
                    if vi2._last_timestamp != exp_last:
                        fail("C08.sql.last_timestamp_is_the_table_maximum", "last-timestamp-below-a-recorded-id" if vi2._last_timestamp < exp_last else "last-timestamp-wrong",
                             inp, exp_last, vi2._last_timestamp)
                    if len(a8["samples"]) < 2 and out_of_order:
                        a8["samples"].append(inp)

                    # ---- C11/C05: queries
                    a11 = acc["C11.sql.selection_queries_match_the_abstract_table"]
                    for t in TASKS:
                        a11["ev"] += 1
                        mine = [r for r in table if r[0] == t]
                        exp = max(mine, key=lambda r: r[1]) if mine else None
                        got = vi2.get_latest_output_version(idents[t])
                        gotr = None if got is None else (t, got.timestamp, got.commit_hash, bool(got.has_uncommitted_changes))
                        if gotr != exp:
                            fail(a11 and "C11.sql.selection_queries_match_the_abstract_table", "latest-version-of-task-wrong", dict(inp, task=t), exp, gotr)
                        gotall = sorted((t, v.timestamp, v.commit_hash, bool(v.has_uncommitted_changes)) for v in vi2.get_all_versions_for_task(idents[t]))
                        if gotall != sorted(mine):
                            fail("C11.sql.selection_queries_match_the_abstract_table", "versions-of-task-wrong", dict(inp, task=t), sorted(mine), gotall)
                    a11["ev"] += 1
                    if rows_of(vi2.get_all_versions()) != sorted(table):
                        fail("C11.sql.selection_queries_match_the_abstract_table", "all-versions-wrong", inp, sorted(table), rows_of(vi2.get_all_versions()))
                    for sel in selections:
                        for latest in (False, True):
                            a11["ev"] += 1
                            if latest and shared_ts:
                                a11["nt"] += 1
                            exp_rows = sorted(r for r in table if (sel is None or r[0] in sel)
                                              and (not latest or r[1] == max(x[1] for x in table if x[0] == r[0])))
                            n_db += 1
                            dst_path = pathlib.Path(scratch, "d%d" % n_db, "dst.sqlite")
                            VersionIndex.create_or_load(dst_path)._conn.close()      # created ...
                            dst = VersionIndex.create_or_load(dst_path)               # ... and opened again, as every later invocation does
                            cinp = dict(inp, tasks=sel, latest_only=latest)
                            try:
                                cnt = vi2.copy_entries_to(dst, None if sel is None else [idents[t] for t in sel], latest)
                            except Exception as ex:       # noqa: a selection must never collide with itself
                                fail("C11.sql.selection_queries_match_the_abstract_table", "copy-raised-" + type(ex).__name__, cinp, exp_rows, repr(ex))
                                dst._conn.close()
                                continue
                            # ---- C12: not visible before commit
                            a12 = acc["C12.sql.transactions_are_invisible_until_commit"]
                            a12["ev"] += 1
                            if exp_rows:
                                a12["nt"] += 1
                            other = VersionIndex.create_or_load(dst_path)
                            seen_before = rows_of(other.get_all_versions())
                            other._conn.close()
                            if seen_before != []:
                                fail("C12.sql.transactions_are_invisible_until_commit", "rows-visible-before-commit", cinp, [], seen_before)
                            got_rows = rows_of(dst.get_all_versions())
                            if got_rows != exp_rows:
                                cls = "latest-selection-wrong" if latest else "selection-wrong"
                                fail("C11.sql.selection_queries_match_the_abstract_table", cls, cinp, exp_rows, got_rows)
                            elif cnt is not None and cnt >= 0 and cnt != len(exp_rows) and sel is None:
                                fail("C11.sql.selection_queries_match_the_abstract_table", "copied-count-wrong", cinp, len(exp_rows), cnt)
                            if (n_db % 2) == 0:
                                dst.rollback_changes()
                                exp_after = []
                            else:
                                dst.commit_changes()
                                exp_after = got_rows
                            other = VersionIndex.create_or_load(dst_path)
                            seen_after = rows_of(other.get_all_versions())
                            other._conn.close()
                            if seen_after != exp_after:
                                fail("C12.sql.transactions_are_invisible_until_commit",
                                     "rollback-kept-rows" if not exp_after else "commit-lost-rows", cinp, exp_after, seen_after)
                            if exp_after:
                                # a row that is already recorded is never silently accepted again (restore relies on the error)
                                a12["ev"] += 1
                                try:
                                    vi2.copy_entries_to(dst, None if sel is None else [idents[t] for t in sel], latest)
                                    dup = "accepted"
                                except Exception as ex:   # noqa
                                    dup = type(ex).__name__
                                dst.rollback_changes()
                                if dup != "IntegrityError":
                                    fail("C12.sql.transactions_are_invisible_until_commit", "duplicate-row-not-rejected", cinp, "IntegrityError", dup)
                            dst._conn.close()
                            if len(a11["samples"]) < 2 and latest and shared_ts:
                                a11["samples"].append(cinp)
                            if len(a12["samples"]) < 2 and exp_rows:
                                a12["samples"].append(cinp)
                    vi._conn.close()
                    vi2._conn.close()
                    shutil.rmtree(db.parent, ignore_errors=True)
                if n_db % 50 == 0:
                    for d in os.listdir(scratch):
                        shutil.rmtree(os.path.join(scratch, d), ignore_errors=True)
    finally:
        shutil.rmtree(scratch, ignore_errors=True)
    # ---- C20 / C12: identifiers read back from an index (the index inside an archive is external input) go through
    # the identifier grammar: a row that is not an identifier is rejected, never turned into a path
    import sqlite3
    import conductor.errors as errors
    foreign = acc.setdefault("C20.sql.rows_read_back_are_checked_against_the_identifier_grammar", {"ev": 0, "nt": 0, "fails": [], "nf": 0, "samples": []})
    scratch2 = tempfile.mkdtemp(prefix="verif-", dir="/dev/shm" if os.path.isdir("/dev/shm") and os.access("/dev/shm", os.W_OK) else None)
    try:
        bad_rows = ["//res.v2:exp", "//a/../b:c", "//a:b\n", "a:b c", "//a//b:c", "//a:b:c", "", "//../x:y", "//a:.."]
        good_rows = ["//:a", "//x/y:c", "//x/:b"]
        for k, ident_str in enumerate(bad_rows + good_rows):
            db = pathlib.Path(scratch2, "f%d" % k, "idx.sqlite")
            VersionIndex.create_or_load(db)._conn.close()
            c = sqlite3.connect(str(db))
            c.execute("INSERT INTO version_index (task_identifier, timestamp, git_commit_hash, has_uncommitted_changes) VALUES (?, ?, ?, ?)", (ident_str, 7, None, 0))
            c.commit()
            c.close()
            vi = VersionIndex.create_or_load(db)
            foreign["ev"] += 1
            inp = {"stored_task_identifier": ident_str}
            try:
                rows = vi.get_all_versions()
                got = "accepted:" + ",".join(str(t) for t, _v in rows)
            except errors.ConductorError as ex:
                got = "rejected:" + type(ex).__name__
            except Exception as ex:      # noqa
                got = "raw:" + type(ex).__name__
            vi._conn.close()
            if ident_str in bad_rows:
                foreign["nt"] += 1
                if len(foreign["samples"]) < 2:
                    foreign["samples"].append(inp)
                if not got.startswith("rejected"):
                    foreign["nf"] += 1
                    if len(foreign["fails"]) < 5:
                        foreign["fails"].append({"clause": "rows_checked", "class": "non-identifier-row-" + got.split(":")[0], "input": inp, "expected": "a ConductorError (InvalidTaskIdentifier)", "observed": got})
            elif not got.startswith("accepted"):
                foreign["nf"] += 1
                if len(foreign["fails"]) < 5:
                    foreign["fails"].append({"clause": "rows_checked", "class": "valid-row-rejected", "input": inp, "expected": "accepted", "observed": got})
    finally:
        shutil.rmtree(scratch2, ignore_errors=True)
    wall = time.time() - t0
    scope = "tasks %r x timestamps %r: every table with <= %d rows x every insertion order x task selections x latest flag" % (TASKS, STAMPS, max_rows)
    props = {"C11.sql.selection_queries_match_the_abstract_table": ["C11", "C05", "C13"],
             "C08.sql.last_timestamp_is_the_table_maximum": ["C08"],
             "C12.sql.transactions_are_invisible_until_commit": ["C12", "C06", "C08"],
             "C20.sql.rows_read_back_are_checked_against_the_identifier_grammar": ["C20", "C12", "C11"]}
    rules = {"C11.sql.selection_queries_match_the_abstract_table": "distinct (table, insertion order, selection, latest); non-trivial = latest selection on a table where two tasks share a timestamp",
             "C08.sql.last_timestamp_is_the_table_maximum": "distinct (table, insertion order); non-trivial = rows not inserted in timestamp order",
             "C12.sql.transactions_are_invisible_until_commit": "distinct copies followed by commit or rollback, observed through a second connection; non-trivial = at least one row copied",
             "C20.sql.rows_read_back_are_checked_against_the_identifier_grammar": "distinct stored strings (9 outside the grammar, 3 inside); non-trivial = outside the grammar"}
    out = []
    for name, a in acc.items():
        out.append(common.result(name, props[name], FUNCTION, scope if not name.startswith("C20") else "an index file with one row whose task_identifier column holds the given string, read with get_all_versions()", exhaustive=(max_rows <= 3), evaluations=a["ev"], distinct_nontrivial=a["nt"],
                                 rule=rules[name], failures=a["fails"], samples=a["samples"], wall_s=wall / 3, n_failures=a["nf"]))
    return out


if __name__ == "__main__":
    raise SystemExit(common.main(run))
