"""C11 (archive then restore reproduces exactly the selected versions), C12 (restore is
all-or-nothing and never overwrites) and the restore part of C06.

Real code driven: conductor.cli.archive.main and conductor.cli.restore.main through their
cli_command wrappers (argparse.Namespace arguments, chdir into scratch projects with real
sqlite version indexes and real COND files; the real `tar` is spawned).
"""
import argparse
import contextlib
import hashlib
import io
import json
import multiprocessing
import os
import pathlib
import shutil
import signal
import sqlite3
import tarfile
import tempfile
import time


def _mkscratch():
    """tempfile.mkdtemp(prefix="verif-"), on tmpfs when TMPDIR is not set (directory-heavy scenarios
    are ~4x faster there and do not contend on the ext4 journal when sharded over 16 workers)."""
    base = os.environ.get("TMPDIR") or ("/dev/shm" if os.access("/dev/shm", os.W_OK | os.X_OK) else None)
    return tempfile.mkdtemp(prefix="verif-", dir=base)


_POOL_TIMEOUT_S = 3600    # a dead worker must not hang the driver for ever


def _safe(fn):
    """Pool workers must only raise picklable exceptions (a ConductorError with keyword-only
    constructor arguments cannot be unpickled in the parent and would hang the pool)."""
    import functools
    import traceback

    @functools.wraps(fn)
    def wrapper(job):
        try:
            return fn(job)
        except BaseException:
            raise RuntimeError("harness worker %s crashed on job %r:\n%s"
                               % (fn.__name__, job, traceback.format_exc())) from None
    return wrapper


# --------------------------------------------------------------------------- accumulator
def _size(inp):
    text = json.dumps(inp, default=str, sort_keys=True)
    return (len(text), text)


class Acc:
    def __init__(self):
        self.ev = 0
        self.nt = 0
        self.nf = 0
        self.fails = []
        self.samples = []
        self.classes = {}

    def sample(self, inp, cap=3):
        if len(self.samples) < cap:
            self.samples.append(inp)

    def fail(self, clause, cls, inp, expected, observed):
        self.nf += 1
        self.classes[cls] = self.classes.get(cls, 0) + 1
        self.fails.append({"clause": clause, "class": cls, "input": inp,
                           "expected": str(expected), "observed": str(observed)})
        if len(self.fails) > 200:
            self._trim()

    def _trim(self):
        per = {}
        for f in sorted(self.fails, key=lambda f: _size(f["input"])):
            per.setdefault(f["class"], [])
            if len(per[f["class"]]) < 5:
                per[f["class"]].append(f)
        self.fails = [f for fs in per.values() for f in fs]

    def merge(self, other):
        self.ev += other.ev
        self.nt += other.nt
        self.nf += other.nf
        for k, v in other.classes.items():
            self.classes[k] = self.classes.get(k, 0) + v
        self.fails.extend(other.fails)
        self._trim()
        for s in other.samples:
            self.sample(s)

    def selected_failures(self):
        ordered = sorted(self.fails, key=lambda f: _size(f["input"]))
        first, seen = [], set()
        for f in ordered:
            if f["class"] not in seen:
                seen.add(f["class"])
                first.append(f)
        rest = [f for f in ordered if all(f is not g for g in first)]
        chosen = (first + rest)[:5]
        return sorted(chosen, key=lambda f: _size(f["input"]))

    def result(self, name, prop, function, scope, exhaustive, rule, wall):
        from runtime.common import result
        r = result(name, prop, function, scope, exhaustive=exhaustive, evaluations=self.ev,
                   distinct_nontrivial=self.nt, rule=rule, failures=self.selected_failures(),
                   samples=self.samples, wall_s=wall, n_failures=self.nf)
        r["failure_classes"] = dict(sorted(self.classes.items()))
        return r


# --------------------------------------------------------------------------- fixtures
ROOT_COND = """
run_experiment(name="a", run="true")
run_experiment(name="lonely", run="true")
run_command(name="top", run="true", deps=[":a", "//x/y:b"])
run_command(name="plain", run="true")
run_experiment(name="never", run="true")
"""
XY_COND = """
run_experiment(name="b", run="true", deps=[":c"])
run_experiment(name="c", run="true")
"""
# (identifier, timestamp, commit hash, dirty flag)
SOURCE_ROWS = [
    ("//:a", 100, "abc", 1), ("//:a", 200, None, 0), ("//x/y:b", 150, "def", 0),
    ("//x/y:c", 50, "abc", 0), ("//x/y:c", 60, "abc", 1), ("//:lonely", 300, None, 0),
]
ARCHIVABLE_CLOSURE = {          # written by hand from the two COND files above
    "//:top": {"//:a", "//x/y:b", "//x/y:c"}, "//x/y:b": {"//x/y:b", "//x/y:c"}, "//:a": {"//:a"},
    "//:plain": set(), "//:never": {"//:never"}, "//:lonely": {"//:lonely"},
}


def rel_dir(ident, ts):
    path, name = ident[2:].split(":")
    return (path + "/" if path else "") + "%s.task.%d" % (name, ts)


def o_selected(task, latest):
    rows = list(SOURCE_ROWS)
    if task is not None:
        rows = [r for r in rows if r[0] in ARCHIVABLE_CLOSURE[task]]
    if latest:
        newest = {}
        for r in rows:
            if r[0] not in newest or r[1] > newest[r[0]][1]:
                newest[r[0]] = r
        rows = list(newest.values())
    return sorted(rows, key=lambda r: (r[0], r[1]))


def _fill_version_dir(d, tag):
    (d / "results" / "deep").mkdir(parents=True)
    (d / "empty_dir").mkdir()
    (d / "stdout.log").write_bytes(("out of %s\n" % tag).encode() + bytes(range(256)))
    (d / "stderr.log").write_bytes(b"")
    (d / "results" / "data.bin").write_bytes(hashlib.sha256(tag.encode()).digest() * 50)
    (d / "results" / "deep" / "with space.txt").write_text("tag=%s\n" % tag)
    (d / "args.json").write_text(json.dumps([tag, 1, True]))


def _create_index(path, rows):
    import conductor.execution.version_index as vi
    index = vi.VersionIndex.create_or_load(path)      # the real schema / format version
    index._conn.close()
    conn = sqlite3.connect(str(path))                 # rows by explicit column names (fixture, not under test)
    conn.executemany("INSERT INTO version_index (task_identifier, timestamp, git_commit_hash, has_uncommitted_changes) VALUES (?, ?, ?, ?)",
                     [(ident, ts, commit, 1 if dirty else 0) for ident, ts, commit, dirty in rows])
    conn.commit()
    conn.close()


def _make_project(root, rows, with_cond=True):
    (root / "sub" / "dir").mkdir(parents=True)
    (root / "cond_config.toml").write_text("")
    if with_cond:
        (root / "COND").write_text(ROOT_COND)
        (root / "x" / "y").mkdir(parents=True)
        (root / "x" / "y" / "COND").write_text(XY_COND)
    cond_out = root / "cond-out"
    cond_out.mkdir()
    for ident, ts, _, _ in rows:
        d = cond_out / rel_dir(ident, ts)
        d.mkdir(parents=True)
        _fill_version_dir(d, "%s@%d" % (ident, ts))
    _create_index(cond_out / "version_index.sqlite", rows)
    return cond_out


def _make_source(root):
    cond_out = _make_project(root, SOURCE_ROWS)
    failed = cond_out / "a.task.999"          # an unrecorded (failed) run: must never travel
    failed.mkdir()
    (failed / "partial.txt").write_text("partial")
    (cond_out / "top.task").mkdir()
    (cond_out / "top.task" / "note.txt").write_text("not archivable")
    return cond_out


def _rows(cond_out):
    conn = sqlite3.connect(str(cond_out / "version_index.sqlite"))
    try:
        return sorted(conn.execute("SELECT task_identifier, timestamp, git_commit_hash, has_uncommitted_changes "
                                   "FROM version_index").fetchall(), key=lambda r: (r[0], r[1]))
    finally:
        conn.close()


def _tree_hash(d):
    """Hash of a directory tree: relative names, kinds and file bytes (None when missing)."""
    d = str(d)
    if not os.path.isdir(d):
        return None
    h = hashlib.sha256()
    for base, dirs, files in os.walk(d):
        dirs.sort()
        rel = os.path.relpath(base, d)
        h.update(("D:" + rel + "\n").encode())
        for f in sorted(files):
            p = os.path.join(base, f)
            h.update(("F:" + os.path.join(rel, f) + "\n").encode())
            if os.path.islink(p):
                h.update(("L:" + os.readlink(p)).encode())
            else:
                with open(p, "rb") as fh:
                    h.update(hashlib.sha256(fh.read()).digest())
    return h.hexdigest()


def _task_dirs(cond_out):
    """All task output directories (relative), found by name suffix; the staging dir is skipped."""
    out = []
    for base, dirs, _ in os.walk(str(cond_out)):
        rel = os.path.relpath(base, str(cond_out))
        if rel.split(os.sep)[0] == "archive-tmp":
            dirs[:] = []
            continue
        keep = []
        for d in dirs:
            if ".task" in d:
                out.append(os.path.normpath(os.path.join(rel, d)))
            else:
                keep.append(d)
        dirs[:] = keep
    return sorted(out)


def _call_cli(fn, args, cwd):
    """Runs a cli_command-wrapped entry point in-process; returns (status, stdout, stderr)."""
    old_cwd = os.getcwd()
    old_int, old_term = signal.getsignal(signal.SIGINT), signal.getsignal(signal.SIGTERM)
    out, err = io.StringIO(), io.StringIO()
    saved_fd2 = os.dup(2)
    devnull = os.open(os.devnull, os.O_WRONLY)
    try:
        os.chdir(cwd)
        os.dup2(devnull, 2)            # tar's own complaints about broken archives
        with contextlib.redirect_stdout(out), contextlib.redirect_stderr(err):
            try:
                fn(args)
                status = "ok"
            except SystemExit as ex:
                status = "exit(%s)" % (ex.code,)
            except Exception as ex:
                status = "%s" % type(ex).__name__
    finally:
        os.dup2(saved_fd2, 2)
        os.close(saved_fd2)
        os.close(devnull)
        os.chdir(old_cwd)
        signal.signal(signal.SIGINT, old_int)
        signal.signal(signal.SIGTERM, old_term)
    return status, out.getvalue(), err.getvalue()


def _archive(src_root, task, latest, output, cwd=None):
    import conductor.cli.archive as archive
    args = argparse.Namespace(task_identifier=task, output=None if output is None else str(output),
                              latest=latest, debug=False)
    return _call_cli(archive.main, args, cwd or src_root)


def _restore(dest_root, archive_file, cwd=None):
    import conductor.cli.restore as restore
    args = argparse.Namespace(archive_file=str(archive_file), debug=False)
    return _call_cli(restore.main, args, cwd or dest_root)


DEST_ROWS = [("//:z", 5, "zzz", 0), ("//:a", 77, None, 1)]


# --------------------------------------------------------------------------- scenarios
ARCHIVE_MODES = [
    ("all", None, False, "explicit"), ("all --latest", None, True, "explicit"),
    ("//:top", "//:top", False, "explicit"), ("//:top --latest", "//:top", True, "explicit"),
    ("//x/y:b", "//x/y:b", False, "explicit"), ("//:a --latest", "//:a", True, "explicit"),
    ("all, default output in cond-out", None, False, "default"),
    ("all, output = existing directory", None, False, "directory"),
    ("//:lonely, from sub/dir", "//:lonely", False, "explicit-from-sub"),
]
EMPTY_MODES = [("//:plain", "//:plain", False), ("//:never", "//:never", False), ("//:never --latest", "//:never", True)]
DEST_KINDS = ["empty", "other rows", "empty, restore from sub/dir"]


def _scenarios(tier):
    out = []
    for mode in ARCHIVE_MODES:
        for dest in DEST_KINDS:
            out.append(("roundtrip", mode, dest))
    for mode in EMPTY_MODES:
        out.append(("nothing", mode, None))
    for cause in ["no-index-in-archive", "listed-dir-missing", "truncated-archive", "garbage-archive",
                  "version-already-recorded", "version-already-recorded-without-dir",
                  "destination-dir-exists", "archive-file-missing", "archive-file-is-directory",
                  "index-is-a-directory"]:
        for dest in ("other rows", "empty"):
            if dest == "empty" and cause in ("version-already-recorded", "version-already-recorded-without-dir"):
                continue
            out.append(("failing", cause, dest))
    for stale in ["file-in-version-dir", "file-in-nested-subdir", "unrelated-dir", "stale-archive-index",
                  "empty-staging-dir"]:
        out.append(("stale", stale, None))
    return out


def _make_archive(scratch, tag, task=None, latest=False):
    """A well-formed archive of the selected versions of a fresh source project, written with
    tarfile + sqlite3 (same layout as `cond archive`: the archive index and the version
    directories relative to cond-out), so that the restore checks do not depend on archive.main."""
    src = scratch / ("src-" + tag)
    src.mkdir()
    cond_out = _make_source(src)
    out = scratch / ("arch-" + tag)
    out.mkdir()
    path = out / "a.tar.gz"
    rows = o_selected(task, latest)
    index_path = out / "version_index_archive.sqlite"
    _create_index(index_path, rows)
    with tarfile.open(path, "w:gz") as t:
        t.add(index_path, arcname="version_index_archive.sqlite")
        for r in rows:
            t.add(cond_out / rel_dir(r[0], r[1]), arcname=rel_dir(r[0], r[1]))
    os.unlink(index_path)
    return src, cond_out, path


def _repack(scratch, tag, good_archive, mutate):
    """Unpacks a good archive, lets `mutate(dir)` damage it, packs it again with the same layout."""
    work = scratch / ("repack-" + tag)
    work.mkdir()
    with tarfile.open(good_archive, "r:gz") as t:
        t.extractall(work, filter="fully_trusted")
    mutate(work)
    out = scratch / ("bad-" + tag + ".tar.gz")
    with tarfile.open(out, "w:gz") as t:
        for name in sorted(os.listdir(work)):
            t.add(work / name, arcname=name)
    return out


@_safe
def _scenario_worker(job):
    index, scenario, tier = job
    kind = scenario[0]
    rt, aon, smr, stale_acc = Acc(), Acc(), Acc(), Acc()
    scratch = pathlib.Path(_mkscratch()).resolve()
    t_begin = time.time()
    try:
        if kind == "roundtrip":
            _roundtrip(scratch, scenario[1], scenario[2], rt, smr)
        elif kind == "nothing":
            _nothing(scratch, scenario[1], rt)
        elif kind == "failing":
            _failing(scratch, scenario[1], scenario[2], aon)
        elif kind == "stale":
            _stale(scratch, scenario[1], stale_acc)
        else:
            raise RuntimeError("harness: unknown scenario")
    finally:
        shutil.rmtree(scratch, ignore_errors=True)
    return rt, aon, smr, stale_acc, time.time() - t_begin


def _roundtrip(scratch, mode, dest_kind, rt, smr):
    label, task, latest, out_kind = mode
    src = scratch / "src"
    src.mkdir()
    src_out = _make_source(src)
    src_rows_before = _rows(src_out)
    src_dirs_before = {d: _tree_hash(src_out / d) for d in _task_dirs(src_out)}
    outdir = scratch / "archives"
    outdir.mkdir()
    inp = {"archive": label, "destination": dest_kind}
    rt.ev += 1
    rt.nt += 1 if (task is not None or latest) else 0
    rt.sample(inp)
    cwd = None
    if out_kind in ("explicit", "explicit-from-sub"):
        target = outdir / "my-archive.tar.gz"
        cwd = src / "sub" / "dir" if out_kind == "explicit-from-sub" else None
        status, stdout, stderr = _archive(src, task, latest, target, cwd)
    elif out_kind == "directory":
        status, stdout, stderr = _archive(src, task, latest, outdir)
        found = sorted(outdir.glob("cond-archive+*.tar.gz"))
        target = found[0] if len(found) == 1 else None
    else:
        status, stdout, stderr = _archive(src, task, latest, None)
        found = sorted(src_out.glob("cond-archive+*.tar.gz"))
        target = found[0] if len(found) == 1 else None
    if status != "ok" or target is None or not target.is_file():
        rt.fail("archive_succeeds", "archive-fails", inp, "archive written", "%s %s" % (status, stderr.strip()))
        return
    # archive must not change the source project
    if _rows(src_out) != src_rows_before:
        rt.fail("archive_frame_index", "archive-changes-source-index", inp, src_rows_before, _rows(src_out))
        return
    after = {d: _tree_hash(src_out / d) for d in _task_dirs(src_out)}
    if after != src_dirs_before:
        rt.fail("archive_frame_dirs", "archive-changes-source-outputs", inp, sorted(src_dirs_before), sorted(after))
        return
    if (src_out / "version_index_archive.sqlite").exists():
        rt.fail("archive_frame_tmp_index", "archive-leaves-temporary-index", inp, "removed", "still there")
        return
    expected = o_selected(task, latest)
    with tarfile.open(target, "r:gz") as t:
        members = t.getnames()
    tops = sorted({m.split("/")[0] if not m.startswith("x/") else "/".join(m.split("/")[:3]) for m in members})
    exp_tops = sorted(["version_index_archive.sqlite"] + [rel_dir(r[0], r[1]) for r in expected])
    if tops != exp_tops:
        extra = [m for m in tops if m not in exp_tops]
        cls = "archive-contains-unselected-output" if extra else "archive-lacks-selected-output"
        rt.fail("archive_members", cls, inp, exp_tops, tops)
        return

    # ---- restore
    dest = scratch / "dest"
    dest.mkdir()
    dest_rows = DEST_ROWS if dest_kind == "other rows" else []
    dest_out = _make_project(dest, dest_rows, with_cond=False)
    pre_rows = _rows(dest_out)
    pre_dirs = {d: _tree_hash(dest_out / d) for d in _task_dirs(dest_out)}
    rcwd = dest / "sub" / "dir" if "from sub/dir" in dest_kind else None
    status, stdout, stderr = _restore(dest, target, rcwd)
    smr.ev += 1
    smr.nt += 1 if dest_rows else 0
    smr.sample(inp)
    if status != "ok":
        rt.fail("restore_succeeds", "restore-of-good-archive-fails", inp, "ok", "%s %s" % (status, stderr.strip()))
        return
    got_rows = _rows(dest_out)
    exp_rows = sorted(pre_rows + expected, key=lambda r: (r[0], r[1]))
    post_dirs = {d: _tree_hash(dest_out / d) for d in _task_dirs(dest_out)}
    # C12.success_means_all_recorded: every archived row is committed and its directory is there
    missing_rows = [r for r in expected if r not in got_rows]
    missing_dirs = [rel_dir(r[0], r[1]) for r in expected if rel_dir(r[0], r[1]) not in post_dirs]
    if missing_rows:
        smr.fail("all_rows_recorded", "restore-succeeds-with-rows-missing", inp, expected, got_rows)
    elif missing_dirs:
        smr.fail("all_dirs_copied", "restore-succeeds-with-outputs-missing", inp, missing_dirs, sorted(post_dirs))
    elif (dest_out / "archive-tmp").exists():
        smr.fail("staging_removed", "staging-dir-left-behind", inp, "removed", "still there")
    # C11 round trip: rows verbatim, trees identical, nothing else appears, nothing pre-existing changes
    if got_rows != exp_rows:
        extra = [r for r in got_rows if r not in exp_rows]
        cls = "restored-rows-differ" if not extra else "unselected-rows-restored"
        if not extra and not missing_rows:
            cls = "restored-row-fields-differ"
        rt.fail("rows_verbatim", cls, inp, exp_rows, got_rows)
        return
    for r in expected:
        d = rel_dir(r[0], r[1])
        if post_dirs.get(d) != src_dirs_before[d]:
            rt.fail("trees_identical", "restored-output-differs", inp, "%s identical to the source" % d,
                    "different tree" if d in post_dirs else "missing")
            return
    for d, h in pre_dirs.items():
        if post_dirs.get(d) != h:
            rt.fail("preexisting_untouched", "existing-output-modified-by-restore", inp, d, "changed")
            return
    unexpected = [d for d in post_dirs if d not in pre_dirs and d not in {rel_dir(r[0], r[1]) for r in expected}]
    if unexpected:
        rt.fail("nothing_else_restored", "unselected-output-restored", inp, [], unexpected)


def _nothing(scratch, mode, rt):
    label, task, latest = mode
    src = scratch / "src"
    src.mkdir()
    src_out = _make_source(src)
    before = (_rows(src_out), {d: _tree_hash(src_out / d) for d in _task_dirs(src_out)})
    target = scratch / "none.tar.gz"
    inp = {"archive": label, "destination": None}
    rt.ev += 1
    status, _, stderr = _archive(src, task, latest, target)
    if status != "exit(1)":
        rt.fail("nothing_to_archive", "empty-archive-not-refused", inp, "exit(1)", status)
    elif target.exists() or (src_out / "version_index_archive.sqlite").exists():
        rt.fail("nothing_to_archive_cleanup", "refused-archive-leaves-files", inp, "no file", "file left")
    elif before != (_rows(src_out), {d: _tree_hash(src_out / d) for d in _task_dirs(src_out)}):
        rt.fail("archive_frame", "archive-changes-source-outputs", inp, "unchanged", "changed")


def _failing(scratch, cause, dest_kind, aon):
    src, src_out, good = _make_archive(scratch, "good")
    inp = {"cause": cause, "destination": dest_kind}
    dest = scratch / "dest"
    dest.mkdir()
    dest_rows = list(DEST_ROWS) if dest_kind == "other rows" else []
    extra_dirs = []
    if cause == "version-already-recorded":
        dest_rows.append(("//x/y:b", 150, "other", 1))
    dest_out = _make_project(dest, dest_rows, with_cond=False)
    if cause == "version-already-recorded-without-dir":
        conn = sqlite3.connect(str(dest_out / "version_index.sqlite"))
        conn.execute("INSERT INTO version_index VALUES ('//x/y:b', 150, 'other', 1)")
        conn.commit()
        conn.close()
    if cause == "destination-dir-exists":
        d = dest_out / "x" / "y" / "b.task.150"
        d.mkdir(parents=True)
        (d / "precious.txt").write_text("do not overwrite")
        extra_dirs.append(d)

    def drop_index(w):
        os.unlink(w / "version_index_archive.sqlite")

    def drop_dir(w):
        shutil.rmtree(w / "x" / "y" / "c.task.60")

    def index_dir(w):
        os.unlink(w / "version_index_archive.sqlite")
        (w / "version_index_archive.sqlite").mkdir()

    if cause == "no-index-in-archive":
        bad = _repack(scratch, "noindex", good, drop_index)
    elif cause == "listed-dir-missing":
        bad = _repack(scratch, "nodir", good, drop_dir)
    elif cause == "index-is-a-directory":
        bad = _repack(scratch, "indexdir", good, index_dir)
    elif cause == "truncated-archive":
        bad = scratch / "truncated.tar.gz"
        data = good.read_bytes()
        bad.write_bytes(data[:len(data) // 2])
    elif cause == "garbage-archive":
        bad = scratch / "garbage.tar.gz"
        bad.write_bytes(b"this is not a tar file\n" * 100)
    elif cause == "archive-file-missing":
        bad = scratch / "does-not-exist.tar.gz"
    elif cause == "archive-file-is-directory":
        bad = scratch / "a-directory.tar.gz"
        bad.mkdir()
    else:
        bad = good
    pre_rows = _rows(dest_out)
    pre_dirs = {d: _tree_hash(dest_out / d) for d in _task_dirs(dest_out)}
    aon.ev += 1
    aon.nt += 1 if dest_rows else 0
    status, _, stderr = _restore(dest, bad)
    inp = dict(inp, outcome=status, message=stderr.strip().replace(str(scratch), "<scratch>")[:160])
    aon.sample(inp)
    post_rows = _rows(dest_out)
    post_dirs = {d: _tree_hash(dest_out / d) for d in _task_dirs(dest_out)}
    if status == "ok":
        aon.fail("bad_archive_refused", "bad-archive-accepted:" + cause, inp, "failure", "ok")
    elif post_rows != pre_rows:
        aon.fail("rows_unchanged_after_failure", "partial-restore-recorded:" + cause, inp, pre_rows, post_rows)
    elif any(post_dirs.get(d) != h for d, h in pre_dirs.items()):
        changed = [d for d, h in pre_dirs.items() if post_dirs.get(d) != h]
        aon.fail("never_overwrites", "existing-output-modified:" + cause, inp, "unchanged", changed)
    elif (dest_out / "archive-tmp").exists():
        aon.fail("staging_removed", "staging-dir-left-behind:" + cause, inp, "removed", "still there")
    elif cause in ("no-index-in-archive", "listed-dir-missing", "truncated-archive", "garbage-archive",
                   "version-already-recorded", "version-already-recorded-without-dir", "archive-file-missing",
                   "archive-file-is-directory") and status != "exit(1)":
        aon.fail("reported_as_conductor_error", "failure-not-reported-cleanly:" + cause, inp, "exit(1)", status)
    # a second, good restore must still work after the failed one (nothing half-done blocks it)
    if cause in ("no-index-in-archive", "truncated-archive", "garbage-archive", "archive-file-missing"):
        aon.ev += 1
        status2, _, err2 = _restore(dest, good)
        if status2 != "ok":
            aon.fail("retry_after_failure", "good-restore-fails-after-failed-one:" + cause, inp, "ok",
                     "%s %s" % (status2, err2.strip()))


def _stale(scratch, stale_kind, acc):
    src, src_out, good = _make_archive(scratch, "good", task="//x/y:b")
    expected = o_selected("//x/y:b", False)
    dest = scratch / "dest"
    dest.mkdir()
    dest_out = _make_project(dest, DEST_ROWS, with_cond=False)
    staging = dest_out / "archive-tmp"
    if stale_kind == "file-in-version-dir":
        (staging / "x" / "y" / "b.task.150").mkdir(parents=True)
        (staging / "x" / "y" / "b.task.150" / "STALE").write_text("left by a killed restore")
    elif stale_kind == "file-in-nested-subdir":
        (staging / "x" / "y" / "c.task.60" / "results" / "deep").mkdir(parents=True)
        (staging / "x" / "y" / "c.task.60" / "results" / "deep" / "STALE").write_text("left by a killed restore")
    elif stale_kind == "unrelated-dir":
        (staging / "q.task.9").mkdir(parents=True)
        (staging / "q.task.9" / "STALE").write_text("left by a killed restore")
    elif stale_kind == "stale-archive-index":
        staging.mkdir()
        (staging / "q.task.9").mkdir()
        (staging / "q.task.9" / "STALE").write_text("stale")
        _create_index(staging / "version_index_archive.sqlite", [("//:q", 9, None, 0)])
    else:
        staging.mkdir()
    pre_rows = _rows(dest_out)
    inp = {"archive": "//x/y:b (3 versions)", "stale_staging_content": stale_kind}
    acc.ev += 1
    acc.nt += 1 if stale_kind != "empty-staging-dir" else 0
    acc.sample(inp)
    status, _, stderr = _restore(dest, good)
    if status != "ok":
        # refusing to run over a stale staging directory is allowed, provided nothing was restored
        if _rows(dest_out) != pre_rows:
            acc.fail("refusal_is_clean", "stale-staging-partial-restore", inp, pre_rows, _rows(dest_out))
        return
    got_rows = _rows(dest_out)
    exp_rows = sorted(pre_rows + expected, key=lambda r: (r[0], r[1]))
    if got_rows != exp_rows:
        acc.fail("rows_verbatim", "stale-staging-rows-restored", inp, exp_rows, got_rows)
        return
    for r in expected:
        d = rel_dir(r[0], r[1])
        if _tree_hash(dest_out / d) != _tree_hash(src_out / d):
            names = []
            for base, _, files in os.walk(str(dest_out / d)):
                names.extend(os.path.relpath(os.path.join(base, f), str(dest_out)) for f in files if f == "STALE")
            acc.fail("trees_identical", "stale-staging-reused", inp, "%s identical to the archived version" % d,
                     "extra files: %s" % names)
            return
    extra = [d for d in _task_dirs(dest_out) if d.endswith("q.task.9")]
    if extra:
        acc.fail("nothing_else_restored", "stale-staging-output-restored", inp, [], extra)
    elif staging.exists():
        acc.fail("staging_removed", "staging-dir-left-behind", inp, "removed", "still there")


# --------------------------------------------------------------------------- driver
def run(tier, seed):
    n_proc = min(16, os.cpu_count() or 1)
    mp = multiprocessing.get_context("fork")
    scenarios = _scenarios(tier)
    rt, aon, smr, stale = Acc(), Acc(), Acc(), Acc()
    walls = {"roundtrip": 0.0, "nothing": 0.0, "failing": 0.0, "stale": 0.0}
    t0 = time.time()
    with mp.Pool(processes=n_proc) as pool:
        jobs = [(i, s, tier) for i, s in enumerate(scenarios)]
        for (i, s, _), (a, b, c, d, w) in zip(jobs, pool.map_async(_scenario_worker, jobs, chunksize=1).get(_POOL_TIMEOUT_S)):
            rt.merge(a)
            aon.merge(b)
            smr.merge(c)
            stale.merge(d)
            walls[s[0]] += w
    wall = time.time() - t0
    src_desc = ("source project: 2 COND files (//:top -> [//:a, //x/y:b], //x/y:b -> //x/y:c, //:lonely, //:plain, "
                "//:never), 6 recorded versions with commit hash / dirty flag variety, version dirs with nested, "
                "empty and binary content, one unrecorded a.task.999, one top.task")
    return [
        rt.result("C11.archive_restore.roundtrip", ["C11", "C06"], "cli/archive.py::main + cli/restore.py::main",
                  src_desc + "; archive modes %s x destination %s; + archives with nothing to archive %s"
                  % ([m[0] for m in ARCHIVE_MODES], DEST_KINDS, [m[0] for m in EMPTY_MODES]), True,
                  "distinct (archive mode, destination); non-trivial = a task or --latest restricts the selection",
                  min(wall, walls["roundtrip"] + walls["nothing"])),
        aon.result("C12.restore.all_or_nothing", ["C12", "C06"], "cli/restore.py::main",
                   src_desc + "; failing restores by cause (archive without index, listed dir missing, truncated, "
                   "garbage, version already recorded with / without dir, destination dir exists, archive file "
                   "missing / a directory, index member is a directory) x destination {other rows, empty}; then a "
                   "good restore after the failed one", True,
                   "distinct (cause, destination) (+ retries); non-trivial = the destination already has rows",
                   min(wall, walls["failing"])),
        smr.result("C12.restore.success_means_all_recorded", ["C12", "C06"], "cli/restore.py::main",
                   "every successful restore of the C11 round-trip scope", True,
                   "distinct (archive mode, destination); non-trivial = the destination already has rows",
                   min(wall, walls["roundtrip"])),
        stale.result("C11.restore.stale_staging_dir", "C11", "cli/restore.py::main",
                     "archive of //x/y:b (3 versions) restored into a project whose cond-out/archive-tmp was left "
                     "behind: STALE file in a version dir / in a nested sub-directory of one, unrelated stale dir, "
                     "stale archive index naming a stale dir, empty staging dir", True,
                     "distinct stale contents; non-trivial = the staging directory is not empty",
                     min(wall, walls["stale"])),
    ]


if __name__ == "__main__":
    from runtime.common import main
    main(run)
