"""C02 / C20 / C14: the dependency list of a materialised task.

Bounded stand-in for the contract of `TaskIndex._materialize_raw_task` (contracts/task_index.py): for a task
defined in directory P with dependency strings d_0 .. d_{n-1},

  * accepted  =>  task.deps has exactly n entries, entry k is the identifier that d_k denotes by the documented
    rule (":name" -> (P, name); "//p:name" / "//p/:name" -> (p, name)), and no identifier occurs twice;
  * two strings that denote the same task (whatever their spelling) => DuplicateDependency;
  * a string outside the grammar => a ConductorError; the caller's raw dict is not modified.

Oracle: a hand-written resolver of the documented grammar (no call into conductor's identifier code).
Scope: listing directories {"", "sub", "a/b"} x all dependency lists of length <= 3 (quick) / <= 4 (thorough)
over a pool of spellings of 4 target tasks + 3 malformed strings; exhaustive.
"""
import itertools
import pathlib
import tempfile
import shutil
import time

from runtime import common
from runtime import graphs

FUNCTION = "parsing/task_index.py::TaskIndex._materialize_raw_task"
DIRS = ["", "sub", "a/b"]
TARGETS = [("", "x"), ("sub", "x"), ("sub", "y"), ("a/b", "x")]
MALFORMED = ["x", "sub:x", ":x\n"]          # no prefix / no prefix / trailing newline


def spellings(path, name):
    out = ["//%s:%s" % (path, name)]
    if path:
        out.append("//%s/:%s" % (path, name))
    out.append(":" + name)                     # denotes (listing dir, name) -- resolved per listing dir below
    return out


def denote(s, listing_dir):
    """The (path, name) a dependency string denotes, or None if it is outside the grammar."""
    ok = set("abcdefghijklmnopqrstuvwxyzABCDEFGHIJKLMNOPQRSTUVWXYZ0123456789_-")

    def is_name(t):
        return len(t) > 0 and all(c in ok for c in t)
    if s.startswith(":"):
        return (listing_dir, s[1:]) if is_name(s[1:]) else None
    if not s.startswith("//"):
        return None
    rest = s[2:]
    if rest.count(":") != 1:
        return None
    p, n = rest.split(":")
    if not is_name(n):
        return None
    if p.endswith("/"):
        p = p[:-1]
        if p == "":
            return None
    if p != "" and not all(is_name(seg) for seg in p.split("/")):
        return None
    return (p, n)


def run(tier, seed):
    from conductor.task_identifier import TaskIdentifier
    from conductor.errors import ConductorError
    try:
        from conductor.errors import DuplicateDependency
    except ImportError:                                                           # pragma: no cover
        raise graphs.HarnessError("conductor.errors.DuplicateDependency missing")

    t0 = time.time()
    max_len = 3 if tier == "quick" else 4
    pool = sorted({s for (p, n) in TARGETS for s in spellings(p, n)}) + MALFORMED
    root = tempfile.mkdtemp(prefix="verif-")
    failures, samples = [], []
    evaluations = nontrivial = 0
    n_fail = 0
    try:
        fac = graphs.IndexFactory(root)
        for d in DIRS:
            cond_abs = pathlib.Path(root, d, "COND")
            ident = TaskIdentifier(path=pathlib.Path(d), name="top")
            for n in range(0, max_len + 1):
                for dep_strs in itertools.product(pool, repeat=n):
                    den = [denote(s, d) for s in dep_strs]
                    raw = graphs.make_raw_task("run_command", "top", list(dep_strs), cond_abs)
                    before = dict(raw)
                    before_deps = list(raw.get("deps", []))
                    ti = fac.make({})
                    evaluations += 1
                    try:
                        task = ti._materialize_raw_task(ident, raw)
                        got = [(str(x.path) if str(x.path) != "." else "", x.name) for x in task.deps]
                        outcome = ("ok", got)
                    except DuplicateDependency:
                        outcome = ("dup", None)
                    except ConductorError as ex:
                        outcome = ("err", type(ex).__name__)
                    if any(x is None for x in den):
                        first_bad = next(i for i, x in enumerate(den) if x is None)
                        # a duplicate before the malformed string may legitimately be reported first
                        dup_before = len(set(den[:first_bad])) < first_bad
                        expected = "rejected (ConductorError)"
                        good = outcome[0] == "err" or (outcome[0] == "dup" and dup_before)
                        cls = "malformed-dependency-accepted"
                    elif len(set(den)) < len(den):
                        nontrivial += 1
                        expected = "DuplicateDependency"
                        good = outcome[0] == "dup"
                        cls = "same-task-listed-twice-accepted" if outcome[0] == "ok" else "duplicate-wrong-error"
                    else:
                        if n > 0:
                            nontrivial += 1
                        expected = "deps == %r" % (den,)
                        good = outcome == ("ok", den)
                        cls = "dependency-resolved-to-the-wrong-task" if outcome[0] == "ok" else "well-formed-dependencies-rejected"
                    if good and (dict(raw) != before or list(raw.get("deps", [])) != before_deps):
                        good, cls, expected = False, "caller-raw-task-modified", "raw task dict unchanged"
                    if len(samples) < 3 and n == 2:
                        samples.append({"listing_dir": d, "deps": list(dep_strs), "outcome": outcome[0]})
                    if not good:
                        n_fail += 1
                        if len(failures) < 5:
                            failures.append({"clause": "deps_listed_once_and_resolved", "class": cls,
                                             "input": {"listing_dir": d, "deps": list(dep_strs)},
                                             "expected": expected, "observed": repr(outcome)})
    finally:
        shutil.rmtree(root, ignore_errors=True)
    return [common.result(
        "C02.materialize.deps_listed_once_and_resolved", ["C02", "C20", "C14", "C09"], FUNCTION,
        "listing dirs %r x all dependency lists of length <= %d over %d spellings (relative, //p:n, //p/:n of 4 tasks, 3 malformed)" % (DIRS, max_len, len(pool)),
        exhaustive=True, evaluations=evaluations, distinct_nontrivial=nontrivial,
        rule="distinct (listing dir, dependency list); non-trivial = non-empty well-formed list (resolved against an independent resolver) or a list naming one task twice",
        failures=failures, samples=samples, wall_s=time.time() - t0, n_failures=n_fail)]


def _deps_output_paths(tier):
    """C07: COND_DEPS is built from TaskType.get_deps_output_paths: the output directory of EVERY direct dependency
    that has one, in declared order -- also when dependencies in different directories share a task name (legal for
    run tasks; only combine() forbids it)."""
    from conductor.task_identifier import TaskIdentifier
    t0 = time.time()
    pool = [("a", "data", "run_command"), ("b", "data", "run_command"), ("c", "data", "run_command"), ("mid", "other", "run_command"),
            ("", "plain", "run_command"), ("g", "grp", "group"), ("a", "grp", "group")]
    max_len = 3 if tier == "quick" else 4
    root = tempfile.mkdtemp(prefix="verif-")
    failures, samples = [], []
    ev = nt = nf = 0
    try:
        fac = graphs.IndexFactory(root)
        rootp = pathlib.Path(root)
        for n in range(0, max_len + 1):
            for deps in itertools.permutations(pool, n):
                files = {}
                for (d, nm, kind) in deps:
                    files.setdefault(pathlib.Path(d, "COND"), {})[nm] = graphs.make_raw_task(kind, nm, [], rootp / d / "COND")
                dep_strs = ["//%s:%s" % (d, nm) for (d, nm, _k) in deps]
                files.setdefault(pathlib.Path("top", "COND"), {})["top"] = graphs.make_raw_task("run_command", "top", dep_strs, rootp / "top" / "COND")
                ti = fac.make(files)
                ident = TaskIdentifier(pathlib.Path("top"), "top")
                ti.load_transitive_closure(ident)
                ctx = graphs.StubContext(root, ti)
                got = [str(pathlib.Path(p).relative_to(rootp)) for p in ti.get_task(ident).get_deps_output_paths(ctx)]
                want = [str(pathlib.Path("cond-out", d, nm + ".task")) for (d, nm, kind) in deps if kind != "group"]
                ev += 1
                names = [nm for (_d, nm, k) in deps if k != "group"]
                if len(set(names)) < len(names):
                    nt += 1
                    if len(samples) < 2:
                        samples.append({"deps": dep_strs})
                if got != want:
                    nf += 1
                    cls = "dependency-with-a-shared-name-dropped" if len(got) < len(want) else ("declared-order-not-kept" if sorted(got) == sorted(want) else "wrong-directories")
                    if len(failures) < 5:
                        failures.append({"clause": "every_dependency_in_declared_order", "class": cls, "input": {"deps": dep_strs}, "expected": want, "observed": got})
    finally:
        shutil.rmtree(root, ignore_errors=True)
    return common.result(
        "C07.deps_output_paths.every_dependency_in_declared_order", ["C07", "C18"], "task_types/base.py::TaskType.get_deps_output_paths",
        "all ordered selections of <= %d dependencies from 7 tasks in 6 directories (three run_commands named `data`, two groups without output)" % max_len,
        exhaustive=True, evaluations=ev, distinct_nontrivial=nt,
        rule="distinct ordered dependency lists; non-trivial = two dependencies with an output directory share a task name",
        failures=failures, samples=samples, wall_s=time.time() - t0, n_failures=nf)


_run_materialize = run


def run(tier, seed):        # noqa: F811
    return _run_materialize(tier, seed) + [_deps_output_paths(tier)]


if __name__ == "__main__":
    raise SystemExit(common.main(run))
