"""C02 / C20 / C14: the dependency list of a materialised task.

Bounded stand-in for the contract of `TaskIndex._materialize_raw_task` (contracts/task_index.py): for a task
defined in directory P with dependency strings d_0 .. d_{n-1},

  * accepted  =>  task.deps has exactly n entries, entry k is the identifier that d_k denotes by the documented
    rule (":name" -> (P, name); "//p:name" / "//p/:name" -> (p, name)), and no identifier occurs twice;
  * two strings that denote the same task (whatever their spelling) => DuplicateDependency;
  * a string outside the grammar => a ConductorError; the caller's raw dict is not modified.

Oracle: a hand-written resolver of the documented grammar (no call into conductor's identifier code).
Scope: listing directories {"", "sub", "a/b"} x all dependency lists of length <= 3 (quick) / <= 4 (thorough)
over a pool of spellings of 4 target tasks + 3 malformed strings; exhaustive.
"""
import itertools
import pathlib
import tempfile
import shutil
import time

from runtime import common
from runtime import graphs

FUNCTION = "parsing/task_index.py::TaskIndex._materialize_raw_task"
DIRS = ["", "sub", "a/b"]
TARGETS = [("", "x"), ("sub", "x"), ("sub", "y"), ("a/b", "x")]
MALFORMED = ["x", "sub:x", ":x\n"]          # no prefix / no prefix / trailing newline


def spellings(path, name):
    out = ["//%s:%s" % (path, name)]
    if path:
        out.append("//%s/:%s" % (path, name))
    out.append(":" + name)                     # denotes (listing dir, name) -- resolved per listing dir below
    return out


def denote(s, listing_dir):
    """The (path, name) a dependency string denotes, or None if it is outside the grammar."""
    ok = set("abcdefghijklmnopqrstuvwxyzABCDEFGHIJKLMNOPQRSTUVWXYZ0123456789_-")

    def is_name(t):
        return len(t) > 0 and all(c in ok for c in t)
    if s.startswith(":"):
        return (listing_dir, s[1:]) if is_name(s[1:]) else None
    if not s.startswith("//"):
        return None
    rest = s[2:]
    if rest.count(":") != 1:
        return None
    p, n = rest.split(":")
    if not is_name(n):
        return None
    if p.endswith("/"):
        p = p[:-1]
        if p == "":
            return None
    if p != "" and not all(is_name(seg) for seg in p.split("/")):
        return None
    return (p, n)


def run(tier, seed):
    from conductor.task_identifier import TaskIdentifier
    from conductor.errors import ConductorError
    try:
        from conductor.errors import DuplicateDependency
    except ImportError:                                                           # pragma: no cover
        raise graphs.HarnessError("conductor.errors.DuplicateDependency missing")

    t0 = time.time()
    max_len = 3 if tier == "quick" else 4
    pool = sorted({s for (p, n) in TARGETS for s in spellings(p, n)}) + MALFORMED
    root = tempfile.mkdtemp(prefix="verif-")
    failures, samples = [], []
    evaluations = nontrivial = 0
    n_fail = 0
    try:
        fac = graphs.IndexFactory(root)
        for d in DIRS:
            cond_abs = pathlib.Path(root, d, "COND")
            ident = TaskIdentifier(path=pathlib.Path(d), name="top")
            for n in range(0, max_len + 1):
                for dep_strs in itertools.product(pool, repeat=n):
                    den = [denote(s, d) for s in dep_strs]
                    raw = graphs.make_raw_task("run_command", "top", list(dep_strs), cond_abs)
                    before = dict(raw)
                    before_deps = list(raw.get("deps", []))
                    ti = fac.make({})
                    evaluations += 1
                    try:
                        task = ti._materialize_raw_task(ident, raw)
                        got = [(str(x.path) if str(x.path) != "." else "", x.name) for x in task.deps]
                        outcome = ("ok", got)
                    except DuplicateDependency:
                        outcome = ("dup", None)
                    except ConductorError as ex:
                        outcome = ("err", type(ex).__name__)
                    if any(x is None for x in den):
                        first_bad = next(i for i, x in enumerate(den) if x is None)
                        # a duplicate before the malformed string may legitimately be reported first
                        dup_before = len(set(den[:first_bad])) < first_bad
                        expected = "rejected (ConductorError)"
                        good = outcome[0] == "err" or (outcome[0] == "dup" and dup_before)
                        cls = "malformed-dependency-accepted"
                    elif len(set(den)) < len(den):
                        nontrivial += 1
                        expected = "DuplicateDependency"
                        good = outcome[0] == "dup"
                        cls = "same-task-listed-twice-accepted" if outcome[0] == "ok" else "duplicate-wrong-error"
                    else:
                        if n > 0:
                            nontrivial += 1
                        expected = "deps == %r" % (den,)
                        good = outcome == ("ok", den)
                        cls = "dependency-resolved-to-the-wrong-task" if outcome[0] == "ok" else "well-formed-dependencies-rejected"
                    if good and (dict(raw) != before or list(raw.get("deps", [])) != before_deps):
                        good, cls, expected = False, "caller-raw-task-modified", "raw task dict unchanged"
                    if len(samples) < 3 and n == 2:
                        samples.append({"listing_dir": d, "deps": list(dep_strs), "outcome": outcome[0]})
                    if not good:
                        n_fail += 1
                        if len(failures) < 5:
                            failures.append({"clause": "deps_listed_once_and_resolved", "class": cls,
                                             "input": {"listing_dir": d, "deps": list(dep_strs)},
                                             "expected": expected, "observed": repr(outcome)})
    finally:
        shutil.rmtree(root, ignore_errors=True)
    return [common.result(
        "C02.materialize.deps_listed_once_and_resolved", ["C02", "C20", "C14"], FUNCTION,
        "listing dirs %r x all dependency lists of length <= %d over %d spellings (relative, //p:n, //p/:n of 4 tasks, 3 malformed)" % (DIRS, max_len, len(pool)),
        exhaustive=True, evaluations=evaluations, distinct_nontrivial=nontrivial,
        rule="distinct (listing dir, dependency list); non-trivial = non-empty well-formed list (resolved against an independent resolver) or a list naming one task twice",
        failures=failures, samples=samples, wall_s=time.time() - t0, n_failures=n_fail)]


if __name__ == "__main__":
    raise SystemExit(common.main(run))
