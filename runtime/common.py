"""Shared helpers for the concrete back end (runs under /venv/bin/python)."""
import argparse
import json
import os
import sys
import time


def main(run):
    ap = argparse.ArgumentParser()
    ap.add_argument("--tier", default=os.environ.get("VERIF_TIER", "quick"))
    ap.add_argument("--seed", type=int, default=int(os.environ.get("VERIF_SEED", "0")))
    ap.add_argument("--out", default=None)
    ap.add_argument("--only", default=None, help="substring filter on check names")
    args = ap.parse_args()
    t0 = time.time()
    results = run(args.tier, args.seed)
    if args.only:
        results = [r for r in results if args.only in r["name"]]
    doc = {"tier": args.tier, "seed": args.seed, "wall_s": round(time.time() - t0, 3),
           "checks": results}
    text = json.dumps(doc, indent=1, default=str)
    if args.out:
        with open(args.out, "w", encoding="utf-8") as f:
            f.write(text)
    else:
        sys.stdout.write(text + "\n")
    return 0


def result(name, prop, function, scope, *, exhaustive, evaluations, distinct_nontrivial,
           rule, failures, samples, wall_s, n_failures=None):
    failures = list(failures)
    return {
        "name": name, "property": prop, "function": function, "scope": scope,
        "exhaustive": bool(exhaustive), "evaluations": int(evaluations),
        "distinct_nontrivial": int(distinct_nontrivial), "rule": rule,
        "n_failures": int(n_failures if n_failures is not None else len(failures)),
        "failures": failures[:5], "samples": list(samples)[:3], "wall_s": round(wall_s, 3),
    }
