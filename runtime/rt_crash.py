"""C06 -- crash-point enumeration on the REAL code.

"At every instant, including if Conductor is killed at any point of any
command, every recorded version's output directory exists and already holds
the task's finished output together with its args.json/options.json records."

For every line event k that is executed in the main thread between the entry
and the exit of

  * RunTaskExecutable.finish_execution   (run through the real planner +
    Executor.run_plan; fixtures: a successful experiment with args and options,
    sequential (teed) and in a parallel slot (only logged), and a failing one),
  * conductor.cli.restore.main           (fixtures: a small valid archive made
    by the real `cond archive`; the same archive with one version directory
    removed)

-- the lines of the function itself and of every conductor function it calls --
a fresh process runs the real function with a sys.settrace hook that calls
os._exit(9) when the k-th such line event fires (= SIGKILL before that
statement executes: no `finally`, no flush, no sqlite rollback).  Afterwards
the PARENT opens the project's version_index.sqlite afresh and checks that
every recorded row has a complete directory.

Failure `class` = "<function in which the process died>@<statement text>".
"""
import argparse
import filecmp
import json
import multiprocessing
import os
import pathlib
import shutil
import sqlite3
import subprocess
import sys
import tarfile
import tempfile
import time

sys.dont_write_bytecode = True      # nothing may be written under /verif
from runtime.common import result  # noqa: E402
from runtime.rt_abort import Anchors, supervised_fork, silence_stdio

CHECK = "C06.crash.recorded_version_implies_finished_directory"
FUNCTION = ("execution/ops/run_task_executable.py::RunTaskExecutable.finish_execution, "
            "cli/restore.py::main")
COND_CLI = "/venv/bin/cond"
CONFIG = "disable_git = true\n"
TIMEOUT = 20.0

ARGS = ["alpha", 2, True]
OPTIONS = {"opt": 1.5, "flag": False, "name": "x y"}
STDOUT_TEXT = "out-line-1\nout-line-2\n"
STDERR_TEXT = "err-line-1\n"

# `sleep 0.2` first: a command that exits within a few milliseconds can be reaped by
# Popen.__del__ before the SIGCHLD handler sees it (finding F7, checked by rt_sigchld);
# that hang is not what this module is about.
E_SH_OK = """
sleep 0.2
printf 'out-line-1\\nout-line-2\\n'
printf 'err-line-1\\n' >&2
echo "$@" > "$COND_OUT/argv.txt"
touch "$COND_OUT/finished"
"""
E_SH_FAIL = """
sleep 0.2
printf 'out-line-1\\nout-line-2\\n'
printf 'err-line-1\\n' >&2
echo "$@" > "$COND_OUT/argv.txt"
exit 4
"""


def _exp_cond(parallel):
    return 'run_experiment(name="e", run="bash e.sh", args={!r}, options={!r}, parallelizable={})\n'.format(
        ARGS, OPTIONS, parallel)


FINISH_FIXTURES = {
    "experiment-ok-sequential": {"cond": _exp_cond(False), "sh": E_SH_OK, "jobs": 1, "ok": True},
    "experiment-ok-in-slot": {"cond": _exp_cond(True), "sh": E_SH_OK, "jobs": 2, "ok": True},
    "experiment-failing": {"cond": _exp_cond(False), "sh": E_SH_FAIL, "jobs": 1, "ok": False},
}
RESTORE_FIXTURES = ["restore-valid-archive", "restore-archive-missing-directory"]

RESTORE_COND = """
run_experiment(name="e1", run="echo one > $COND_OUT/data.txt; mkdir $COND_OUT/sub; echo deep > $COND_OUT/sub/deep.txt")
run_experiment(name="e2", run="echo two > $COND_OUT/data.txt", args=[1], deps=[":e1"])
run_experiment(name="own", run="echo mine > $COND_OUT/data.txt")
"""


# --------------------------------------------------------------------------- reading the index afresh
def read_rows(root):
    dbp = pathlib.Path(root) / "cond-out" / "version_index.sqlite"
    if not dbp.exists():
        return [], None
    conn = sqlite3.connect(str(dbp))
    try:
        try:
            rows = conn.execute("SELECT task_identifier, timestamp FROM version_index").fetchall()
        except sqlite3.OperationalError as ex:
            return [], str(ex)          # e.g. killed before the table was created
    finally:
        conn.close()
    return sorted((r[0], r[1]) for r in rows), None


def version_dir(root, task, ts):
    # identifiers of the fixtures are all of the form //:name
    return pathlib.Path(root) / "cond-out" / "{}.task.{}".format(task.split(":")[-1], ts)


def check_finish_rows(root, rows):
    """Problems of the recorded rows after a crash in finish_execution."""
    problems = []
    for task, ts in rows:
        d = version_dir(root, task, ts)
        if not d.is_dir():
            problems.append("{}@{}: directory missing".format(task, ts))
            continue
        if not (d / "finished").is_file():
            problems.append("{}@{}: recorded although the command did not run to its end".format(task, ts))
        for name, want in (("stdout.log", STDOUT_TEXT), ("stderr.log", STDERR_TEXT)):
            f = d / name
            if not f.is_file():
                problems.append("{}@{}: {} missing".format(task, ts, name))
            elif f.read_text() != want:
                problems.append("{}@{}: {} incomplete ({!r})".format(task, ts, name, f.read_text()[:40]))
        for name, want in (("args.json", ARGS), ("options.json", OPTIONS)):
            f = d / name
            if not f.is_file():
                problems.append("{}@{}: {} missing".format(task, ts, name))
                continue
            try:
                got = json.loads(f.read_text())
            except ValueError:
                problems.append("{}@{}: {} truncated ({!r})".format(task, ts, name, f.read_text()[:40]))
                continue
            if got != want:
                problems.append("{}@{}: {} decodes to {!r}".format(task, ts, name, got))
    return problems


def _same_tree(a, b):
    cmp = filecmp.dircmp(str(a), str(b))
    if cmp.left_only or cmp.right_only or cmp.funny_files:
        return False
    _, mismatch, errors = filecmp.cmpfiles(str(a), str(b), cmp.common_files, shallow=False)
    if mismatch or errors:
        return False
    return all(_same_tree(pathlib.Path(a) / d, pathlib.Path(b) / d) for d in cmp.common_dirs)


def check_restore_rows(root, rows, shared):
    """Every recorded row: directory exists with the complete tree (the archived one for
    restored versions, the untouched one for the destination's own version)."""
    problems = []
    src_rows = {tuple(r) for r in shared["src_rows"]}
    dst_rows = {tuple(r) for r in shared["dst_rows"]}
    for task, ts in rows:
        d = version_dir(root, task, ts)
        if (task, ts) in src_rows:
            ref = version_dir(shared["src"], task, ts)
        elif (task, ts) in dst_rows:
            ref = version_dir(shared["dst_template"], task, ts)
        else:
            problems.append("{}@{}: a row nobody asked for".format(task, ts))
            continue
        if not d.is_dir():
            problems.append("{}@{}: directory missing".format(task, ts))
        elif not _same_tree(ref, d):
            problems.append("{}@{}: directory tree incomplete / differs from the original".format(task, ts))
    return problems


# --------------------------------------------------------------------------- the traced region
class Region:
    """Counts the line events executed by the current thread in conductor code between
    entry and exit of the function with code object `target`; dies at the k-th."""

    def __init__(self, target, k, write_line, record):
        import conductor
        self.pkg = os.path.dirname(os.path.abspath(conductor.__file__)) + os.sep
        self.target = target
        self.k = k
        self.write_line = write_line
        self.record = record
        self.depth = 0
        self.n = 0
        self.events = []

    def local(self, frame, event, arg):
        if event == "line" and self.depth > 0:
            self.n += 1
            code = frame.f_code
            if self.record:
                self.events.append((code.co_qualname, code.co_filename, frame.f_lineno))
            if self.n == self.k:
                self.write_line({"died_at": [code.co_qualname, code.co_filename, frame.f_lineno],
                                 "k": self.k})
                os._exit(9)  # pylint: disable=protected-access
        elif event == "return" and frame.f_code is self.target:
            self.depth -= 1
        return self.local

    def tracer(self, frame, event, arg):
        code = frame.f_code
        if code is self.target:
            self.depth += 1
            return self.local
        if self.depth > 0 and code.co_filename.startswith(self.pkg):
            return self.local
        return None


def _restore_inner_main():
    """The function decorated with @cli_command in conductor.cli.restore."""
    import conductor.cli.restore as restore
    fn = restore.main
    for cell in (fn.__closure__ or ()):
        try:
            val = cell.cell_contents
        except ValueError:
            continue
        if callable(val) and getattr(val, "__module__", None) == restore.__name__:
            return val
    return fn


def _finish_scenario(fix, root, k, write_line):
    silence_stdio()
    from conductor.context import Context
    from conductor.execution.executor import Executor
    from conductor.execution.planning.planner import ExecutionPlanner
    from conductor.execution.ops.run_task_executable import RunTaskExecutable
    from conductor.task_identifier import TaskIdentifier

    spec = FINISH_FIXTURES[fix]
    ctx = Context(pathlib.Path(root))
    tid = TaskIdentifier.from_str("//:e")
    ctx.task_index.load_transitive_closure(tid)
    plan = ExecutionPlanner(ctx).create_plan_for(tid)
    region = Region(RunTaskExecutable.finish_execution.__code__, k, write_line, record=(k == 0))
    exc = None
    sys.settrace(region.tracer)
    try:
        Executor(execution_slots=spec["jobs"]).run_plan(plan, ctx)
    except BaseException as ex:  # pylint: disable=broad-except
        exc = ex
    finally:
        sys.settrace(None)
    write_line({"completed": True, "n": region.n, "events": region.events,
                "exc_type": type(exc).__name__ if exc else None})


def _restore_scenario(root, archive, k, write_line):
    silence_stdio()
    import conductor.cli.restore as restore

    os.chdir(root)
    region = Region(_restore_inner_main().__code__, k, write_line, record=(k == 0))
    args = argparse.Namespace(archive_file=str(archive), debug=False)
    exc = None
    sys.settrace(region.tracer)
    try:
        restore.main(args)
    except BaseException as ex:  # pylint: disable=broad-except
        exc = ex
    finally:
        sys.settrace(None)
    write_line({"completed": True, "n": region.n, "events": region.events,
                "exc_type": type(exc).__name__ if exc else None,
                "exit_code": exc.code if isinstance(exc, SystemExit) else None})


# --------------------------------------------------------------------------- jobs
def _run_job(job):
    """job = (kind, fixture, k, shared): returns the observation made by the parent."""
    kind, fix, k, shared = job
    root = tempfile.mkdtemp(prefix="verif-")
    try:
        if kind == "finish":
            spec = FINISH_FIXTURES[fix]
            pathlib.Path(root, "cond_config.toml").write_text(CONFIG)
            pathlib.Path(root, "COND").write_text(spec["cond"])
            pathlib.Path(root, "e.sh").write_text(spec["sh"])
            lines, hung, status = supervised_fork(
                lambda w: _finish_scenario(fix, root, k, w), TIMEOUT)
        else:
            shutil.rmtree(root)
            shutil.copytree(shared["dst_template"], root)
            archive = shared["archives"][fix]
            lines, hung, status = supervised_fork(
                lambda w: _restore_scenario(root, archive, k, w), TIMEOUT)
        if hung:
            raise RuntimeError("crash scenario {} {} k={} did not finish".format(kind, fix, k))
        died = [l for l in lines if "died_at" in l]
        done = [l for l in lines if l.get("completed")]
        code = os.waitstatus_to_exitcode(status) if status is not None else None
        if died and code != 9:
            raise RuntimeError("scenario announced its death but exited with {}".format(code))
        if not died and not done:
            raise RuntimeError("scenario {} {} k={} ended with status {} and no report".format(
                kind, fix, k, code))
        rows, index_error = read_rows(root)
        if kind == "finish":
            problems = check_finish_rows(root, rows)
            ran = pathlib.Path(root, "cond-out").is_dir() and any(
                pathlib.Path(root, "cond-out").glob("e.task.*/argv.txt"))
        else:
            problems = check_restore_rows(root, rows, shared)
            ran = True
        return {"kind": kind, "fixture": fix, "k": k, "died_at": died[0]["died_at"] if died else None,
                "completed": done[0] if done else None, "rows": rows, "index_error": index_error,
                "problems": problems, "task_ran": ran}
    finally:
        shutil.rmtree(root, ignore_errors=True)


def _cli(args, cwd):
    env = {k: v for k, v in os.environ.items() if not k.startswith("COND_")}
    r = subprocess.run([COND_CLI, *args], cwd=str(cwd), env=env, stdout=subprocess.PIPE,
                       stderr=subprocess.PIPE, text=True, timeout=120, check=False)
    if r.returncode != 0:
        raise RuntimeError("fixture set-up: cond {} failed: {}".format(args, r.stderr[-400:]))
    return r


def build_restore_fixtures(base):
    """Source project with versions of e1, e2 + archive (real CLI); a variant of the archive
    lacking one version directory; a destination template with its own recorded version."""
    base = pathlib.Path(base)
    src = base / "src"
    dst = base / "dst"
    for p in (src, dst):
        p.mkdir()
        (p / "cond_config.toml").write_text(CONFIG)
        (p / "COND").write_text(RESTORE_COND)
    _cli(["run", "//:e2"], src)
    valid = base / "valid.tar.gz"
    _cli(["archive", "-o", str(valid)], src)
    src_rows, _ = read_rows(src)
    if sorted(t for t, _ in src_rows) != ["//:e1", "//:e2"]:
        raise RuntimeError("fixture set-up: unexpected source versions {}".format(src_rows))
    with tarfile.open(valid) as tf:
        names = tf.getnames()
    for t, ts in src_rows:
        if "{}.task.{}".format(t[3:], ts) not in names:
            raise RuntimeError("fixture set-up: archive lacks {} {}: {}".format(t, ts, names))
    # variant: remove the directory of the LAST version the restore loop will visit
    unpack = base / "unpack"
    unpack.mkdir()
    with tarfile.open(valid) as tf:
        tf.extractall(unpack)
    victim = max(src_rows, key=lambda r: r[1])
    shutil.rmtree(unpack / "{}.task.{}".format(victim[0][3:], victim[1]))
    missing = base / "missing.tar.gz"
    with tarfile.open(missing, "w:gz") as tf:
        for entry in sorted(unpack.iterdir()):
            tf.add(entry, arcname=entry.name)
    # destination template with its own version (older time stamps are irrelevant here)
    _cli(["run", "//:own"], dst)
    dst_rows, _ = read_rows(dst)
    if [t for t, _ in dst_rows] != ["//:own"]:
        raise RuntimeError("fixture set-up: unexpected destination versions {}".format(dst_rows))
    if set(dst_rows) & set(src_rows):
        raise RuntimeError("fixture set-up: version clash")
    return {"src": str(src), "dst_template": str(dst), "dst_rows": dst_rows, "src_rows": src_rows,
            "archives": {"restore-valid-archive": str(valid),
                         "restore-archive-missing-directory": str(missing)},
            "victim": victim}


# --------------------------------------------------------------------------- run
def run(tier, seed):  # pylint: disable=unused-argument
    t0 = time.time()
    # imported here (lazily, but before the pool forks) so that the workers share them
    import conductor.cli.restore  # noqa: F401  pylint: disable=unused-import
    import conductor.execution.executor  # noqa: F401  pylint: disable=unused-import
    import conductor.execution.planning.planner  # noqa: F401  pylint: disable=unused-import
    from conductor.envs.manager import EnvManager
    EnvManager.create()     # warms the (optional, slow) imports Context.__init__ triggers
    anchors = Anchors()
    base = tempfile.mkdtemp(prefix="verif-")
    ctx = multiprocessing.get_context("fork")
    try:
        shared = build_restore_fixtures(base)
        with ctx.Pool(processes=min(16, os.cpu_count() or 1)) as pool:
            # discovery (k = 0: never dies, records the events of the region)
            disc_jobs = [("finish", f, 0, None) for f in FINISH_FIXTURES] + \
                        [("restore", f, 0, shared) for f in RESTORE_FIXTURES]
            disc = pool.map(_run_job, disc_jobs, chunksize=1)
            jobs = []
            info = {}
            for job, res in zip(disc_jobs, disc):
                kind, fix = job[0], job[1]
                comp = res["completed"]
                if comp is None or comp["n"] == 0:
                    raise RuntimeError("fixture {}: the traced function was never entered".format(fix))
                if kind == "finish" and not res["task_ran"]:
                    raise RuntimeError("fixture {}: the experiment's command did not run".format(fix))
                info[fix] = {"n": comp["n"], "exc": comp["exc_type"], "rows": res["rows"]}
                for k in range(1, comp["n"] + 1):
                    jobs.append((kind, fix, k, job[3]))
            results = disc + pool.map(_run_job, jobs, chunksize=4)
    finally:
        shutil.rmtree(base, ignore_errors=True)

    code_cache = {}

    def anchor_of(died):
        qual, filename, line = died
        key = (qual, filename)
        if key not in code_cache:
            code_cache[key] = _find_code(qual, filename)
        code = code_cache[key]
        if code is None:
            return "<statement at +{}>".format(line)
        return anchors.anchor(code, line)[0]

    fails, samples = [], []
    nontrivial = 0
    table_missing = []
    for res in results:
        fix, k = res["fixture"], res["k"]
        if res["rows"]:
            nontrivial += 1
        where = res["died_at"]
        if where is not None:
            stmt = anchor_of(where)
            func = where[0]
        else:
            stmt, func = "<no crash: ran to completion>", (
                "RunTaskExecutable.finish_execution" if res["kind"] == "finish" else "main")
        inp = {"fixture": fix, "function": func, "statement": stmt, "line_event": k,
               "of_line_events": info[fix]["n"]}
        if res["index_error"]:
            table_missing.append((fix, func, stmt, res["index_error"]))
        if len(samples) < 3 and where is not None and k in (3, info[fix]["n"] // 2, info[fix]["n"]):
            samples.append(inp)
        if res["problems"]:
            fails.append({
                "clause": "row_committed => directory complete",
                "class": "{}@{}".format(func, stmt), "input": inp,
                "expected": "every row of version_index.sqlite (opened afresh after the process died) has "
                            "its directory with the finished output" + (
                                ", stdout.log, stderr.log, args.json, options.json complete"
                                if res["kind"] == "finish" else " (complete tree)"),
                "observed": "; ".join(res["problems"])[:400],
                "_key": (res["kind"], fix, k)})
    fails.sort(key=lambda f: f["_key"])
    seen, first, rest = set(), [], []
    for f in fails:
        (rest if f["class"] in seen else first).append(f)
        seen.add(f["class"])
        f.pop("_key")
    fails = first + rest
    classes = {}
    for f in fails:
        classes[f["class"]] = classes.get(f["class"], 0) + 1

    scope = ("kill (os._exit(9)) before each of the line events executed in conductor code between entry "
             "and exit of the function, plus the run to completion: " + ", ".join(
                 "{} [{} line events, ends with {}]".format(f, info[f]["n"], info[f]["exc"] or "normal return")
                 for f in list(FINISH_FIXTURES) + RESTORE_FIXTURES))
    if table_missing:
        scope += ("; note: after {} crash points the index file exists without its table "
                  "(first: {})".format(len(table_missing), table_missing[0][:3]))
    r = result(CHECK, "C06", FUNCTION, scope, exhaustive=True, evaluations=len(results),
               distinct_nontrivial=nontrivial,
               rule="one evaluation per (fixture, crash point); non-trivial = at least one row is recorded "
                    "in the index the parent reads after the process died",
               failures=fails, samples=samples, wall_s=time.time() - t0, n_failures=len(fails))
    r["failure_classes"] = classes
    return [r]


def _find_code(qualname, filename):
    """The code object with this qualname defined in `filename` (for the statement anchors)."""
    import gc
    import types
    for obj in gc.get_objects():
        if isinstance(obj, types.FunctionType):
            code = obj.__code__
            if code.co_filename == filename and code.co_qualname == qualname:
                return code
    try:
        with open(filename, encoding="utf-8") as f:
            top = compile(f.read(), filename, "exec")
    except (OSError, SyntaxError):
        return None
    todo = [top]
    while todo:
        c = todo.pop()
        if c.co_qualname == qualname and c is not top:
            return c
        todo.extend(x for x in c.co_consts if isinstance(x, types.CodeType))
    return top if qualname == "<module>" else None


if __name__ == "__main__":
    from runtime.common import main

    main(run)
