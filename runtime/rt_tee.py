"""C10 (recorded stdout/stderr and argument records are exact) and the
finish_execution part of C06 (a version is recorded only after success).

Real code driven: TeeProcessor._tee_pipe_run (fake pipe / fake stream, real file),
OutputHandler.{popen_arg, maybe_tee, finish}, RunTaskExecutable.finish_execution.
"""
import itertools
import json
import multiprocessing
import os
import pathlib
import shutil
import subprocess
import tempfile
import time
import types


def _mkscratch():
    """tempfile.mkdtemp(prefix="verif-"), on tmpfs when TMPDIR is not set (directory-heavy scenarios
    are ~4x faster there and do not contend on the ext4 journal when sharded over 16 workers)."""
    base = os.environ.get("TMPDIR") or ("/dev/shm" if os.access("/dev/shm", os.W_OK | os.X_OK) else None)
    return tempfile.mkdtemp(prefix="verif-", dir=base)


_POOL_TIMEOUT_S = 3600    # a dead worker must not hang the driver for ever


def _safe(fn):
    """Pool workers must only raise picklable exceptions (a ConductorError with keyword-only
    constructor arguments cannot be unpickled in the parent and would hang the pool)."""
    import functools
    import traceback

    @functools.wraps(fn)
    def wrapper(job):
        try:
            return fn(job)
        except BaseException:
            raise RuntimeError("harness worker %s crashed on job %r:\n%s"
                               % (fn.__name__, job, traceback.format_exc())) from None
    return wrapper


# --------------------------------------------------------------------------- accumulator
def _size(inp):
    text = json.dumps(inp, default=str, sort_keys=True)
    return (len(text), text)


class Acc:
    def __init__(self):
        self.ev = 0
        self.nt = 0
        self.nf = 0
        self.fails = []
        self.samples = []
        self.classes = {}

    def sample(self, inp, cap=3):
        if len(self.samples) < cap:
            self.samples.append(inp)

    def fail(self, clause, cls, inp, expected, observed):
        self.nf += 1
        self.classes[cls] = self.classes.get(cls, 0) + 1
        self.fails.append({"clause": clause, "class": cls, "input": inp,
                           "expected": str(expected), "observed": str(observed)})
        if len(self.fails) > 200:
            self._trim()

    def _trim(self):
        per = {}
        for f in sorted(self.fails, key=lambda f: _size(f["input"])):
            per.setdefault(f["class"], [])
            if len(per[f["class"]]) < 5:
                per[f["class"]].append(f)
        self.fails = [f for fs in per.values() for f in fs]

    def merge(self, other):
        self.ev += other.ev
        self.nt += other.nt
        self.nf += other.nf
        for k, v in other.classes.items():
            self.classes[k] = self.classes.get(k, 0) + v
        self.fails.extend(other.fails)
        self._trim()
        for s in other.samples:
            self.sample(s)

    def selected_failures(self):
        ordered = sorted(self.fails, key=lambda f: _size(f["input"]))
        first, seen = [], set()
        for f in ordered:
            if f["class"] not in seen:
                seen.add(f["class"])
                first.append(f)
        rest = [f for f in ordered if all(f is not g for g in first)]
        chosen = (first + rest)[:5]
        return sorted(chosen, key=lambda f: _size(f["input"]))

    def result(self, name, prop, function, scope, exhaustive, rule, wall):
        from runtime.common import result
        r = result(name, prop, function, scope, exhaustive=exhaustive, evaluations=self.ev,
                   distinct_nontrivial=self.nt, rule=rule, failures=self.selected_failures(),
                   samples=self.samples, wall_s=wall, n_failures=self.nf)
        r["failure_classes"] = dict(sorted(self.classes.items()))
        return r


# --------------------------------------------------------------------------- tee
class FakePipe:
    """read1(n): a non-empty prefix (<= n bytes) of what remains of the current chunk, b'' at the end."""

    def __init__(self, chunks):
        self._chunks = [bytes(c) for c in chunks if len(c) > 0]
        self.requests = []
        self.reads_after_eof = 0
        self._eof_seen = False

    def read1(self, n=-1):
        self.requests.append(n)
        if self._eof_seen:
            self.reads_after_eof += 1
        if not self._chunks:
            self._eof_seen = True
            return b""
        chunk = self._chunks[0]
        if n is None or n < 0 or n >= len(chunk):
            self._chunks.pop(0)
            return chunk
        if n == 0:
            return b""
        self._chunks[0] = chunk[n:]
        return chunk[:n]

    def read(self, n=-1):
        return self.read1(n)

    def close(self):
        pass


class FakeStream:
    def __init__(self):
        self.events = []
        outer = self

        class _Buffer:
            def write(self, data):
                outer.events.append(("write", bytes(data)))
                return len(data)

            def flush(self):
                outer.events.append(("buffer.flush", None))

        self.buffer = _Buffer()

    def flush(self):
        self.events.append(("flush", None))

    def write(self, text):
        self.events.append(("text-write", text))
        return len(text)


def _compositions(n):
    """All ways to cut a sequence of length n into consecutive non-empty pieces."""
    if n == 0:
        yield []
        return
    for mask in range(2 ** (n - 1)):
        sizes, cur = [], 1
        for i in range(n - 1):
            if (mask >> i) & 1:
                sizes.append(cur)
                cur = 1
            else:
                cur += 1
        sizes.append(cur)
        yield sizes


_PATTERN = bytes((7 * i + 3) % 256 for i in range(32768))


def _tee_cases(tier):
    """Yields (kind, thunk) where thunk() builds the chunk list (built only by the owning shard)."""
    alphabet = [0x00, 0xFF, 0x0A, 0x41, 0x0D]
    max_len = 4 if tier == "quick" else 6
    for n in range(0, max_len + 1):
        for data in itertools.product(alphabet, repeat=n):
            for sizes in _compositions(n):
                yield "small", (data, sizes)
    big_sizes = [1, 100, 4095, 4096, 4097, 5000, 8192, 10000]
    for k in (1, 2, 3):
        for sizes in itertools.product(big_sizes, repeat=k):
            yield "large", (None, sizes)


def _build_chunks(kind, spec):
    data, sizes = spec
    if kind == "small":
        data = bytes(data)
    else:
        data = _PATTERN[:sum(sizes)]
    chunks, pos = [], 0
    for s in sizes:
        chunks.append(data[pos:pos + s])
        pos += s
    return chunks


@_safe
def _tee_worker(job):
    shard, n_shards, tier = job
    import conductor.utils.tee as teemod
    from unittest import mock
    import builtins

    a = Acc()
    scratch = _mkscratch()
    try:
        tee = teemod.TeeProcessor()
        opened = []

        def recording_open(*args, **kwargs):
            f = builtins.open(*args, **kwargs)
            opened.append((args, kwargs, f))
            return f

        path = pathlib.Path(scratch, "stdout.log")
        with mock.patch.object(teemod, "open", recording_open, create=True):
            for n, (kind, spec) in enumerate(_tee_cases(tier)):
                if n % n_shards != shard:
                    continue
                chunks = _build_chunks(kind, spec)
                data = b"".join(chunks)
                if kind == "small":
                    inp = {"chunks": [list(c) for c in chunks]}
                else:
                    inp = {"chunk_sizes": [len(c) for c in chunks], "content": "byte i of the stream = (7*i+3) mod 256"}
                # leave stale content behind: the log must be truncated, not appended to
                path.write_bytes(b"STALE-CONTENT-FROM-AN-EARLIER-RUN")
                del opened[:]
                pipe, stream = FakePipe(chunks), FakeStream()
                a.ev += 1
                if len(chunks) >= 2:
                    a.nt += 1
                    a.sample(inp)
                try:
                    tee._tee_pipe_run(pipe, stream, path)
                except Exception as ex:
                    a.fail("no_exception", "tee-raises", inp, "normal return", "%s: %s" % (type(ex).__name__, ex))
                    continue
                on_disk = path.read_bytes()
                forwarded = b"".join(d for e, d in stream.events if e == "write")
                if on_disk != data:
                    if on_disk.endswith(data) and on_disk.startswith(b"STALE"):
                        cls = "log-file-appended-not-truncated"
                    elif data.startswith(on_disk):
                        cls = "log-file-truncated-early"
                    else:
                        cls = "log-file-differs"
                    a.fail("file_gets_exact_bytes", cls, inp, "%d bytes" % len(data),
                           "%d bytes, first difference at %d" % (len(on_disk), _first_diff(on_disk, data)))
                elif forwarded != data:
                    a.fail("stream_gets_exact_bytes", "forwarded-bytes-differ", inp, "%d bytes" % len(data),
                           "%d bytes, first difference at %d" % (len(forwarded), _first_diff(forwarded, data)))
                elif any(e == "text-write" for e, _ in stream.events):
                    a.fail("stream_gets_exact_bytes", "forwarded-as-text", inp, "bytes on stream.buffer", "text")
                elif not stream.events or stream.events[-1][0] != "flush":
                    a.fail("final_flush", "no-final-flush", inp, "stream.flush() after the last write",
                           [e for e, _ in stream.events][-3:])
                elif any(not f.closed for _, _, f in opened) or len(opened) == 0:
                    a.fail("file_closed", "log-file-left-open", inp, "closed",
                           [("closed" if f.closed else "open") for _, _, f in opened])
                elif any(pathlib.Path(args[0]) != path for args, _, _ in opened):
                    a.fail("right_file", "wrong-log-file", inp, path, [args[0] for args, _, _ in opened])
        tee.shutdown()
    finally:
        shutil.rmtree(scratch, ignore_errors=True)
    return a


def _first_diff(x, y):
    for i, (p, q) in enumerate(zip(x, y)):
        if p != q:
            return i
    return min(len(x), len(y))


# --------------------------------------------------------------------------- OutputHandler
class FakeFuture:
    def __init__(self, log, error=None):
        self._log = log
        self._error = error

    def result(self, timeout=None):
        self._log.append("future.result")
        if self._error is not None:
            raise self._error
        return None


class FakeTee:
    def __init__(self, log, error=None):
        self.calls = []
        self.futures = []
        self._log = log
        self._error = error

    def tee_pipe(self, pipe, stream, file_name):
        self.calls.append((pipe, stream, file_name))
        self._log.append("tee_pipe")
        self.futures.append(FakeFuture(self._log, self._error))
        return self.futures[-1]

    def shutdown(self):
        self._log.append("tee.shutdown")


def _output_handler():
    from conductor.utils.output_handler import OutputHandler, RecordType

    a = Acc()
    scratch = _mkscratch()
    try:
        n = 0
        for rtype, preexisting, n_popen, do_tee, n_finish, tee_error in itertools.product(
                list(RecordType), (False, True), (0, 1, 2), (False, True), (1, 2), (False, True)):
            if tee_error and not (rtype == RecordType.Teed and do_tee):
                continue
            n += 1
            path = pathlib.Path(scratch, "o%d" % n, "stdout.log")
            path.parent.mkdir()
            if preexisting:
                path.write_bytes(b"OLD")
            inp = {"record_type": rtype.name, "log_preexists": preexisting, "popen_arg_calls": n_popen,
                   "maybe_tee": do_tee, "finish_calls": n_finish, "tee_future_raises": tee_error}
            a.ev += 1
            if rtype != RecordType.NotRecorded and n_popen > 0:
                a.nt += 1
                a.sample(inp)
            log = []
            boom = ValueError("tee thread failed") if tee_error else None
            tee = FakeTee(log, boom)
            ctx = types.SimpleNamespace(tee_processor=tee)
            handler = OutputHandler(path, rtype)
            pipe, stream = object(), object()
            problem = None
            raised = None
            args = []
            try:
                args = [handler.popen_arg() for _ in range(n_popen)]
                if do_tee:
                    handler.maybe_tee(pipe if rtype == RecordType.Teed else None, stream, ctx)
                for _ in range(n_finish):
                    try:
                        handler.finish()
                    except ValueError as ex:
                        raised = ex
            except Exception as ex:
                a.fail("no_exception", "output-handler-raises", inp, "normal return",
                       "%s: %s" % (type(ex).__name__, str(ex).replace(scratch, "<scratch>")))
                continue
            if rtype == RecordType.NotRecorded:
                if any(x is not None for x in args):
                    problem = ("popen_arg", "not-recorded-but-redirected", None, args)
                elif tee.calls:
                    problem = ("maybe_tee", "tee-without-Teed", "no tee", tee.calls)
                elif path.exists() != preexisting or (preexisting and path.read_bytes() != b"OLD"):
                    problem = ("no_file", "log-file-touched-when-not-recorded", "untouched", "changed")
            elif rtype == RecordType.Teed:
                if any(x is not subprocess.PIPE for x in args):
                    problem = ("popen_arg", "teed-without-pipe", "subprocess.PIPE", args)
                elif do_tee and (len(tee.calls) != 1 or tee.calls[0][0] is not pipe or tee.calls[0][1] is not stream
                                 or pathlib.Path(tee.calls[0][2]) != path):
                    problem = ("maybe_tee", "tee-on-wrong-pipe-stream-or-path", (pipe, stream, path), tee.calls)
                elif not do_tee and tee.calls:
                    problem = ("maybe_tee", "tee-without-request", "no tee", tee.calls)
                elif do_tee and log.count("future.result") < 1:
                    problem = ("finish_joins_tee", "tee-future-not-joined", "future.result() called", log)
                elif tee_error and raised is not boom:
                    problem = ("finish_propagates", "tee-exception-swallowed", boom, raised)
            else:
                files = [x for x in args]
                if n_popen > 0:
                    f = files[0]
                    if not hasattr(f, "write") or getattr(f, "mode", None) != "wb":
                        problem = ("popen_arg", "log-not-opened-wb", "file opened 'wb'",
                                   getattr(f, "mode", repr(f)))
                    elif pathlib.Path(getattr(f, "name", "")) != path:
                        problem = ("popen_arg", "log-opened-at-wrong-path", path, getattr(f, "name", None))
                    elif any(x is not f for x in files):
                        problem = ("popen_arg_same_object", "log-reopened", "same file object", files)
                    elif not f.closed:
                        problem = ("finish_closes", "log-file-left-open", "closed", "open")
                    elif path.read_bytes() != b"":
                        problem = ("truncated", "log-file-appended-not-truncated", b"", path.read_bytes())
                elif path.exists() != preexisting:
                    problem = ("no_file_before_popen_arg", "log-file-created-early", preexisting, path.exists())
                if problem is None and tee.calls:
                    problem = ("maybe_tee", "tee-without-Teed", "no tee", tee.calls)
            if problem is not None:
                a.fail(problem[0], problem[1], inp, problem[2], problem[3])
            for fut in tee.futures:
                fut._error = None     # OutputHandler.__del__ joins again; keep that silent
            for x in args:
                if hasattr(x, "close"):
                    x.close()
    finally:
        shutil.rmtree(scratch, ignore_errors=True)
    return a


# --------------------------------------------------------------------------- finish_execution
class FakeHandler:
    def __init__(self, name, log):
        self._name = name
        self._log = log

    def finish(self):
        self._log.append(("finish", self._name))


def _finish_execution():
    import conductor.execution.ops.run_task_executable as rte
    import conductor.errors as errors
    from conductor.execution.handle import OperationExecutionHandle
    from conductor.execution.operation_state import OperationState
    from conductor.execution.version_index import Version
    from conductor.task_identifier import TaskIdentifier
    from conductor.utils.run_arguments import RunArguments
    from conductor.utils.run_options import RunOptions

    js, rec = Acc(), Acc()
    scratch = _mkscratch()
    try:
        # strings: plain, non-ASCII, quotes / backslash / newline, and a lone surrogate (what os.fsdecode / sys.argv give
        # for a byte that is not UTF-8: a legal Python str that a COND file can carry)
        arg_pool = [[], ["a"], [1, "a b", True, 0.5], ["\u00e9\u4e2d", "q\"b\\c\nd"], ["x\udcff"]]
        opt_pool = [{}, {"k": 1}, {"b": 1, "a": "x", "f": False, "r": 2.5}, {"\u00fc": "\u00e9", "s": "y\udcfe"}]
        versions = [None, Version(5, "abc", True), Version(1790000000, None, False)]
        codes = [0, 1, 2, 255, -15]
        n = 0
        for raw_args, raw_opts, serialize, version, code in itertools.product(
                arg_pool, opt_pool, (False, True), versions, codes):
            n += 1
            ident = TaskIdentifier(pathlib.Path("x"), "e")
            out = pathlib.Path(scratch, "p%d" % n, "cond-out", "x", "e.task.5")
            out.mkdir(parents=True)
            log = []

            class Index:
                def insert_output_version(self, task_identifier, v):
                    log.append(("insert", task_identifier, v, (out / "args.json").exists(),
                                (out / "options.json").exists()))

                def commit_changes(self):
                    log.append(("commit",))

                def rollback_changes(self):
                    log.append(("rollback",))

            ctx = types.SimpleNamespace(version_index=Index(), output_path=pathlib.Path(scratch, "p%d" % n, "cond-out"))
            op = rte.RunTaskExecutable(
                initial_state=OperationState.QUEUED, identifier=ident, task=None, run="true",
                args=RunArguments(list(raw_args)), options=RunOptions(dict(raw_opts)),
                working_path=pathlib.Path(scratch, "p%d" % n, "x"), output_path=out, deps_output_paths=[],
                record_output=True, version_to_record=version, serialize_args_options=serialize,
                parallelizable=False)
            handle = OperationExecutionHandle.from_async_process(pid=4242)
            handle.stdout = FakeHandler("stdout", log)
            handle.stderr = FakeHandler("stderr", log)
            handle.returncode = code
            inp = {"args": [ascii(a) if isinstance(a, str) else a for a in raw_args],
                   "options": {ascii(k): (ascii(v) if isinstance(v, str) else v) for k, v in raw_opts.items()}, "serialize_args_options": serialize,
                   "version_to_record": None if version is None else repr(version), "returncode": code}
            try:
                op.finish_execution(handle, ctx)
                outcome = "ok"
            except errors.TaskNonZeroExit as ex:
                outcome = "TaskNonZeroExit"
                exit_code = getattr(ex, "code", None)
            except Exception as ex:
                outcome = "other %s: %s" % (type(ex).__name__, ex)

            # ---- C10: args.json / options.json
            js.ev += 1
            if serialize and code == 0 and (raw_args or raw_opts):
                js.nt += 1
                js.sample(inp)
            for fname, value, empty in (("args.json", raw_args, not raw_args), ("options.json", raw_opts, not raw_opts)):
                exp_present = serialize and code == 0 and not empty
                p = out / fname
                if p.exists() != exp_present:
                    if p.exists():
                        cls = fname + "-written-" + ("after-failure" if code != 0 else
                                                     ("without-serialize-flag" if not serialize else "for-empty-value"))
                    else:
                        cls = fname + "-missing"
                    js.fail("json_present_iff", cls, inp, exp_present, p.exists())
                    break
                if exp_present:
                    try:
                        decoded = json.loads(p.read_text(encoding="UTF-8"))
                    except Exception as ex:
                        decoded = "undecodable: %s" % ex
                    if decoded != value or [type(x) for x in _flat(decoded)] != [type(x) for x in _flat(value)]:
                        js.fail("json_decodes_to_value", fname + "-content-differs", inp, value, decoded)
                        break

            # ---- C06: record only after success
            rec.ev += 1
            if version is not None:
                rec.nt += 1
                rec.sample(inp)
            events = [e[0] for e in log]
            finishes = {e[1] for e in log if e[0] == "finish"}
            inserts = [e for e in log if e[0] == "insert"]
            if code != 0:
                if outcome != "TaskNonZeroExit":
                    rec.fail("nonzero_raises", "non-zero-exit-not-reported", inp, "TaskNonZeroExit", outcome)
                elif exit_code != code:
                    rec.fail("nonzero_raises", "wrong-exit-code-reported", inp, code, exit_code)
                elif inserts or "commit" in events:
                    rec.fail("no_record_on_failure", "failed-run-recorded", inp, "no insert / commit", events)
                elif finishes != {"stdout", "stderr"}:
                    rec.fail("handlers_finished", "output-handlers-not-finished-on-failure", inp,
                             "both finished", sorted(finishes))
                continue
            if outcome != "ok":
                rec.fail("success_returns", "successful-run-raises", inp, "normal return", outcome)
                continue
            if version is None:
                if inserts or "commit" in events:
                    rec.fail("no_record_without_version", "unversioned-run-recorded", inp, "no insert", events)
                elif finishes != {"stdout", "stderr"}:
                    rec.fail("handlers_finished", "output-handlers-not-finished", inp, "both finished", sorted(finishes))
                continue
            if len(inserts) != 1 or events.count("commit") != 1:
                rec.fail("one_insert_one_commit", "version-not-recorded" if not inserts else "record-count-wrong",
                         inp, "one insert then one commit", events)
                continue
            ins = inserts[0]
            i_ins, i_com = events.index("insert"), events.index("commit")
            finished_before = {e[1] for e in log[:i_ins] if e[0] == "finish"}
            if i_com < i_ins:
                rec.fail("insert_then_commit", "commit-before-insert", inp, "insert, commit", events)
            elif ins[1] != ident or ins[2] is not version:
                rec.fail("row_is_identifier_and_version", "wrong-row-recorded", inp, (str(ident), repr(version)),
                         (str(ins[1]), repr(ins[2])))
            elif finished_before != {"stdout", "stderr"}:
                rec.fail("handlers_finished_before_insert", "recorded-before-logs-closed", inp,
                         "both handlers finished before insert", events)
            elif serialize and ((bool(raw_args) and not ins[3]) or (bool(raw_opts) and not ins[4])):
                rec.fail("json_before_insert", "recorded-before-json-written", inp,
                         "args.json/options.json on disk at insert time", {"args.json": ins[3], "options.json": ins[4]})
    finally:
        shutil.rmtree(scratch, ignore_errors=True)
    return js, rec


def _flat(v):
    if isinstance(v, dict):
        return [v[k] for k in sorted(v)]
    if isinstance(v, list):
        return list(v)
    return [v]


@_safe
def _misc_worker(kind):
    t0 = time.time()
    if kind == "handler":
        return kind, _output_handler(), time.time() - t0
    return kind, _finish_execution(), time.time() - t0


# --------------------------------------------------------------------------- driver
def run(tier, seed):
    n_proc = min(16, os.cpu_count() or 1)
    mp = multiprocessing.get_context("fork")
    tee = Acc()
    n_shards = n_proc * 2
    with mp.Pool(processes=n_proc) as pool:
        t0 = time.time()
        misc_job = pool.map_async(_misc_worker, ["handler", "finish"], chunksize=1)
        tee_job = pool.map_async(_tee_worker, [(i, n_shards, tier) for i in range(n_shards)], chunksize=1)
        for acc in tee_job.get(_POOL_TIMEOUT_S):
            tee.merge(acc)
        wall_tee = time.time() - t0
        misc = {kind: (acc, wall) for kind, acc, wall in misc_job.get(_POOL_TIMEOUT_S)}
    js, rec = misc["finish"][0]
    max_len = 4 if tier == "quick" else 6
    finish_scope = ("3 args lists x 3 options dicts x serialize flag x version_to_record {none, with commit + dirty, "
                    "without commit} x return codes {0,1,2,255,-15}; fake handle / output handlers / version index "
                    "recording the order of events and the files present at insert time")
    return [
        tee.result("C10.tee.file_and_stream_get_exact_bytes", "C10", "utils/tee.py::TeeProcessor._tee_pipe_run",
                   "all byte strings of length <= %d over {00,ff,0a,41,0d} x all ways to cut them into read1 results "
                   "(short reads, empty stream); all sequences of <= 3 chunk sizes over {1,100,4095,4096,4097,5000,"
                   "8192,10000} (larger than the request => split by the pipe model); log file pre-filled with stale "
                   "content" % max_len, True,
                   "distinct chunk sequences; non-trivial = at least two read1 results", wall_tee),
        misc["handler"][0].result("C10.output_handler.popen_arg_and_finish", "C10",
                                  "utils/output_handler.py::OutputHandler.popen_arg,maybe_tee,finish",
                                  "record type {NotRecorded, Teed, OnlyLogged} x log file pre-exists x popen_arg called "
                                  "0/1/2 times x maybe_tee called or not x finish called 1/2 times x tee future raising",
                                  True, "distinct call scripts; non-trivial = recording type with popen_arg called",
                                  misc["handler"][1]),
        js.result("C10.finish.args_options_json", "C10",
                  "execution/ops/run_task_executable.py::RunTaskExecutable.finish_execution", finish_scope, True,
                  "distinct tuples; non-trivial = serialisation requested, exit code 0, args or options non-empty",
                  misc["finish"][1]),
        rec.result("C06.finish.record_only_after_success", ["C06", "C10"],
                   "execution/ops/run_task_executable.py::RunTaskExecutable.finish_execution", finish_scope, True,
                   "distinct tuples; non-trivial = a version is to be recorded", misc["finish"][1]),
    ]


if __name__ == "__main__":
    from runtime.common import main
    main(run)
