"""C16 at the level of the command: `cond run` (a real process) is interrupted while two tasks are running.

Bounded stand-in for the ordering obligation of Executor.run_plan's abort handler (contracts/executor.py:
`running_task_groups_are_signalled_before_the_abort_is_reported`): whatever happens to Conductor's own output --
in particular when its stdout is a pipe whose reader has gone away (`cond run ... | tee log`, Ctrl-C), so that
writing the "Task aborted" banner fails -- every task process group that was started and not yet reaped receives
SIGTERM, nothing is recorded, and `cond` exits non-zero.

Scope: signal in {SIGINT, SIGTERM} x Conductor's stdout {open pipe that is drained, pipe whose read end is closed
before the signal} x jobs in {1, 2}; tasks trap SIGTERM and leave a marker file, so delivery is observed directly.
"""
import os
import pathlib
import shutil
import signal
import subprocess
import sys
import tempfile
import time

from runtime import common

FUNCTION = "execution/executor.py::Executor.run_plan (+ cli/run.py::main, utils/user_code.py::cli_command)"
NAME = "C16.abort.cli_sigterm_reaches_running_tasks_whatever_happens_to_stdout"

COND = '''
run_experiment(name="t1", run="bash ../task.sh t1", parallelizable=True)
run_experiment(name="t2", run="bash ../task.sh t2", parallelizable=True)
group(name="all", deps=[":t1", ":t2"])
'''

TASK = '''#!/bin/bash
# $1 = task name; markers live next to the project
M="$(cd .. && pwd)/markers"
echo $$ > "$M/$1.pid"
trap 'echo term > "$M/$1.term"; exit 143' TERM
touch "$M/$1.ready"
for i in $(seq 1 600); do sleep 0.1; done
echo finished > "$M/$1.finished"
'''


def _wait(pred, timeout):
    end = time.time() + timeout
    while time.time() < end:
        if pred():
            return True
        time.sleep(0.02)
    return pred()


def _one(sig, stdout_mode, jobs):
    base = pathlib.Path(tempfile.mkdtemp(prefix="verif-"))
    proj = base / "proj"
    markers = base / "markers"
    proj.mkdir()
    markers.mkdir()
    (proj / "cond_config.toml").write_text("disable_git = true\n")
    (proj / "COND").write_text(COND)
    (base / "task.sh").write_text(TASK)
    pids = []
    out = {"signal": signal.Signals(sig).name, "conductor_stdout": stdout_mode, "jobs": jobs}
    try:
        env = dict(os.environ)
        env["PYTHONUNBUFFERED"] = "1"
        p = subprocess.Popen([sys.executable, "-u", "-m", "conductor", "run", "//:all", "-j", str(jobs)], cwd=str(proj), env=env,
                             stdin=subprocess.DEVNULL, stdout=subprocess.PIPE, stderr=subprocess.DEVNULL, start_new_session=True)
        expected = ["t1", "t2"] if jobs >= 2 else ["t1"]          # with -j 1 only the first task is running
        started = _wait(lambda: all((markers / (t + ".ready")).exists() for t in expected), 15)
        if not started:
            # with -j 1 the first task may be t2: accept whichever single task is running
            running = [t for t in ("t1", "t2") if (markers / (t + ".ready")).exists()]
            if jobs == 1 and len(running) == 1:
                expected = running
            else:
                p.kill()
                raise RuntimeError("harness: tasks did not start (%r)" % running)
        for t in expected:
            pids.append(int((markers / (t + ".pid")).read_text().strip()))
        if stdout_mode == "closed":
            p.stdout.close()
        os.kill(p.pid, sig)
        try:
            if stdout_mode == "open":
                p.communicate(timeout=20)
            else:
                p.wait(timeout=20)
            rc = p.returncode
        except subprocess.TimeoutExpired:
            p.kill()
            rc = "timeout"
        got_term = {t: _wait(lambda t=t: (markers / (t + ".term")).exists(), 3) for t in expected}
        recorded = sorted(str(x.relative_to(proj)) for x in (proj / "cond-out").rglob("*.task.*")) if (proj / "cond-out").exists() else []
        index_rows = 0
        db = proj / "cond-out" / "version_index.sqlite"
        if db.exists():
            import sqlite3
            c = sqlite3.connect(str(db))
            try:
                index_rows = c.execute("SELECT COUNT(*) FROM version_index").fetchone()[0]
            except sqlite3.Error:
                index_rows = 0
            c.close()
        out.update({"exit": rc, "sigterm_delivered": got_term, "index_rows": index_rows})
        fail = None
        if not all(got_term.values()):
            fail = ("running-task-never-received-SIGTERM" + ("-when-stdout-is-a-closed-pipe" if stdout_mode == "closed" else ""),
                    "every running task group receives SIGTERM", got_term)
        elif index_rows != 0:
            fail = ("version-recorded-for-an-interrupted-task", 0, index_rows)
        elif rc == 0 or rc == "timeout":
            fail = ("abort-not-reported-by-the-exit-status", "non-zero exit", rc)
        return out, fail
    finally:
        for pid in pids:
            for s in (signal.SIGKILL,):
                try:
                    os.killpg(pid, s)
                except OSError:
                    pass
                try:
                    os.kill(pid, s)
                except OSError:
                    pass
        shutil.rmtree(base, ignore_errors=True)


def run(tier, seed):
    t0 = time.time()
    failures, samples = [], []
    ev = nt = nf = 0
    for jobs in (2, 1):
        for stdout_mode in ("open", "closed"):
            for sig in (signal.SIGINT, signal.SIGTERM):
                inp, fail = _one(sig, stdout_mode, jobs)
                ev += 1
                if stdout_mode == "closed":
                    nt += 1
                if len(samples) < 2:
                    samples.append(inp)
                if fail:
                    nf += 1
                    if len(failures) < 5:
                        failures.append({"clause": "abort_reaches_running_tasks", "class": fail[0], "input": inp, "expected": fail[1], "observed": fail[2]})
    return [common.result(NAME, "C16", FUNCTION,
                          "real `python -m conductor run //:all` with two running run_experiment tasks that trap SIGTERM: signal {SIGINT, SIGTERM} x "
                          "Conductor's stdout {drained pipe, pipe with a closed read end} x --jobs {1, 2}",
                          exhaustive=True, evaluations=ev, distinct_nontrivial=nt,
                          rule="distinct (signal, stdout state, jobs); non-trivial = the banner cannot be written (closed pipe)",
                          failures=failures, samples=samples, wall_s=time.time() - t0, n_failures=nf)]


if __name__ == "__main__":
    raise SystemExit(common.main(run))
