"""C05 (cached-version selection, --at-least, git argv, flag incompatibilities) and
C08 (monotone version-id generator, seeding from the project-wide maximum).

Real code driven: RunExperiment._retrieve_most_relevant_existing_version / should_run /
get_output_path (fake ctx: git answers computed from an explicit commit DAG, fake version
index), Git.is_ancestor / Git.get_distance (subprocess recorded), cli.run.validate_args,
VersionIndex.generate_new_output_version (clock patched) and VersionIndex.create_or_load
(real sqlite file in a scratch directory).
"""
import argparse
import itertools
import json
import multiprocessing
import os
import pathlib
import shutil
import tempfile
import time
import types


def _mkscratch():
    """tempfile.mkdtemp(prefix="verif-"), on tmpfs when TMPDIR is not set (directory-heavy scenarios
    are ~4x faster there and do not contend on the ext4 journal when sharded over 16 workers)."""
    base = os.environ.get("TMPDIR") or ("/dev/shm" if os.access("/dev/shm", os.W_OK | os.X_OK) else None)
    return tempfile.mkdtemp(prefix="verif-", dir=base)


_POOL_TIMEOUT_S = 3600    # a dead worker must not hang the driver for ever


def _safe(fn):
    """Pool workers must only raise picklable exceptions (a ConductorError with keyword-only
    constructor arguments cannot be unpickled in the parent and would hang the pool)."""
    import functools
    import traceback

    @functools.wraps(fn)
    def wrapper(job):
        try:
            return fn(job)
        except BaseException:
            raise RuntimeError("harness worker %s crashed on job %r:\n%s"
                               % (fn.__name__, job, traceback.format_exc())) from None
    return wrapper


# --------------------------------------------------------------------------- accumulator
def _size(inp):
    text = json.dumps(inp, default=str, sort_keys=True)
    return (len(text), text)


class Acc:
    def __init__(self):
        self.ev = 0
        self.nt = 0
        self.nf = 0
        self.fails = []
        self.samples = []
        self.classes = {}

    def sample(self, inp, cap=3):
        if len(self.samples) < cap:
            self.samples.append(inp)

    def fail(self, clause, cls, inp, expected, observed):
        self.nf += 1
        self.classes[cls] = self.classes.get(cls, 0) + 1
        self.fails.append({"clause": clause, "class": cls, "input": inp,
                           "expected": str(expected), "observed": str(observed)})
        if len(self.fails) > 200:
            self._trim()

    def _trim(self):
        per = {}
        for f in sorted(self.fails, key=lambda f: _size(f["input"])):
            per.setdefault(f["class"], [])
            if len(per[f["class"]]) < 5:
                per[f["class"]].append(f)
        self.fails = [f for fs in per.values() for f in fs]

    def merge(self, other):
        self.ev += other.ev
        self.nt += other.nt
        self.nf += other.nf
        for k, v in other.classes.items():
            self.classes[k] = self.classes.get(k, 0) + v
        self.fails.extend(other.fails)
        self._trim()
        for s in other.samples:
            self.sample(s)

    def selected_failures(self):
        ordered = sorted(self.fails, key=lambda f: _size(f["input"]))
        first, seen = [], set()
        for f in ordered:
            if f["class"] not in seen:
                seen.add(f["class"])
                first.append(f)
        rest = [f for f in ordered if all(f is not g for g in first)]
        chosen = (first + rest)[:5]
        return sorted(chosen, key=lambda f: _size(f["input"]))

    def result(self, name, prop, function, scope, exhaustive, rule, wall):
        from runtime.common import result
        r = result(name, prop, function, scope, exhaustive=exhaustive, evaluations=self.ev,
                   distinct_nontrivial=self.nt, rule=rule, failures=self.selected_failures(),
                   samples=self.samples, wall_s=wall, n_failures=self.nf)
        r["failure_classes"] = dict(sorted(self.classes.items()))
        return r


# --------------------------------------------------------------------------- commit DAGs
def all_dags(max_commits, max_parents):
    """All DAGs on commits 0..n-1 (n <= max_commits) whose edges go from a commit to
    earlier-numbered parents; every isomorphism class of commit graphs occurs."""
    out = []
    for n in range(0, max_commits + 1):
        choices = []
        for i in range(n):
            subs = []
            for k in range(0, min(i, max_parents) + 1):
                subs.extend(itertools.combinations(range(i), k))
            choices.append(subs)
        for parents in itertools.product(*choices):
            out.append(tuple(tuple(p) for p in parents))
    return out


def cname(i):
    return "c%d" % i


UNKNOWN = "zz-unknown"


class FakeGit:
    """Answers from the DAG by depth-first search (the model of `git merge-base
    --is-ancestor` and `git rev-list --count start ^anc`)."""

    def __init__(self, dag, enabled):
        self._parents = {cname(i): [cname(p) for p in ps] for i, ps in enumerate(dag)}
        self._enabled = enabled
        self.called_while_disabled = False
        self.bad_distance_query = None

    def _reach(self, start):
        seen, stack = set(), [start]
        while stack:
            c = stack.pop()
            if c in seen:
                continue
            seen.add(c)
            stack.extend(self._parents[c])
        return seen

    def is_ancestor(self, commit_hash, candidate_ancestor_hash):
        if not self._enabled:
            self.called_while_disabled = True
        if commit_hash not in self._parents or candidate_ancestor_hash not in self._parents:
            return False          # git exits with 128 for an unknown object
        return candidate_ancestor_hash in self._reach(commit_hash)

    def get_distance(self, start_hash, ancestor_hash):
        if not self._enabled:
            self.called_while_disabled = True
        if start_hash not in self._parents or ancestor_hash not in self._parents:
            self.bad_distance_query = (start_hash, ancestor_hash)
            raise RuntimeError("Failed to get the distance between commits.")
        return len(self._reach(start_hash) - self._reach(ancestor_hash))


class FakeIndex:
    def __init__(self, ident_str, versions):
        self._ident = ident_str
        self._versions = versions

    def get_latest_output_version(self, task_identifier):
        if str(task_identifier) != self._ident or not self._versions:
            return None
        return max(self._versions, key=lambda v: v.timestamp)

    def get_all_versions_for_task(self, task_identifier):
        if str(task_identifier) != self._ident:
            return []
        return list(self._versions)


# --------------------------------------------------------------------------- oracle
def closure_matrix(dag):
    """reach[i][j]: j is i or an ancestor of i (Warshall, independent of FakeGit)."""
    n = len(dag)
    reach = [[i == j or j in dag[i] for j in range(n)] for i in range(n)]
    for k in range(n):
        for i in range(n):
            if reach[i][k]:
                for j in range(n):
                    if reach[k][j]:
                        reach[i][j] = True
    return reach


def o_select(versions, reach, head, uses_git):
    """versions: list of (ts, commit index | None | 'U'); returns the chosen ts or None."""
    if not versions:
        return None
    if not uses_git or head is None:
        return max(versions)[0]
    best = None
    for ts, commit in versions:
        if isinstance(commit, int) and reach[head][commit]:
            dist = sum(1 for x in range(len(reach)) if reach[head][x] and not reach[commit][x])
            key = (dist, -ts)
            if best is None or key < best[0]:
                best = (key, ts)
    if best is not None:
        return best[1]
    if all(commit is None for _, commit in versions):
        return max(versions)[0]
    return None


def version_lists(n_commits, max_versions):
    choices = list(range(n_commits)) + [None, "U"]
    for k in range(0, max_versions + 1):
        for commits in itertools.product(choices, repeat=k):
            for perm in itertools.permutations(range(k)):
                yield [((perm[i] + 1) * 10, commits[i]) for i in range(k)]


def _commit_str(c):
    if c is None:
        return None
    if c == "U":
        return UNKNOWN
    return cname(c)


@_safe
def _select_worker(job):
    dag, max_versions = job
    from conductor.execution.version_index import Version
    from conductor.task_identifier import TaskIdentifier
    from conductor.task_types.run import RunExperiment
    from conductor.utils.git import Git

    sel, run_, outp = Acc(), Acc(), Acc()
    n = len(dag)
    reach = closure_matrix(dag)
    ident = TaskIdentifier(pathlib.Path("exp", "sub"), "e")
    root = pathlib.Path("/R")
    out_root = root / "cond-out"

    def new_task():
        return RunExperiment(identifier=ident, cond_file_path=root / "exp" / "sub" / "COND", deps=[],
                             run="true", args=[], options={}, parallelizable=False)

    settings = [(False, None)] + [(True, h) for h in [None] + list(range(n))]
    # Context.current_commit is None whenever uses_git is False, so "git unused" has no HEAD
    for uses_git, head in settings:
        for vlist in version_lists(n, max_versions):
            versions = [Version(ts, _commit_str(c), (ts // 10) % 2 == 1) for ts, c in vlist]
            by_ts = {v.timestamp: v for v in versions}
            inp = {"dag_parents": {cname(i): [cname(p) for p in ps] for i, ps in enumerate(dag)},
                   "uses_git": uses_git, "head": None if head is None else cname(head),
                   "versions": [{"timestamp": ts, "commit": _commit_str(c)} for ts, c in vlist]}
            git = FakeGit(dag, uses_git)
            commit = None if head is None else Git.Commit(cname(head), False)
            ctx = types.SimpleNamespace(uses_git=uses_git, current_commit=commit, git=git,
                                        version_index=FakeIndex(str(ident), versions),
                                        output_path=out_root, project_root=root)
            exp_ts = o_select(vlist, reach, head, uses_git)
            nontrivial = uses_git and head is not None and len(vlist) >= 2 \
                and any(isinstance(c, int) for _, c in vlist)

            # ---- select
            sel.ev += 1
            if nontrivial:
                sel.nt += 1
                sel.sample(inp)
            try:
                got = new_task()._retrieve_most_relevant_existing_version(ctx)
                got_ts = None if got is None else got.timestamp
                crashed = None
            except Exception as ex:  # observable: `cond run` would die with this
                got, got_ts, crashed = None, None, "%s: %s" % (type(ex).__name__, ex)
            if crashed is not None:
                sel.fail("no_exception", "selection-raises", inp, exp_ts, crashed)
            elif got_ts != exp_ts:
                if exp_ts is None:
                    cls = "selects-version-of-foreign-commit-history"
                elif got_ts is None:
                    cls = "selects-nothing-although-compatible-version-exists"
                else:
                    cls = "selects-wrong-version"
                sel.fail("matches_documented_rule", cls, inp, exp_ts, got_ts)
            elif got is not None and got != by_ts[exp_ts]:
                sel.fail("returns_index_row", "selected-version-fields-differ", inp,
                         repr(by_ts[exp_ts]), repr(got))
            if git.called_while_disabled:
                sel.fail("no_git_without_git", "git-called-without-git", inp, "no git call", "git called")

            # ---- get_output_path
            outp.ev += 1
            if exp_ts is not None:
                outp.nt += 1
                outp.sample(inp)
            try:
                path = new_task().get_output_path(ctx)
            except Exception as ex:
                outp.fail("no_exception", "get_output_path-raises", inp, exp_ts,
                          "%s: %s" % (type(ex).__name__, ex))
                path = "crashed"
            if path != "crashed":
                exp_path = None if exp_ts is None else out_root / "exp" / "sub" / ("e.task.%d" % exp_ts)
                if path != exp_path:
                    outp.fail("is_selected_version_dir", "wrong-output-path", inp, exp_path, path)

            # ---- should_run
            legal = [None]
            if uses_git and head is not None:
                legal += [c for c in range(n) if reach[head][c]]
            sel_commit = None
            if exp_ts is not None:
                sel_commit = dict(vlist)[exp_ts]
            for at_least in legal:
                inp2 = dict(inp, at_least=None if at_least is None else cname(at_least))
                if at_least is None:
                    exp_run = exp_ts is None
                else:
                    exp_run = (exp_ts is None or sel_commit is None
                               or (isinstance(sel_commit, int) and sel_commit != at_least
                                   and reach[at_least][sel_commit]))
                run_.ev += 1
                if at_least is not None and exp_ts is not None:
                    run_.nt += 1
                    run_.sample(inp2)
                try:
                    got_run = new_task().should_run(ctx, None if at_least is None else cname(at_least))
                except Exception as ex:
                    run_.fail("no_exception", "should_run-raises", inp2, exp_run,
                              "%s: %s" % (type(ex).__name__, ex))
                    continue
                if bool(got_run) != exp_run:
                    if at_least is None:
                        cls = "cached-decision-wrong-without-at-least"
                    elif exp_run:
                        cls = "at-least-keeps-older-version"
                    else:
                        cls = "at-least-reruns-version-that-is-new-enough"
                    run_.fail("at_least_rule", cls, inp2, exp_run, got_run)
    return sel, run_, outp


# --------------------------------------------------------------------------- git argv
def _git_argv():
    import conductor.utils.git as gitmod
    from unittest import mock

    a = Acc()
    hashes = ["aaa", "bbb", "HEAD", "0123abc", "v1.0"]
    roots = [pathlib.Path("/proj"), pathlib.Path("/x/y")]
    calls = []
    state = {"rc": 0, "stdout": ""}

    def fake_run(argv, **kwargs):
        calls.append((list(argv), dict(kwargs)))
        return types.SimpleNamespace(returncode=state["rc"], stdout=state["stdout"], stderr="")

    import subprocess as real_subprocess
    fake_subprocess = types.SimpleNamespace(run=fake_run, DEVNULL=real_subprocess.DEVNULL,
                                            PIPE=real_subprocess.PIPE)
    with mock.patch.object(gitmod, "subprocess", fake_subprocess):
        for root in roots:
            git = gitmod.Git(root)
            for x in hashes:
                for y in hashes:
                    for rc in (0, 1, 128):
                        inp = {"fn": "is_ancestor", "commit_hash": x, "candidate_ancestor_hash": y,
                               "git_exit_code": rc, "project_root": str(root)}
                        del calls[:]
                        state.update(rc=rc, stdout="")
                        got = git.is_ancestor(x, candidate_ancestor_hash=y)
                        a.ev += 1
                        if x != y:
                            a.nt += 1
                            a.sample(inp)
                        exp_argv = ["git", "merge-base", "--is-ancestor", y, x]
                        if len(calls) != 1 or calls[0][0] != exp_argv:
                            swapped = len(calls) == 1 and calls[0][0] == ["git", "merge-base", "--is-ancestor", x, y]
                            a.fail("is_ancestor_argv", "is_ancestor-arguments-swapped" if swapped
                                   else "is_ancestor-wrong-argv", inp, exp_argv, [c[0] for c in calls])
                        elif pathlib.Path(calls[0][1].get("cwd", "")) != root:
                            a.fail("is_ancestor_cwd", "git-not-run-in-project-root", inp, root,
                                   calls[0][1].get("cwd"))
                        elif calls[0][1].get("check"):
                            a.fail("is_ancestor_check", "git-check-true", inp, "check=False", "check=True")
                        elif got is not (rc == 0):
                            a.fail("is_ancestor_result", "is_ancestor-wrong-result", inp, rc == 0, got)
                    for count in ("0\n", "3\n", " 12 \n"):
                        inp = {"fn": "get_distance", "start_hash": x, "ancestor_hash": y,
                               "git_stdout": count, "project_root": str(root)}
                        del calls[:]
                        state.update(rc=0, stdout=count)
                        got = git.get_distance(x, y)
                        a.ev += 1
                        if x != y:
                            a.nt += 1
                            a.sample(inp)
                        exp_argv = ["git", "rev-list", "--count", x, "^" + y]
                        if len(calls) != 1 or calls[0][0] != exp_argv:
                            swapped = len(calls) == 1 and calls[0][0] == ["git", "rev-list", "--count", y, "^" + x]
                            a.fail("get_distance_argv", "get_distance-arguments-swapped" if swapped
                                   else "get_distance-wrong-argv", inp, exp_argv, [c[0] for c in calls])
                        elif pathlib.Path(calls[0][1].get("cwd", "")) != root:
                            a.fail("get_distance_cwd", "git-not-run-in-project-root", inp, root,
                                   calls[0][1].get("cwd"))
                        elif got != int(count.strip()) or isinstance(got, bool):
                            a.fail("get_distance_result", "get_distance-wrong-result", inp,
                                   int(count.strip()), got)
            # C17: EVERY git command of the class runs in the project root (never in the invocation directory), whatever
            # it is asked: the symbol of --at-least / --this-commit, HEAD, the dirty flag, "is git used"
            others = [("is_used", (), ["git", "rev-parse", "--git-dir"]), ("current_commit", (), None)]
            others += [("rev_parse", (sym,), ["git", "rev-parse", sym]) for sym in hashes]
            for meth, margs, exp_argv in others:
                for rc in (0, 1):
                    inp = {"fn": meth, "args": list(margs), "git_exit_code": rc, "project_root": str(root)}
                    del calls[:]
                    state.update(rc=rc, stdout="abc123\n")
                    getattr(git, meth)(*margs)
                    a.ev += 1
                    a.nt += 1
                    if not calls:
                        a.fail(meth + "_runs_git", meth + "-runs-no-git-command", inp, "a git command", [])
                        continue
                    if exp_argv is not None and calls[0][0] != exp_argv:
                        a.fail(meth + "_argv", meth + "-wrong-argv", inp, exp_argv, [c[0] for c in calls])
                        continue
                    if meth == "current_commit":
                        # HEAD's hash, and "dirty" = the work tree OR the index differs from HEAD (git diff-index HEAD)
                        want = [["git", "rev-parse", "HEAD"]] + ([["git", "diff-index", "--quiet", "HEAD"]] if rc == 0 else [])
                        if [c[0] for c in calls] != want:
                            a.fail("current_commit_argv", "current_commit-wrong-git-commands", inp, want, [c[0] for c in calls])
                            continue
                    bad = [c for c in calls if c[1].get("cwd") is None or pathlib.Path(c[1].get("cwd")) != root]
                    if bad:
                        a.fail(meth + "_cwd", "git-not-run-in-project-root", inp, str(root), [(c[0], str(c[1].get("cwd"))) for c in bad])
    return a


# --------------------------------------------------------------------------- validate_args
def _validate_args():
    import conductor.cli.run as runmod
    import conductor.errors as errors
    from conductor.utils.git import Git

    a = Acc()
    for this_commit, at_least, again, uses_git, has_commit, check, stop_early, jobs in itertools.product(
            (False, True), (None, "abc", "HEAD"), (False, True), (False, True), (False, True),
            (False, True), (False, True), (None, 2)):
        if not uses_git and has_commit:
            continue    # Context.current_commit is None without git
        args = argparse.Namespace(task_identifier="//:t", again=again, at_least=at_least,
                                  this_commit=this_commit, stop_early=stop_early, jobs=jobs,
                                  check=check, debug=False)
        ctx = types.SimpleNamespace(uses_git=uses_git,
                                    current_commit=Git.Commit("c0", False) if has_commit else None)
        inp = {"this_commit": this_commit, "at_least": at_least, "again": again, "uses_git": uses_git,
               "has_commits": has_commit, "check": check, "stop_early": stop_early, "jobs": jobs}
        for_commit = this_commit or at_least is not None
        if this_commit and at_least is not None:
            exp = "CannotSetBothCommitFlags"
        elif again and for_commit:
            exp = "CannotSetAgainAndCommit"
        elif for_commit and (not uses_git or not has_commit):
            exp = "CommitFlagUnsupported"
        else:
            exp = "ok"
        a.ev += 1
        if for_commit:
            a.nt += 1
            a.sample(inp)
        try:
            runmod.validate_args(args, ctx)
            got = "ok"
        except errors.ConductorError as ex:
            got = type(ex).__name__
        except Exception as ex:
            got = "non-ConductorError " + type(ex).__name__
        if got != exp:
            cls = "accepts-incompatible-flags" if got == "ok" else (
                "rejects-compatible-flags" if exp == "ok" else "wrong-incompatibility-reported")
            a.fail("incompatibilities", cls, inp, exp, got)
    return a


# --------------------------------------------------------------------------- C08 generator
CLOCKS = [99.0, 100.0, 100.9, 101.2, 103.0]
INITIAL_LAST = [0, 99, 100, 101, 105]


@_safe
def _generator_worker(job):
    first_clock, max_len = job
    import conductor.execution.version_index as vi
    from conductor.utils.git import Git
    from unittest import mock

    a = Acc()
    commits = [None, Git.Commit("abc", False), Git.Commit("def", True)]
    clock = {"seq": [], "i": 0}

    def fake_time():
        v = clock["seq"][clock["i"]]
        clock["i"] += 1
        return v

    fake_time_mod = types.SimpleNamespace(time=fake_time)
    with mock.patch.object(vi, "time", fake_time_mod):
        for length in range(1, max_len + 1):
            for tail in itertools.product(CLOCKS, repeat=length - 1):
                seq = (first_clock,) + tail
                for last in INITIAL_LAST:
                    index = vi.VersionIndex(conn=None, last_timestamp=last,
                                            underlying_db_path=pathlib.Path("/nonexistent"))
                    clock["seq"], clock["i"] = seq, 0
                    inp = {"initial_last_timestamp": last, "clock": list(seq)}
                    nontrivial = any(int(seq[i]) <= (last if i == 0 else int(seq[i - 1]))
                                     for i in range(len(seq)))
                    a.ev += len(seq)
                    if nontrivial:
                        a.nt += 1
                        a.sample(inp)
                    prev_last = last
                    produced = []
                    for i in range(len(seq)):
                        commit = commits[(i + len(seq)) % 3]
                        try:
                            v = index.generate_new_output_version(commit)
                        except Exception as ex:
                            a.fail("no_exception", "generator-raises", inp, "a version", type(ex).__name__)
                            break
                        new_last = index._last_timestamp
                        if not isinstance(v.timestamp, int) or isinstance(v.timestamp, bool):
                            a.fail("int_timestamp", "timestamp-not-int", inp, "int", repr(v.timestamp))
                            break
                        if not v.timestamp > prev_last:
                            a.fail("above_last", "timestamp-not-above-last-timestamp", inp,
                                   "> %d at call %d" % (prev_last, i), v.timestamp)
                            break
                        if v.timestamp in produced:
                            a.fail("pairwise_distinct", "duplicate-timestamp-in-one-process", inp,
                                   "distinct", produced + [v.timestamp])
                            break
                        if new_last != v.timestamp:
                            a.fail("last_updated", "last-timestamp-not-updated", inp, v.timestamp, new_last)
                            break
                        exp_hash = None if commit is None else commit.hash
                        exp_dirty = False if commit is None else commit.has_changes
                        if v.commit_hash != exp_hash or v.has_uncommitted_changes is not exp_dirty:
                            a.fail("commit_copied", "commit-or-dirty-flag-not-copied", inp,
                                   (exp_hash, exp_dirty), (v.commit_hash, v.has_uncommitted_changes))
                            break
                        produced.append(v.timestamp)
                        prev_last = new_last
    return a


def _create_or_load():
    import conductor.execution.version_index as vi
    from unittest import mock

    a = Acc()
    row_sets = [
        [],
        [("//:a", 100)],
        [("//:a", 100), ("//x:b", 500)],
        [("//:a", 500), ("//x:b", 100)],
        [("//:a", 100), ("//:a", 300), ("//x:b", 500), ("//x/y:c", 200)],
        [("//:a", 700), ("//:a", 300), ("//x:b", 500), ("//x/y:c", 200)],
        [("//:a", 1), ("//x:b", 2), ("//x:c", 3)],
    ]
    clocks = [0.0, 1.5, 50.0, 100.0, 499.9, 500.0, 500.5, 600.0, 700.0, 1000.0]
    scratch = _mkscratch()
    try:
        for n, rows in enumerate(row_sets):
            path = pathlib.Path(scratch, "p%d" % n, "cond-out", "version_index.sqlite")
            index = vi.VersionIndex.create_or_load(path)
            index._conn.executemany(      # rows by explicit column names (fixture, not under test)
                "INSERT INTO version_index (task_identifier, timestamp, git_commit_hash, has_uncommitted_changes) VALUES (?, ?, ?, ?)",
                [(ident, ts, "abc" if ts % 200 else None, 0) for ident, ts in rows])
            index._conn.commit()
            index._conn.close()
            if not path.is_file():
                raise RuntimeError("harness: version index file was not created")
            project_max = max([ts for _, ts in rows], default=0)
            for clk in clocks:
                inp = {"rows": rows, "clock": clk}
                fake_time_mod = types.SimpleNamespace(time=lambda clk=clk: clk)
                with mock.patch.object(vi, "time", fake_time_mod):
                    index = vi.VersionIndex.create_or_load(path)
                    try:
                        stored = sorted(index._conn.execute(
                            "SELECT task_identifier, timestamp FROM version_index").fetchall())
                        if stored != sorted(rows):
                            raise RuntimeError("harness: rows not persisted: %r" % (stored,))
                        v1 = index.generate_new_output_version(None)
                        v2 = index.generate_new_output_version(None)
                    finally:
                        index._conn.close()
                a.ev += 2
                owners = {i for i, ts in rows if ts == project_max}
                if len({i for i, _ in rows}) > 1 and int(clk) <= project_max:
                    a.nt += 1
                    a.sample(inp)
                if not v1.timestamp > project_max:
                    a.fail("seeds_from_project_max", "new-id-not-above-recorded-ids", inp,
                           "> %d (held by %s)" % (project_max, sorted(owners)), v1.timestamp)
                elif not v2.timestamp > v1.timestamp:
                    a.fail("strictly_increasing", "second-id-not-above-first", inp,
                           "> %d" % v1.timestamp, v2.timestamp)
    finally:
        shutil.rmtree(scratch, ignore_errors=True)
    return a


# --------------------------------------------------------------------------- driver
def run(tier, seed):
    quick = tier == "quick"
    max_commits = 3 if quick else 4
    max_parents = 2 if quick else 3
    max_versions = 3
    max_len = 4 if quick else 6
    dags = all_dags(max_commits, max_parents)
    n_proc = min(16, os.cpu_count() or 1)
    ctx = multiprocessing.get_context("fork")
    sel, run_, outp, gen = Acc(), Acc(), Acc(), Acc()
    with ctx.Pool(processes=n_proc) as pool:
        t0 = time.time()
        jobs = sorted([(d, max_versions) for d in dags], key=lambda j: -len(j[0]))
        sel_job = pool.map_async(_select_worker, jobs, chunksize=1)
        gen_job = pool.map_async(_generator_worker, [(c, max_len) for c in CLOCKS], chunksize=1)
        for s, r, o in sel_job.get(_POOL_TIMEOUT_S):
            sel.merge(s)
            run_.merge(r)
            outp.merge(o)
        wall_sel = time.time() - t0
        for g in gen_job.get(_POOL_TIMEOUT_S):
            gen.merge(g)
        wall_gen = time.time() - t0
    t0 = time.time()
    argv = _git_argv()
    wall_argv = time.time() - t0
    t0 = time.time()
    val = _validate_args()
    wall_val = time.time() - t0
    t0 = time.time()
    col = _create_or_load()
    wall_col = time.time() - t0

    scope = ("all %d commit DAGs with <= %d commits (<= %d parents per commit, merges included) x "
             "{git unused} + {git used} x HEAD in {none, every commit} x all lists of <= %d versions whose "
             "commit is any DAG commit / null / unknown to the DAG x all timestamp orders"
             % (len(dags), max_commits, max_parents, max_versions))
    return [
        sel.result("C05.select.matches_documented_rule", ["C05", "C02", "C07"],
                   "task_types/run.py::RunExperiment._retrieve_most_relevant_existing_version",
                   scope, True,
                   "distinct (DAG, git, HEAD, version list); non-trivial = git used, HEAD exists, >= 2 versions, "
                   "at least one carrying a commit of the DAG", wall_sel),
        run_.result("C05.should_run.at_least_rule", ["C05", "C02"],
                    "task_types/run.py::RunExperiment.should_run",
                    scope + " x at_least in {none} + every commit that is HEAD or an ancestor of HEAD", True,
                    "distinct (DAG, git, HEAD, version list, at_least); non-trivial = at_least given and a "
                    "version is selected", wall_sel),
        outp.result("C05.output_path.is_selected_version_dir", ["C05", "C20"],
                    "task_types/run.py::RunExperiment.get_output_path", scope, True,
                    "distinct (DAG, git, HEAD, version list); non-trivial = some version is selected",
                    wall_sel),
        argv.result("C05.git_argv", ["C05", "C17", "C06", "C02"], "utils/git.py::Git.{is_used,current_commit,rev_parse,is_ancestor,get_distance}",
                    "2 project roots x 5x5 commit symbols x git exit codes {0,1,128} (is_ancestor) / "
                    "stdout {'0','3',' 12 '} (get_distance); subprocess.run recorded", True,
                    "distinct (function, root, two symbols, git answer); non-trivial = the two symbols differ",
                    wall_argv),
        val.result("C05.validate_args.incompatibilities", "C05", "cli/run.py::validate_args",
                   "--this-commit x --at-least in {none,'abc','HEAD'} x --again x git used x has commits x "
                   "--check x --stop-early x --jobs in {none,2}", True,
                   "distinct flag/context combinations; non-trivial = a commit flag is set", wall_val),
        gen.result("C08.generator.strictly_increasing_and_above_last", "C08",
                   "execution/version_index.py::VersionIndex.generate_new_output_version",
                   "all clock sequences of length <= %d over %s (repeats, going backwards, sub-second) x initial "
                   "_last_timestamp in %s; commit argument cycling over none / clean / dirty"
                   % (max_len, CLOCKS, INITIAL_LAST), True,
                   "distinct (initial last, clock sequence); evaluations count single calls; non-trivial = some "
                   "clock reading is not after the previous reading / the initial last timestamp", wall_gen),
        col.result("C08.create_or_load.seeds_from_project_max", "C08",
                   "execution/version_index.py::VersionIndex.create_or_load",
                   "7 committed row sets over up to 3 tasks (max held by different tasks) in a real sqlite file x "
                   "10 clock values (behind / equal / ahead of the project-wide maximum); two ids generated after "
                   "reopening", True,
                   "distinct (rows, clock); non-trivial = more than one task recorded and the clock is not ahead "
                   "of the project-wide maximum", wall_col),
    ]


if __name__ == "__main__":
    from runtime.common import main
    main(run)
